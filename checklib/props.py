"""Per-property decision procedures.  Each function drives TLC on the specification and binds the
result to the implementation through the harness (see DESIGN.md section 5)."""
import os, json
from . import core

CHECKS, LEVELS, RULES = {}, {}, {}


def prop(pid, level="model_checking", rule=None):
    def deco(fn):
        CHECKS[pid] = fn
        LEVELS[pid] = level
        if rule:
            RULES[pid] = rule
        return fn
    return deco


# (W, S, MaxInit, MaxBulk)
ANS_QUICK = [(2, 4, 3, 2), (2, 5, 3, 1), (2, 6, 4, 1), (3, 6, 3, 1)]
ANS_THOROUGH = ANS_QUICK + [(2, 4, 5, 4), (2, 8, 5, 1), (3, 8, 3, 1), (4, 8, 3, 1), (4, 12, 3, 0)]
ANS_LAWS = ["TypeInv", "StateInv", "LawPopAfterPush", "LawPushAfterPop", "LawDecodeTotal", "LawImportExport",
            "LawSizes", "LawStepBound", "LawBinary"]


def ans_states(ctx, laws, mode, widths=None):
    """TLC: explore Ans.tla exhaustively at each width, checking `laws` in every state and emitting one replay
    case per state; harness: replay the cases in `mode` on the real AnsCoder."""
    widths = widths or (ANS_THOROUGH if ctx.tier == "thorough" else ANS_QUICK)
    for (w, s, mi, mb) in widths:
        cases = os.path.join(ctx.work, "ans_%d_%d.ndjson" % (w, s))
        st = ctx.tlc("MC_Ans", {"W": w, "S": s, "MaxInit": mi, "MaxBulk": mb}, invariants=laws + ["Emit"],
                     constraint="Bound", emit_to=cases, label="MC_Ans_%d_%d" % (w, s))
        if st["spec_violation"]:
            ctx.violation("specification law %s fails at W=%d S=%d:\n%s" % (st["spec_violation"], w, s, st.get("counterexample", "")),
                          {"k": "spec", "module": "MC_Ans", "constants": st["constants"]})
            continue
        ctx.vh("replay", mode=mode, infile=cases)


@prop("C01")
def c01(ctx):
    ans_states(ctx, ["TypeInv", "StateInv", "LawPopAfterPush", "LawImportExport"], "c01")


@prop("C06")
def c06(ctx):
    ans_states(ctx, ["TypeInv", "StateInv"], "c06")
    range_hists(ctx, ["TypeInv", "StateInv", "RefAgree"], "c06")
    for c in RANGE_CLASSES:
        ctx.require(c)
    for c in ("enc_flush", "enc_noflush", "dec_refill", "dec_norefill", "binary_state"):
        ctx.require(c)


# (W, S, MaxSyms, PSet)
RANGE_QUICK = [(2, 4, 4, "{1,2}"), (2, 6, 3, "{1,2}"), (2, 6, 5, "{2}"), (3, 6, 2, "{1,2,3}"), (3, 6, 3, "{2}")]
RANGE_THOROUGH = [(2, 4, 5, "{1,2}"), (2, 6, 5, "{1,2}"), (2, 8, 4, "{1,2}"), (3, 6, 3, "{1,2,3}"), (3, 9, 3, "{2,3}"), (4, 8, 3, "{2,4}"), (4, 8, 2, "{1,2,3,4}")]


def range_hists(ctx, invs, mode, widths=None, spec_violation_is=None):
    """TLC: every message of <= MaxSyms symbols through Range.tla (encoder, reference coder and decoder), checking
    `invs` in every state and emitting one replay case per message; harness: replay in `mode` on the real coder."""
    widths = widths or (RANGE_THOROUGH if ctx.tier == "thorough" else RANGE_QUICK)
    for (w, s, ms, pset) in widths:
        cases = os.path.join(ctx.work, "range_%d_%d_%d.ndjson" % (w, s, ms))
        sl = (s // w + 1) if ctx.tier == "thorough" else (s // w - 1)
        st = ctx.tlc("MC_Range", {"W": w, "S": s, "MaxSyms": ms, "PSet": pset, "SuffixLen": sl}, invariants=invs + ["Emit"],
                     emit_to=cases, label="MC_Range_%d_%d" % (w, s))
        if st["spec_violation"]:
            ctx.violation("specification invariant %s fails at W=%d S=%d:\n%s" % (st["spec_violation"], w, s, st.get("counterexample", "")),
                          {"k": "spec", "module": "MC_Range", "constants": st["constants"], "invariant": st["spec_violation"]})
        ctx.vh("replay", mode=mode, infile=cases)


RANGE_CLASSES = ["no_renorm", "normal_normal", "normal_inverted", "inverted_inverted", "resolve_carry", "resolve_nocarry",
                 "seal_one_word", "seal_two_words", "seal_inverted_carry", "seal_inverted_nocarry", "seal_fresh"]


@prop("C02")
def c02(ctx):
    range_hists(ctx, ["TypeInv", "StateInv", "RoundTrip", "ExhaustedAfter", "EmptyMessage", "InSync"], "c02")
    for c in RANGE_CLASSES + ["iid_batch"]:
        ctx.require(c)


@prop("C11")
def c11(ctx):
    range_hists(ctx, ["TypeInv", "StateInv", "SuffixOK"], "c11")
    for c in RANGE_CLASSES:
        ctx.require(c)


@prop("C07")
def c07(ctx):
    range_hists(ctx, ["TypeInv", "StateInv", "InSync"], "c07")
    for c in ["seek_final", "seek_snapshot_inverted"]:
        ctx.require(c)


@prop("C09")
def c09(ctx):
    range_hists(ctx, ["TypeInv", "StateInv"], "c09")


@prop("C04")
def c04(ctx):
    ans_states(ctx, ["TypeInv", "StateInv", "LawPushAfterPop", "LawBinary", "LawDecodeTotal"], "c04")
    for c in ("binary_state", "binary_trailing_zero"):
        ctx.require(c)


def c08_ans(ctx):
    ans_states(ctx, ["TypeInv", "StateInv", "LawImportExport"], "c08")
    for c in ("get_binary_ok", "get_binary_err"):
        ctx.require(c)


def c10_ans(ctx):
    ans_states(ctx, ["TypeInv", "LawDecodeTotal"], "c10")


def c12_ans(ctx):
    ans_states(ctx, ["TypeInv", "StateInv", "LawStepBound"], "c12")


def c18_ans(ctx):
    ans_states(ctx, ["TypeInv", "StateInv", "LawSizes", "LawBinary"], "c18")


@prop("C08")
def c08(ctx):
    c08_ans(ctx)
    range_hists(ctx, ["TypeInv", "StateInv"], "c08")
    ctx.require("inspect_while_inverted")


@prop("C10")
def c10(ctx):
    c10_ans(ctx)


@prop("C12")
def c12(ctx):
    c12_ans(ctx)
    range_hists(ctx, ["TypeInv", "StateInv", "WordsBound", "StepBound"], "c12")
    ctx.require("bits_bound_evaluated")


@prop("C18")
def c18(ctx):
    c18_ans(ctx)
    range_hists(ctx, ["TypeInv", "StateInv", "SizesOK", "ExhaustedAfter"], "c18")
    for c in ["sizes_while_inverted", "not_exhausted_checked"]:
        ctx.require(c)


def selftest():
    return 0


def replay(pid, path):
    return 0
