"""Per-property decision procedures.  Each function drives TLC on the specification and binds the
result to the implementation through the harness (see DESIGN.md section 5)."""
import os, json
from . import core

CHECKS, LEVELS, RULES = {}, {}, {}


def prop(pid, level="model_checking", rule=None):
    def deco(fn):
        CHECKS[pid] = fn
        LEVELS[pid] = level
        if rule:
            RULES[pid] = rule
        return fn
    return deco


# (W, S, MaxInit, MaxBulk)
ANS_QUICK = [(2, 4, 3, 2), (2, 5, 3, 1), (2, 6, 4, 1), (3, 6, 3, 1)]
ANS_THOROUGH = ANS_QUICK + [(2, 4, 4, 3), (2, 8, 5, 1), (3, 8, 3, 1), (4, 8, 2, 1), (4, 12, 2, 0)]
ANS_LAWS = ["TypeInv", "StateInv", "LawPopAfterPush", "LawPushAfterPop", "LawDecodeTotal", "LawImportExport",
            "LawSizes", "LawStepBound", "LawBinary"]


def narrow_replay(ctx, w, mode, cases):
    """The same cases once more with models whose Probability type is narrower than the coder's Word type (U2 for 3-bit words,
    U3 for 4-bit words; `M::Probability: Into<Word>`): used for every precision that fits into the narrow type, so that
    PRECISION < Probability::BITS < Word::BITS occurs."""
    if w >= 3:
        ctx.vh("replay", mode=mode, infile=cases, extra=["--narrow"])
        ctx.classes["narrow_probability_type_replays"] = ctx.classes.get("narrow_probability_type_replays", 0) + 1


def ans_states(ctx, laws, mode, widths=None):
    """TLC: explore Ans.tla exhaustively at each width, checking `laws` in every state and emitting one replay
    case per state; harness: replay the cases in `mode` on the real AnsCoder."""
    widths = widths or (ANS_THOROUGH if ctx.tier == "thorough" else ANS_QUICK)
    for (w, s, mi, mb) in widths:
        cases = os.path.join(ctx.work, "ans_%d_%d.ndjson" % (w, s))
        st = ctx.tlc("MC_Ans", {"W": w, "S": s, "MaxInit": mi, "MaxBulk": mb}, invariants=laws + ["Emit"],
                     constraint="Bound", emit_to=cases, label="MC_Ans_%d_%d" % (w, s))
        if st["spec_violation"]:
            ctx.violation("specification law %s fails at W=%d S=%d:\n%s" % (st["spec_violation"], w, s, st.get("counterexample", "")),
                          {"k": "spec", "module": "MC_Ans", "constants": st["constants"]})
            continue
        ctx.vh("replay", mode=mode, infile=cases)
        narrow_replay(ctx, w, mode, cases)


# (w, s, precisions) driven by the random-history drivers; exact validation needs s <= 16
ANS_DRIVE_QUICK = [(8, 16, "1,2,3,4,5,6,7,8"), (2, 4, "1,2"), (3, 6, "1,2,3"), (16, 32, "1,4,8,12,16"), (32, 64, "1,8,12,16,24,32"), (16, 64, "1,8,12,16"), (8, 32, "1,4,8"),
                   (8, 128, "1,4,8"), (64, 128, "1,16,32,40,48")]
ANS_DRIVE_THOROUGH = ANS_DRIVE_QUICK + [(2, 6, "1,2"), (4, 8, "1,2,3,4"), (4, 12, "1,2,3,4"), (32, 128, "1,16,24,32"), (16, 128, "1,8,16"), (8, 64, "1,4,8"), (2, 8, "1,2")]


# real widths at which the drivers use models with a Probability type narrower than Word (u16 for u32 words, u8 for u16 words,
# U4 for u8 words, u32 for u64 words) for every precision that fits
NARROW_DRIVE = {(16, 64): ["--narrow"], (8, 32): ["--narrow"], (64, 128): ["--narrow"], (32, 128): ["--narrow"]}


def big_job(ctx, module, base, w, s, what, max_events=None):
    """V3: re-encodes the exact trace `base`.exact.ndjson as limb sequences (spec/Big.tla) and returns the validation job against
    the limb-arithmetic specification `module` (TraceBigAns / TraceBigRange / TraceBigChain).  Limb width: 12 bits at the real
    widths; 3 bits for states of at most 16 bits, so that the traces which TraceAns/TraceRange validate with TLC's own integers
    are validated a second time through multi-limb arithmetic."""
    lb = 12 if s > 16 else 3
    if ctx.tier != "thorough" and s > 64:
        max_events = min(max_events or 800, 800 if module == "TraceBigAns" else 500)      # 128-bit states: 128-step long divisions
    if ctx.tier == "thorough":
        max_events = min(max_events or 10**9, (3000 if module == "TraceBigAns" else 1500) if s > 64 else 10000)   # keeps the thorough tier within an hour
    n = core.limbify(base + ".exact.ndjson", base + ".big.ndjson", lb, max_events)
    if s >= 32:
        ctx.classes["big_trace_events_real_presets"] = ctx.classes.get("big_trace_events_real_presets", 0) + n
    return dict(module=module, trace=base + ".big.ndjson", constants={"W": w, "S": s, "LB": lb}, invariants=["StateInv"], what=what, timeout=1500)


def ans_traces(ctx, exact, abstract):
    """impl -> spec: random histories on the real AnsCoder at real and tiny widths; every recorded event is validated by TLC
    against TraceAns.tla (exact, every field) and/or AbsAns.tla (format-agnostic stack semantics)."""
    n = 9000 if ctx.tier == "thorough" else 4000
    jobs = []
    for (w, s, precs) in (ANS_DRIVE_THOROUGH if ctx.tier == "thorough" else ANS_DRIVE_QUICK):
        base = os.path.join(ctx.work, "anstrace_%d_%d" % (w, s))
        ctx.vh("drive_ans", extra=["--w", str(w), "--s", str(s), "--precs", precs, "--n", str(n), "--trace", base] + NARROW_DRIVE.get((w, s), []))
        if exact and s <= 16:
            jobs.append(dict(module="TraceAns", trace=base + ".exact.ndjson", constants={"W": w, "S": s}, invariants=["StateInv"], what="AnsCoder<%d,%d> exact" % (w, s)))
        if exact:
            jobs.append(big_job(ctx, "TraceBigAns", base, w, s, "AnsCoder<%d,%d> exact (limb arithmetic)" % (w, s)))
        if abstract:
            jobs.append(dict(module="AbsAns", trace=base + ".abs.ndjson", invariants=["Report"], what="AnsCoder<%d,%d> abstract" % (w, s)))
    ctx.validate_traces(jobs)
    if exact:
        ctx.require("big_trace_events_real_presets", 1000)
    if abstract:
        ctx.require("trace_confirmations", 200)
        for c in ("debt_cancelled", "dec_below_base", "reimport", "from_binary", "export_binary_ok"):
            ctx.require(c)


@prop("C01")
def c01(ctx):
    ans_proofs(ctx)
    py_traces(ctx, ["ans"])
    py_diff(ctx)
    ans_traces(ctx, exact=False, abstract=True)
    ans_states(ctx, ["TypeInv", "StateInv", "LawPopAfterPush", "LawImportExport"], "c01")
    ctx.require("batch_forms")


def py_traces(ctx, coders):
    """impl -> spec through the PYTHON front end (src/pybindings, cargo feature `pybindings`, default preset u32/u64/24): seeded
    random histories run through the Python API (all three call forms: single symbol, iid array, model family with
    per-symbol parameters; Uniform, Categorical fast eager/lazy, CustomModel on step CDFs; import/export, seal/unseal, clone, seek,
    clear, impossible symbols, decoders over garbage) and TLC validates every recorded call exactly against BigAns / BigRange with
    the model tables predicted by FixedPoint.tla (TracePyAns.tla, TracePyRange.tla)."""
    n = 6000 if ctx.tier == "thorough" else 1500
    jobs = []
    for coder in coders:
        trace = ctx.pydrive(coder, n)
        if trace:
            if coder == "symbol":
                jobs.append(dict(module="TracePySymbol", trace=trace, what="Python front end: symbol codes (Huffman on bit stack / queue)", timeout=1500))
                continue
            jobs.append(dict(module={"ans": "TracePyAns", "range": "TracePyRange", "chain": "TracePyChain"}[coder], trace=trace,
                             constants={"W": 32, "S": 64, "LB": 12}, invariants=["StateInv"], what="Python front end: %s coder" % coder, timeout=1500))
    ctx.validate_traces(jobs)
    for coder in coders:
        for c in {"ans": ("py_enc_family_fast", "py_dec_iid_array", "py_from_binary", "py_seek", "py_seek_to_small_state", "py_model_fast_lazy", "py_model_leaky", "py_model_leaky_via_ScipyModel", "py_model_family_two_parameter_arrays"),
                  "range": ("py_enc_steered", "py_dec_family_leaky", "py_seek", "py_dec_invalid_data", "py_exhausted_after_message"),
                  "symbol": ("py_stack_export_at_word_boundary", "py_queue_get_decoder_mid_stream", "py_queue_export_at_word_boundary", "py_stack_reimport", "py_book_f32", "py_queue_dec_out_of_data", "py_stack_enc_refused"),
                  "chain": ("py_restored_same", "py_restored_suffix", "py_restored_concat", "py_dec_out_of_data_single", "py_dec_iid_array_out_of_data", "py_ctor_compressed", "py_dec_family_fast")}.get(coder, ()):
            ctx.require(c)
    if "range" in coders:
        ctx.require("trace_steps_with_words_held_back")
        ctx.require("clones_while_words_held_back")


def py_diff(ctx):
    """Differential binding of the two front ends for the model classes the specification does not predict (float arithmetic):
    messages with QuantizedGaussian / Laplace / Cauchy, Binomial, Bernoulli and Categorical (perfect, fast, lazy; f64 and f32 tables)
    models in the concrete and the model-family call forms are encoded and decoded through the Python API and re-encoded through
    the Rust API (`vh pydiff`): identical words, identical symbols.  (The Rust models themselves are tied to the specification's
    contract by the VM records of C03/C05, the Rust coders by R1/V1/V3.)"""
    trace = ctx.pydrive("diff", 1200 if ctx.tier == "thorough" else 300)
    if trace:
        ctx.vh("pydiff", infile=trace)
        for c in ("pydiff_gaussian", "pydiff_cauchy", "pydiff_binomial", "pydiff_bernoulli", "pydiff_categorical", "py_diff_gaussian_family", "py_diff_categorical_family"):
            ctx.require(c)


def _tlapm(wd, mod):
    """Run the TLA+ proof manager on one module.  A proof obligation that times out under load (all 16 cores busy with TLC or cargo)
    is retried once with four-fold back-end timeouts; obligations already proved are kept by their fingerprints, nothing else
    changes (the same proofs, the same back ends)."""
    import subprocess
    p = subprocess.run(["timeout", "1500", "tlapm", "--threads", "6", "--cleanfp", mod], cwd=wd, stdout=subprocess.PIPE, stderr=subprocess.STDOUT, text=True)
    if "obligations proved" not in p.stdout or "failed" in p.stdout:
        p = subprocess.run(["timeout", "2400", "tlapm", "--threads", "6", "--stretch", "4", mod], cwd=wd, stdout=subprocess.PIPE, stderr=subprocess.STDOUT, text=True)
    return p


def carry_proofs(ctx):
    """TLAPS checks spec/proofs/RangeCarry.tla (theorem CarryStep, inductive): the range encoder with its held-back words - it never
    revisits a written word - emits exactly the digits of the arbitrary-precision, carry-propagating reference coder, for ALL widths,
    precisions and message lengths (RefAgree and the normal-situation invariant are preserved by every step: no renormalisation,
    normal -> normal, normal -> inverted, inverted -> inverted, resolution with and without carry).  MC_Range.CarryBridge (TLC, every
    reachable state and slot) ties REnc / HeldCarry / HeldNoCarry / RefEnc of Range.tla to the numeric step of the theorem."""
    import shutil, subprocess, re
    wd = os.path.join(ctx.work, "proofs_carry")
    shutil.copytree(os.path.join(core.SPEC, "proofs"), wd, ignore=shutil.ignore_patterns(".tlacache"))
    p = _tlapm(wd, "RangeCarry.tla")
    m = re.search(r"All (\d+) obligations proved", p.stdout)
    if not m:
        raise core.ToolError("TLAPS did not prove spec/proofs/RangeCarry.tla:\n" + p.stdout[-1500:])
    ctx.classes["tlaps_obligations_proved"] = ctx.classes.get("tlaps_obligations_proved", 0) + int(m.group(1))
    ctx.assumptions.append("TLAPS 1.6 (SMT back end Z3) checks proofs correctly")
    ctx.require("tlaps_obligations_proved", 350)


def model_proofs(ctx):
    """TLAPS checks spec/proofs/LeakyValid.tla: the leaky quantisation of LeakyQuantizer and of the `fast` categorical constructors
    (FixedPoint.tla: LeakyLeft / FastLeft) gives every symbol a probability of at least one quantum and tiles [0, 2^P) for ALL
    precisions, support sizes and monotone cumulative distributions (exact arithmetic).  MC_Models.ProofBridge (TLC, every
    enumerated input) ties the formulas of FixedPoint.tla to the theorem."""
    import shutil, subprocess, re
    wd = os.path.join(ctx.work, "proofs_models")
    shutil.copytree(os.path.join(core.SPEC, "proofs"), wd, ignore=shutil.ignore_patterns(".tlacache"))
    p = _tlapm(wd, "LeakyValid.tla")
    m = re.search(r"All (\d+) obligations proved", p.stdout)
    if not m:
        raise core.ToolError("TLAPS did not prove spec/proofs/LeakyValid.tla:\n" + p.stdout[-1500:])
    ctx.classes["tlaps_obligations_proved"] = ctx.classes.get("tlaps_obligations_proved", 0) + int(m.group(1))
    ctx.assumptions.append("TLAPS 1.6 (SMT back end Z3) checks proofs correctly")
    ctx.require("tlaps_obligations_proved", 70)


def range_proofs(ctx):
    """Unbounded part of the design-level argument for the range coder: TLAPS checks spec/proofs/RangeCore.tla (EncoderSound: every
    point of the sub-interval the encoder selects is decoded as that symbol; DecoderStep: the decoder's offset stays inside the
    interval through a symbol and through the renormalisation by one word, and the interval never becomes empty) for ALL widths and
    precisions; TLC checks at small widths that Range.tla's operators compute the quantities the theorems speak about."""
    import shutil, subprocess, re
    wd = os.path.join(ctx.work, "proofs_range")
    shutil.copytree(os.path.join(core.SPEC, "proofs"), wd, ignore=shutil.ignore_patterns(".tlacache"))
    # RangeMessage: DecoderStep lifted to the machine that decodes an unbounded message (inductive invariant T <= range, off < range:
    # one word of renormalisation always suffices, no underflow, the point never leaves the interval)
    for mod in ("RangeCore.tla", "RangeSeal.tla", "RangeMessage.tla"):
        p = _tlapm(wd, mod)
        m = re.search(r"All (\d+) obligations proved", p.stdout)
        if not m:
            raise core.ToolError("TLAPS did not prove spec/proofs/%s:\n" % mod + p.stdout[-1500:])
        ctx.classes["tlaps_obligations_proved"] = ctx.classes.get("tlaps_obligations_proved", 0) + int(m.group(1))
        ctx.classes["tlaps_" + mod[:-4]] = int(m.group(1))
    ctx.assumptions.append("TLAPS 1.6 (SMT back end Z3) checks proofs correctly")
    ctx.require("tlaps_RangeMessage", 270)
    for (w, s, md) in [(2, 4, 3), (3, 6, 1), (2, 6, 1)] + ([(2, 6, 2), (2, 8, 1)] if ctx.tier == "thorough" else []):
        st = ctx.tlc("MC_RangeBridge", {"W": w, "S": s, "MaxData": md}, invariants=["DecBridge", "EncBridge", "SealBridge"], workers=12, timeout=3000, label="MC_RangeBridge_%d_%d" % (w, s))
        if st["spec_violation"]:
            raise core.ToolError("MC_RangeBridge: Range.tla does not compute the step proved in spec/proofs at W=%d S=%d:\n%s" % (w, s, st.get("counterexample", "")))
    ctx.require("tlaps_obligations_proved", 800)


def ans_proofs(ctx):
    """Unbounded part of the design-level argument for the rANS step: TLAPS checks the proofs in spec/proofs (AnsCore: the
    coding step without renormalisation is invertible; AnsStep: theorems EncodeStep and DecodeStep - with the flush / refill of one
    word the step cannot overflow, keeps the state invariant, and decoding undoes encoding and vice versa, the refill decision
    coinciding with the flush decision) for ALL widths and precisions; TLC checks at small widths that Ans.tla's operators are
    exactly the abstract step the theorems speak about (MC_AnsBridge)."""
    import shutil, subprocess, re
    wd = os.path.join(ctx.work, "proofs")
    shutil.copytree(os.path.join(core.SPEC, "proofs"), wd, ignore=shutil.ignore_patterns(".tlacache"))
    total = 0
    # AnsStep: the step over numbers; AnsMessage: the step over whole configurations (state + bulk) and the inductive invariant
    # of the machine that encodes an unbounded message (decoding in reverse walks back through every earlier configuration)
    for mod in ["AnsStep.tla", "AnsMessage.tla"]:
        p = _tlapm(wd, mod)
        m = re.search(r"All (\d+) obligations proved", p.stdout)
        if not m:
            raise core.ToolError("TLAPS did not prove spec/proofs/%s:\n" % mod + p.stdout[-1500:])
        total += int(m.group(1))
        ctx.classes["tlaps_" + mod[:-4]] = int(m.group(1))
    ctx.classes["tlaps_obligations_proved"] = total
    ctx.assumptions.append("TLAPS 1.6 (SMT back end Z3) checks proofs correctly")
    for (w, s, mb) in [(2, 4, 2), (2, 5, 1), (2, 6, 1), (3, 6, 1), (3, 7, 1)] + ([(4, 8, 1), (3, 9, 1), (2, 8, 2)] if ctx.tier == "thorough" else []):
        st = ctx.tlc("MC_AnsBridge", {"W": w, "S": s, "MaxBulk": mb}, invariants=["Bridge"], label="MC_AnsBridge_%d_%d" % (w, s))
        if st["spec_violation"]:
            raise core.ToolError("MC_AnsBridge: Ans.tla is not the step proved in spec/proofs at W=%d S=%d:\n%s" % (w, s, st.get("counterexample", "")))
    ctx.require("tlaps_obligations_proved", 800)
    ctx.require("tlaps_AnsMessage", 340)


def big_equiv(ctx):
    """The limb-arithmetic specifications used for exact validation at the real widths (Big, BigAns, BigRange) are tied to the
    primary specifications: TLC checks exhaustively at small widths, with limbs of 1-3 bits so that every number spans several
    limbs, that the limb arithmetic agrees with TLC's integers and that every BigAns / BigRange operator agrees with its
    namesake in Ans.tla / Range.tla in every coder state."""
    th = ctx.tier == "thorough"
    runs = [("MC_BigArith", {"LB": 2, "N": 160, "K": 7}, ["Repr", "AddOK", "SubOK", "MulOK", "MulSmallOK", "CmpOK", "ShiftOK", "BitLenOK", "DivOK", "ChunksOK"]),
            ("MC_BigArith", {"LB": 3, "N": 200 if not th else 700, "K": 8}, ["Repr", "AddOK", "SubOK", "MulOK", "MulSmallOK", "CmpOK", "ShiftOK", "BitLenOK", "DivOK", "ChunksOK"]),
            ("MC_BigAnsEquiv", {"W": 2, "S": 6, "LB": 1, "MaxBulk": 1, "MaxInit": 4}, ["Queries", "Steps", "Imports"]),
            ("MC_BigAnsEquiv", {"W": 3, "S": 6, "LB": 2, "MaxBulk": 1, "MaxInit": 3}, ["Queries", "Steps", "Imports"]),
            ("MC_BigRangeEquiv", {"W": 2, "S": 4, "LB": 1, "MaxData": 3, "MaxSitN": 2}, ["EncQueries", "EncSteps", "DecAll"])]
    if th:
        runs += [("MC_BigArith", {"LB": 1, "N": 200, "K": 8}, runs[0][2]), ("MC_BigArith", {"LB": 5, "N": 400, "K": 11}, runs[0][2]),
                 ("MC_BigAnsEquiv", {"W": 2, "S": 8, "LB": 3, "MaxBulk": 1, "MaxInit": 4}, ["Queries", "Steps", "Imports"]),
                 ("MC_BigRangeEquiv", {"W": 2, "S": 4, "LB": 2, "MaxData": 3, "MaxSitN": 2}, ["EncQueries", "EncSteps", "DecAll"])]
    for (module, consts, invs) in runs:
        st = ctx.tlc(module, consts, invariants=invs, workers=12, timeout=3000, label=module)
        if st["spec_violation"]:
            # an inconsistency between two of our own specifications: a defect of the machinery, not of the library
            raise core.ToolError("%s: %s fails with %s\n%s" % (module, st["spec_violation"], consts, st.get("counterexample", "")))
        ctx.classes["big_equivalence_states"] = ctx.classes.get("big_equivalence_states", 0) + st.get("distinct", 0)


@prop("C06")
def c06(ctx):
    big_equiv(ctx)
    py_traces(ctx, ["ans", "range"])
    py_diff(ctx)
    ans_traces(ctx, exact=True, abstract=False)
    range_traces(ctx, exact=True)
    range_steered(ctx, exact=True)
    ans_states(ctx, ["TypeInv", "StateInv"], "c06")
    carry_proofs(ctx)
    range_hists(ctx, ["TypeInv", "StateInv", "RefAgree", "CarryBridge"], "c06")
    rdec_cases(ctx, "c06")
    for c in RANGE_CLASSES:
        ctx.require(c)
    for c in ("enc_flush", "enc_noflush", "dec_refill", "dec_norefill", "binary_state"):
        ctx.require(c)


# (W, S, MaxSyms, PSet)
RANGE_QUICK = [(2, 4, 4, "{1,2}"), (2, 6, 3, "{1,2}"), (2, 6, 5, "{2}"), (3, 6, 2, "{1,2,3}"), (3, 6, 3, "{2}")]
RANGE_THOROUGH = [(2, 4, 5, "{1,2}"), (2, 6, 4, "{1,2}"), (2, 6, 5, "{2}"), (2, 8, 3, "{1,2}"), (3, 6, 3, "{2,3}"), (3, 9, 2, "{2,3}"), (4, 8, 2, "{2,4}")]


def range_hists(ctx, invs, mode, widths=None, spec_violation_is=None):
    """TLC: every message of <= MaxSyms symbols through Range.tla (encoder, reference coder and decoder), checking
    `invs` in every state and emitting one replay case per message; harness: replay in `mode` on the real coder."""
    widths = widths or (RANGE_THOROUGH if ctx.tier == "thorough" else RANGE_QUICK)
    for (w, s, ms, pset) in widths:
        cases = os.path.join(ctx.work, "range_%d_%d_%d.ndjson" % (w, s, ms))
        sl = (s // w + 1) if (ctx.tier == "thorough" and s <= 4) else (s // w) if ctx.tier == "thorough" else (s // w - 1)
        st = ctx.tlc("MC_Range", {"W": w, "S": s, "MaxSyms": ms, "PSet": pset, "SuffixLen": sl}, invariants=invs + ["Emit"],
                     emit_to=cases, label="MC_Range_%d_%d" % (w, s))
        if st["spec_violation"]:
            ctx.violation("specification invariant %s fails at W=%d S=%d:\n%s" % (st["spec_violation"], w, s, st.get("counterexample", "")),
                          {"k": "spec", "module": "MC_Range", "constants": st["constants"], "invariant": st["spec_violation"]})
        ctx.vh("replay", mode=mode, infile=cases)
        narrow_replay(ctx, w, mode, cases)


# (W, S, MaxData, MaxSyms, PSet)
RDEC_QUICK = [(2, 4, 4, 2, "{1,2}"), (2, 6, 4, 2, "{1,2}"), (3, 6, 3, 2, "{1,3}")]
RDEC_THOROUGH = [(2, 4, 5, 3, "{1,2}"), (2, 6, 5, 3, "{1,2}"), (3, 6, 3, 2, "{1,2,3}"), (2, 8, 5, 2, "{1,2}"), (4, 8, 2, 2, "{2,4}")]


def rdec_cases(ctx, mode):
    for (w, s, md, ms, pset) in (RDEC_THOROUGH if ctx.tier == "thorough" else RDEC_QUICK):
        cases = os.path.join(ctx.work, "rdec_%d_%d.ndjson" % (w, s))
        st = ctx.tlc("MC_RangeDec", {"W": w, "S": s, "MaxData": md, "MaxSyms": ms, "PSet": pset}, invariants=["TypeInv", "Total", "NoOverflow", "Emit"],
                     emit_to=cases, label="MC_RangeDec_%d_%d" % (w, s))
        if st["spec_violation"]:
            ctx.violation("specification invariant %s fails at W=%d S=%d:\n%s" % (st["spec_violation"], w, s, st.get("counterexample", "")), {"k": "spec", "module": "MC_RangeDec"})
            continue
        ctx.vh("replay", mode=mode, infile=cases)
        narrow_replay(ctx, w, mode, cases)


RANGE_CLASSES = ["no_renorm", "normal_normal", "normal_inverted", "inverted_inverted", "resolve_carry", "resolve_nocarry",
                 "seal_one_word", "seal_two_words", "seal_inverted_carry", "seal_inverted_nocarry", "seal_fresh"]


RANGE_DRIVE_QUICK = [(8, 16, "1,2,3,4,5,6,7,8"), (2, 4, "1,2"), (2, 6, "1,2"), (3, 6, "1,2,3"), (16, 32, "1,4,8,12,16"), (32, 64, "1,8,12,16,24,32"), (16, 64, "1,8,12,16"), (8, 32, "1,4,8"),
                     (8, 128, "1,4,8"), (64, 128, "1,16,32,40,48")]
RANGE_DRIVE_THOROUGH = RANGE_DRIVE_QUICK + [(2, 8, "1,2"), (3, 9, "1,2,3"), (4, 8, "1,2,3,4"), (4, 12, "1,2,3,4"), (32, 128, "1,16,24,32"), (64, 128, "1,16,24,32")]


def range_traces(ctx, exact):
    """impl -> spec: adversarial random messages (models chosen to provoke held-back words) on the real range coder at real
    and tiny widths with inspections, sealing, decoding and seeking; the driver compares decoded symbols, TLC validates every
    recorded event exactly against TraceRange.tla where the state fits TLC's integers (S <= 16)."""
    n = 30000 if ctx.tier == "thorough" else 5000
    jobs = []
    for (w, s, precs) in (RANGE_DRIVE_THOROUGH if ctx.tier == "thorough" else RANGE_DRIVE_QUICK):
        base = os.path.join(ctx.work, "rangetrace_%d_%d" % (w, s))
        ctx.vh("drive_range", extra=["--w", str(w), "--s", str(s), "--precs", precs, "--n", str(n), "--trace", base] + NARROW_DRIVE.get((w, s), []))
        if exact and s <= 16:
            jobs.append(dict(module="TraceRange", trace=base + ".exact.ndjson", constants={"W": w, "S": s}, invariants=["StateInv"], what="RangeEncoder/Decoder<%d,%d> exact" % (w, s)))
        if exact:
            jobs.append(big_job(ctx, "TraceBigRange", base, w, s, "RangeEncoder/Decoder<%d,%d> exact (limb arithmetic)" % (w, s), max_events=None if ctx.tier == "thorough" else 2500))
    ctx.validate_traces(jobs)
    for c in ("inverted", "inverted_2plus", "seek", "inspect"):
        ctx.require(c)


# (w, s, precision == w so that every steered symbol renormalises)
STEER_QUICK = [(8, 16, 8), (2, 4, 2), (3, 6, 3), (16, 32, 16), (32, 64, 32), (8, 32, 8), (8, 128, 8), (16, 64, 16)]
STEER_THOROUGH = STEER_QUICK + [(2, 6, 2), (4, 8, 4), (16, 128, 16), (8, 64, 8), (32, 128, 32)]


def range_steered(ctx, exact):
    """impl -> spec: steered scenarios on the real range coder: runs of 1..300 held-back words (entered and extended by choosing the
    symbol whose interval contains the wrap point), resolved by a later symbol with / without a carry or sealed directly, with
    and without temporary views in the middle; views taken while the range is minimal. The driver decodes every message and
    compares num_words with the view; TLC validates the u8/u16 and tiny-width traces exactly (TraceRange.tla)."""
    jobs = []
    for (w, s, p) in (STEER_THOROUGH if ctx.tier == "thorough" else STEER_QUICK):
        base = os.path.join(ctx.work, "steer_%d_%d" % (w, s))
        ctx.vh("drive_range_steered", extra=["--w", str(w), "--s", str(s), "--p", str(p), "--trace", base, "--long"])
        if exact and s <= 16:
            jobs.append(dict(module="TraceRange", trace=base + ".exact.ndjson", constants={"W": w, "S": s}, invariants=["StateInv"], what="steered RangeEncoder<%d,%d> exact" % (w, s)))
        if exact and s > 16:
            jobs.append(big_job(ctx, "TraceBigRange", base, w, s, "steered RangeEncoder<%d,%d> exact (limb arithmetic)" % (w, s), max_events=None if ctx.tier == "thorough" else 2500))
    ctx.validate_traces(jobs)
    for c in ("run_of_9_or_more", "run_of_65_or_more", "run_of_256_or_more", "peek_while_holding_back", "narrow_range", "seek_to_snapshot_with_256_held_back"):
        ctx.require(c)


@prop("C02")
def c02(ctx):
    range_proofs(ctx)
    py_traces(ctx, ["range"])
    py_diff(ctx)
    range_traces(ctx, exact=False)
    range_steered(ctx, exact=False)
    range_hists(ctx, ["TypeInv", "StateInv", "RoundTrip", "ExhaustedAfter", "EmptyMessage", "InSync"], "c02")
    for c in RANGE_CLASSES + ["iid_batch"]:
        ctx.require(c)


@prop("C11")
def c11(ctx):
    range_proofs(ctx)        # RangeSeal.tla: the sealing rule for all widths (normal situation), tied to SealWords by MC_RangeBridge
    range_hists(ctx, ["TypeInv", "StateInv", "SuffixOK", "SealInvBridge"], "c11")
    for c in RANGE_CLASSES:
        ctx.require(c)


@prop("C07")
def c07(ctx):
    py_traces(ctx, ["ans", "range"])          # pos()/seek() through the Python API, validated exactly
    range_traces(ctx, exact=False)
    range_steered(ctx, exact=False)
    ans_states(ctx, ["TypeInv", "StateInv", "LawAppendOnly", "LawPopAfterPush"], "c01", widths=[(2, 4, 3, 2), (3, 6, 3, 1)])
    range_hists(ctx, ["TypeInv", "StateInv", "InSync"], "c07")
    for c in ["seek_final", "seek_snapshot_inverted", "ans_seek"]:
        ctx.require(c)


@prop("C09")
def c09(ctx):
    py_traces(ctx, ["ans", "range"])          # impossible symbols through the Python API: refused, coder unchanged
    ctx.require("py_enc_refused")
    ctx.require("py_enc_array_with_impossible_symbol")
    ans_states(ctx, ["TypeInv", "StateInv", "LawPopAfterPush"], "c09")
    ctx.require("backend_full")
    range_hists(ctx, ["TypeInv", "StateInv"], "c09")
    chain_cases(ctx, "c09", ["StateInv", "StepInverse"])
    symbol_cases(ctx, "huffman", 4, 3, "c15")      # out-of-alphabet symbols of Huffman codebooks
    model_cases(ctx, "uniform", "c09", uniform_cfgs(ctx))
    model_cases(ctx, "uniformbig", "c09", UNIFORMBIG)
    model_cases(ctx, "leaky", "c09", leaky_cfgs(ctx))


@prop("C04")
def c04(ctx):
    ans_proofs(ctx)
    ans_traces(ctx, exact=False, abstract=True)
    ans_states(ctx, ["TypeInv", "StateInv", "LawPushAfterPop", "LawBinary", "LawDecodeTotal"], "c04")
    for c in ("binary_state", "binary_trailing_zero"):
        ctx.require(c)


def c08_ans(ctx):
    ans_states(ctx, ["TypeInv", "StateInv", "LawImportExport"], "c08")
    for c in ("get_binary_ok", "get_binary_err"):
        ctx.require(c)


def c10_ans(ctx):
    ans_states(ctx, ["TypeInv", "LawDecodeTotal"], "c10")


def c12_ans(ctx):
    ans_states(ctx, ["TypeInv", "StateInv", "LawStepBound"], "c12")


def c18_ans(ctx):
    ans_states(ctx, ["TypeInv", "StateInv", "LawSizes", "LawBinary"], "c18")


@prop("C08")
def c08(ctx):
    py_traces(ctx, ["symbol", "range", "ans"])       # exports through the Python API go through the guards (seal, show, unseal)
    range_steered(ctx, exact=False)
    c08_ans(ctx)
    range_hists(ctx, ["TypeInv", "StateInv"], "c08")
    ctx.require("inspect_while_inverted")
    bit_coders(ctx, "c08")


@prop("C10")
def c10(ctx):
    py_traces(ctx, ["chain", "range"])        # documented errors only (out of data, invalid data), never a panic, through the Python API
    c10_ans(ctx)
    chain_cases(ctx, "c10", ["StateInv"])
    ctx.require("ran_out_of_data")
    ctx.require("c10_after_precision_change")
    rdec_cases(ctx, "c10")
    ctx.require("invalid_data")
    ctx.require("iid_iterator_with_errors")
    model_cases(ctx, "leaky", "c10", leaky_cfgs(ctx))
    model_cases(ctx, "leakybig", "c10", leakybig_cfgs(ctx))


@prop("C12")
def c12(ctx):
    # the telescoped bound at the real presets (driver: random models incl. probabilities of 1 and 2^P-1 quanta)
    ctx.vh("drive_bound", extra=["--n", "20000" if ctx.tier == "thorough" else "3000"])
    ctx.require("default_preset_overhead_below_0.006")
    ctx.require("bound_adversarial_message")
    c12_ans(ctx)
    range_hists(ctx, ["TypeInv", "StateInv", "WordsBound", "StepBound"], "c12")
    ctx.require("bits_bound_evaluated")


@prop("C18")
def c18(ctx):
    c18_ans(ctx)
    range_hists(ctx, ["TypeInv", "StateInv", "SizesOK", "ExhaustedAfter"], "c18")
    for c in ["sizes_while_inverted", "not_exhausted_checked"]:
        ctx.require(c)
    bit_coders(ctx, "c18")
    # model diagnostics on dyadic models (exact rationals computed by FixedPoint.tla)
    diag = [(8, 3, 5, 0), (8, 5, 4, 0), (8, 8, 3, 0), (16, 4, 5, 0)] + ([(16, 12, 4, 0), (16, 16, 3, 0), (8, 5, 6, 0)] if ctx.tier == "thorough" else [(16, 16, 2, 0)])
    for (b, p, maxlen, maxval) in diag:
        cases = os.path.join(ctx.work, "diag_%d_%d.ndjson" % (b, p))
        st = ctx.tlc("MC_Models", {"Kind": '"diag"', "B": b, "P": p, "MaxLen": maxlen, "MaxVal": maxval},
                     invariants=["PredictedTablesValid", "DiagLaws", "Emit"], emit_to=cases, label="MC_Models_diag_%d_%d" % (b, p))
        if st["spec_violation"]:
            ctx.violation("specification: %s fails for dyadic diagnostics B=%d P=%d" % (st["spec_violation"], b, p), {"k": "spec", "module": "MC_Models"})
            continue
        ctx.vh("replay", mode="c18", infile=cases)
    for c in ("diag_model", "diag_full_precision"):
        ctx.require(c)


# ---------------------------------------------------------------------------------------------- models
# (B, P, MaxLen) for the fixed-point constructor enumeration
FIXED_QUICK = [(2, 1, 4), (2, 2, 4), (3, 2, 4), (3, 3, 3), (4, 3, 3), (4, 4, 2)]
FIXED_THOROUGH = [(2, 1, 5), (2, 2, 6), (3, 2, 4), (3, 3, 4), (4, 2, 3), (4, 3, 4), (4, 4, 4), (5, 4, 3), (5, 5, 3)]


def model_cases(ctx, kind, mode, configs):
    for (b, p, maxlen, maxval) in configs:
        cases = os.path.join(ctx.work, "%s_%d_%d.ndjson" % (kind, b, p))
        st = ctx.tlc("MC_Models", {"Kind": '"%s"' % kind, "B": b, "P": p, "MaxLen": maxlen, "MaxVal": maxval},
                     invariants=["PredictedTablesValid", "ProofBridge", "Emit"], emit_to=cases, label="MC_Models_%s_%d_%d" % (kind, b, p))
        if st["spec_violation"]:
            ctx.violation("specification: a predicted table violates the contract (%s) for %s B=%d P=%d:\n%s" % (st["spec_violation"], kind, b, p, st.get("counterexample", "")),
                          {"k": "spec", "module": "MC_Models", "constants": st["constants"]})
            continue
        ctx.vh("replay", mode=mode, infile=cases)


def fixed_cfgs(ctx):
    return [(b, p, l, 0) for (b, p, l) in (FIXED_THOROUGH if ctx.tier == "thorough" else FIXED_QUICK)]


# (B, P) for UniformModel (all n); (B, P, MaxLen, MaxTotal) for the `fast` float constructors
UNIFORM_QUICK = [(2, 1), (2, 2), (3, 2), (3, 3), (4, 3), (4, 4), (8, 5)]
UNIFORM_THOROUGH = UNIFORM_QUICK + [(5, 4), (5, 5), (8, 8)]
FAST_QUICK = [(3, 3, 4, 8), (4, 3, 4, 8), (4, 4, 4, 8), (8, 5, 4, 16)]
FAST_THOROUGH = FAST_QUICK + [(2, 2, 3, 8), (3, 2, 3, 8), (5, 5, 4, 16), (8, 8, 4, 16), (16, 12, 3, 16)]


# (B, P, MaxLen = n-1, MaxVal = 2^m) for step-CDF leaky quantisation
LEAKY_QUICK = [(3, 3, 3, 4), (4, 3, 3, 4), (4, 4, 4, 4), (8, 5, 4, 4)]
LEAKY_THOROUGH = LEAKY_QUICK + [(2, 2, 2, 4), (3, 2, 2, 4), (5, 5, 5, 8), (8, 8, 5, 8), (16, 12, 4, 8)]


# large supports (B, P, N = support size, 2^m): the quantile search has to cross the whole symbol type
LEAKYBIG_QUICK = [(16, 12, 256, 4), (16, 12, 200, 4), (8, 8, 256, 4)]
LEAKYBIG_THOROUGH = LEAKYBIG_QUICK + [(16, 12, 300, 4), (16, 16, 256, 4), (16, 12, 129, 4), (8, 8, 130, 4)]


def leakybig_cfgs(ctx):
    return LEAKYBIG_THOROUGH if ctx.tier == "thorough" else LEAKYBIG_QUICK


def leaky_cfgs(ctx):
    return LEAKY_THOROUGH if ctx.tier == "thorough" else LEAKY_QUICK


# float weight classes (B, P, MaxLen, 0)
FLOATCLASS_QUICK = [(4, 4, 3, 0), (8, 5, 3, 0), (8, 8, 2, 0)]
FLOATCLASS_THOROUGH = [(4, 4, 4, 0), (8, 5, 4, 0), (8, 8, 3, 0), (16, 12, 3, 0), (3, 3, 3, 0)]


def floatclass_cfgs(ctx):
    return FLOATCLASS_THOROUGH if ctx.tier == "thorough" else FLOATCLASS_QUICK


UNIFORMBIG = [(32, 24, 0, 0), (16, 12, 0, 0), (16, 16, 0, 0), (8, 8, 0, 0)]


def uniform_cfgs(ctx):
    return [(b, p, 0, 0) for (b, p) in (UNIFORM_THOROUGH if ctx.tier == "thorough" else UNIFORM_QUICK)]


def fast_cfgs(ctx):
    return FAST_THOROUGH if ctx.tier == "thorough" else FAST_QUICK


@prop("C19")
def c19(ctx):
    model_cases(ctx, "fixed", "c19", fixed_cfgs(ctx))
    model_cases(ctx, "uniform", "c19", uniform_cfgs(ctx))
    model_cases(ctx, "fast", "c19", fast_cfgs(ctx))
    model_cases(ctx, "leaky", "c19", leaky_cfgs(ctx))
    model_cases(ctx, "floatclass", "c19", floatclass_cfgs(ctx))
    for c in ("float_must_reject", "float_valid_input"):
        ctx.require(c)
    for c in ("fixed_accept", "fixed_reject", "fixed_accept_full_precision", "fixed_reject_full_precision"):
        ctx.require(c)


def model_traces(ctx):
    """impl -> spec: models built from arbitrary floats (random float tables with zeros, denormals, tiny tails and huge dynamic
    range in f32/f64; Gaussian, Cauchy, Laplace, Exponential, Binomial with parameters over 600 orders of magnitude) are recorded
    (symbol table, encoder view of every symbol, decoder view at boundary quantiles, sibling representations) and TLC checks
    every record against the contract of FixedPoint.tla (TraceModels.tla)."""
    n = 600 if ctx.tier == "thorough" else 80
    trace = os.path.join(ctx.work, "models.ndjson")
    ctx.vh("drive_models", extra=["--n", str(n), "--trace", trace])
    ctx.validate_trace("TraceModels", trace, invariants=["AllOK"], what="model records")
    for c in ("tiny_tail", "denormals", "zeros", "dynamic_range", "Gaussian", "Cauchy", "Binomial", "Gaussian_i8_full_range"):
        ctx.require(c)


@prop("C03")
def c03(ctx):
    model_proofs(ctx)
    model_traces(ctx)
    model_cases(ctx, "fixed", "c03", fixed_cfgs(ctx))
    model_cases(ctx, "uniform", "c03", uniform_cfgs(ctx))
    model_cases(ctx, "uniformbig", "c03", UNIFORMBIG)
    ctx.require("uniform_big")
    model_cases(ctx, "fast", "c03", fast_cfgs(ctx))
    model_cases(ctx, "leaky", "c03", leaky_cfgs(ctx))
    model_cases(ctx, "leakybig", "c03", leakybig_cfgs(ctx))
    model_cases(ctx, "floatclass", "c03", floatclass_cfgs(ctx))
    ctx.require("leaky_big_support")
    ctx.require("converted_models_contract")


@prop("C05")
def c05(ctx):
    py_diff(ctx)          # concrete vs. family call forms, lazy vs. eager, f32 vs. f64 tables through both front ends: same words
    model_traces(ctx)
    model_cases(ctx, "fixed", "c05", fixed_cfgs(ctx))
    model_cases(ctx, "uniform", "c05", uniform_cfgs(ctx))
    model_cases(ctx, "fast", "c05", fast_cfgs(ctx))
    model_cases(ctx, "leaky", "c05", leaky_cfgs(ctx))


# (W, MaxBits) for the bit-level coders
BITS_QUICK = [(2, 7), (3, 8), (8, 10)]
BITS_THOROUGH = [(2, 11), (3, 12), (4, 12), (8, 12)]
BITS_LAWS = ["TypeInv", "L1", "L2", "L3", "L4", "L5", "L6", "L7"]


def bit_coders(ctx, mode):
    for (w, mb) in (BITS_THOROUGH if ctx.tier == "thorough" else BITS_QUICK):
        cases = os.path.join(ctx.work, "bits_%d.ndjson" % w)
        st = ctx.tlc("MC_BitCoder", {"W": w, "MaxBits": mb}, invariants=BITS_LAWS + ["Emit"], view="View", emit_to=cases, label="MC_BitCoder_%d" % w)
        if st["spec_violation"]:
            ctx.violation("specification law %s fails at W=%d:\n%s" % (st["spec_violation"], w, st.get("counterexample", "")), {"k": "spec", "module": "MC_BitCoder"})
            continue
        ctx.vh("replay", mode=mode, infile=cases)
    for c in ("word_exactly_full", "guard_in_history"):
        ctx.require(c)


# (W, S, MaxData, MaxSyms, PSet, Binary)
CHAIN_QUICK = [(3, 6, 3, 3, "{1}", "TRUE"), (2, 4, 3, 2, "{1,2}", "TRUE"), (2, 6, 4, 2, "{1,2}", "TRUE"), (2, 6, 4, 3, "{2}", "FALSE"), (3, 6, 3, 2, "{2,3}", "FALSE"), (2, 8, 4, 2, "{1,2}", "FALSE")]
CHAIN_THOROUGH = [(2, 4, 4, 3, "{1,2}", "TRUE"), (2, 4, 4, 3, "{1,2}", "FALSE"), (2, 6, 5, 3, "{1,2}", "TRUE"), (2, 6, 4, 3, "{1,2}", "FALSE"),
                  (3, 6, 3, 2, "{1,2,3}", "TRUE"), (3, 9, 4, 2, "{2,3}", "FALSE"), (2, 8, 5, 3, "{1,2}", "TRUE"), (4, 8, 2, 2, "{2,4}", "FALSE")]
CHAIN_LAWS = ["StateInv", "RestoreSame", "RestoreSuffix", "RestoreConcat", "StepInverse", "ProofBridge"]


def chain_cases(ctx, mode, laws=None):
    for (w, s, md, ms, pset, binary) in (CHAIN_THOROUGH if ctx.tier == "thorough" else CHAIN_QUICK):
        cases = os.path.join(ctx.work, "chain_%d_%d_%s.ndjson" % (w, s, binary))
        st = ctx.tlc("MC_Chain", {"W": w, "S": s, "MaxData": md, "MaxSyms": ms, "PSet": pset, "Binary": binary}, invariants=(laws or CHAIN_LAWS) + ["Emit"],
                     emit_to=cases, label="MC_Chain_%d_%d" % (w, s))
        if st["spec_violation"]:
            ctx.violation("specification law %s fails at W=%d S=%d:\n%s" % (st["spec_violation"], w, s, st.get("counterexample", "")), {"k": "spec", "module": "MC_Chain"})
            continue
        ctx.vh("replay", mode=mode, infile=cases)
        narrow_replay(ctx, w, mode, cases)


CHAIN_DRIVE_QUICK = [(8, 16, "1,4,8"), (2, 6, "1,2"), (3, 6, "1,2,3"), (16, 32, "8,12,16"), (32, 64, "16,24,32"), (16, 64, "12,16"), (8, 32, "4,8"),
                     (32, 128, "16,24,32"), (8, 128, "4,8"), (64, 128, "24,32,48"), (16, 128, "8,16")]
CHAIN_DRIVE_THOROUGH = CHAIN_DRIVE_QUICK + [(2, 4, "1,2"), (2, 8, "1,2"), (4, 8, "1,2,3,4"), (3, 9, "1,2,3"), (8, 64, "4,8")]


def chain_traces(ctx):
    """impl -> spec: random data and decode histories with precision changes on the real ChainCoder at real and tiny widths;
    the driver checks the three restore modes, TLC validates every recorded event exactly (TraceChain.tla) where S <= 16."""
    n = 3000 if ctx.tier == "thorough" else 400
    jobs = []
    for (w, s, precs) in (CHAIN_DRIVE_THOROUGH if ctx.tier == "thorough" else CHAIN_DRIVE_QUICK):
        base = os.path.join(ctx.work, "chaintrace_%d_%d" % (w, s))
        ctx.vh("drive_chain", extra=["--w", str(w), "--s", str(s), "--precs", precs, "--n", str(n), "--trace", base] + NARROW_DRIVE.get((w, s), []))
        if s <= 16:
            jobs.append(dict(module="TraceChain", trace=base + ".exact.ndjson", constants={"W": w, "S": s}, what="ChainCoder<%d,%d> exact" % (w, s)))
        if s <= 64 or ctx.tier == "thorough":
            jobs.append(big_job(ctx, "TraceBigChain", base, w, s, "ChainCoder<%d,%d> exact (limb arithmetic)" % (w, s), max_events=None if ctx.tier == "thorough" else 2500))
    # the limb specification is tied to Chain.tla by an exhaustive equivalence check at small widths
    for consts in ([{"W": 2, "S": 6, "LB": 1, "MaxStack": 1, "MaxData": 4}, {"W": 2, "S": 4, "LB": 1, "MaxStack": 2, "MaxData": 4}]
                   + ([{"W": 3, "S": 6, "LB": 2, "MaxStack": 1, "MaxData": 3}] if ctx.tier == "thorough" else [])):
        st = ctx.tlc("MC_BigChainEquiv", consts, invariants=["Queries", "Steps", "Changes", "Ctors"], workers=12, timeout=3000, label="MC_BigChainEquiv")
        if st["spec_violation"]:
            raise core.ToolError("MC_BigChainEquiv: %s fails with %s\n%s" % (st["spec_violation"], consts, st.get("counterexample", "")))
    ctx.validate_traces(jobs)
    ctx.require("big_trace_events_real_presets", 1000)
    for c in ("restore_same", "restore_suffix", "restore_concat"):
        ctx.require(c)


def chain_proofs(ctx):
    """TLAPS checks spec/proofs/ChainStep.tla (RemaindersStep: on the remainders side of the chain coder decode and encode are mutual
    inverses for ALL widths, the refill happening exactly when the flush happened, head invariant kept); MC_Chain's invariant
    ProofBridge (checked by TLC in every reachable state, see chain_cases) ties Chain.tla to the theorem."""
    import shutil, subprocess, re
    wd = os.path.join(ctx.work, "proofs_chain")
    shutil.copytree(os.path.join(core.SPEC, "proofs"), wd, ignore=shutil.ignore_patterns(".tlacache"))
    # ChainStep: the step over numbers; ChainMessage: the step over whole remainders configurations (head + bulk) and the inductive
    # invariant of the machine that decodes an unbounded message (encoding back in reverse order restores every configuration)
    for mod in ["ChainStep.tla", "ChainMessage.tla"]:
        p = _tlapm(wd, mod)
        m = re.search(r"All (\d+) obligations proved", p.stdout)
        if not m:
            raise core.ToolError("TLAPS did not prove spec/proofs/%s:\n" % mod + p.stdout[-1500:])
        ctx.classes["tlaps_obligations_proved"] = ctx.classes.get("tlaps_obligations_proved", 0) + int(m.group(1))
        ctx.classes["tlaps_" + mod[:-4]] = int(m.group(1))
    ctx.assumptions.append("TLAPS 1.6 (SMT back end Z3) checks proofs correctly")
    ctx.require("tlaps_obligations_proved", 580)
    ctx.require("tlaps_ChainMessage", 330)
    ctx.require("tlaps_ChainStep", 250)


@prop("C13")
def c13(ctx):
    chain_proofs(ctx)
    py_traces(ctx, ["chain"])
    chain_traces(ctx)
    chain_cases(ctx, "c13")
    for c in ("precision_change", "out_of_data", "out_of_remainders"):
        ctx.require(c)


@prop("C14")
def c14(ctx):
    chain_cases(ctx, "c14", ["StateInv", "StepInverse"])


def symbol_cases(ctx, kind, maxlen, maxw, mode):
    cases = os.path.join(ctx.work, "%s_%d_%d.ndjson" % (kind, maxlen, maxw))
    st = ctx.tlc("MC_Symbol", {"Kind": '"%s"' % kind, "MaxLen": maxlen, "MaxW": maxw}, invariants=["HuffmanLaws", "HuffmanF32Laws", "GolombLaws", "GolombPrefixFree", "Emit"],
                 emit_to=cases, label="MC_Symbol_%s" % kind)
    if st["spec_violation"]:
        ctx.violation("specification law %s fails for %s:\n%s" % (st["spec_violation"], kind, st.get("counterexample", "")), {"k": "spec", "module": "MC_Symbol"})
        return
    ctx.vh("replay", mode=mode, infile=cases)


def bits_traces(ctx):
    """impl -> spec: long random histories on StackCoder<u8|u16|u32|u64|U3> with guards, re-imports and Exp-Golomb / Huffman
    symbols interleaved; every bit-level event is validated by AbsBits.tla."""
    n = 20000 if ctx.tier == "thorough" else 3000
    base = os.path.join(ctx.work, "bitstrace")
    ctx.vh("drive_bits", extra=["--n", str(n), "--trace", base])
    for name in ("u8", "u16", "u32", "u64", "U3"):
        ctx.validate_trace("AbsBits", "%s.%s.ndjson" % (base, name), what="StackCoder<%s> abstract" % name)
    for c in ("guard", "reimport", "exp_golomb", "huffman", "len_at_word_boundary"):
        ctx.require(c)


@prop("C16")
def c16(ctx):
    py_traces(ctx, ["symbol"])
    bits_traces(ctx)
    bit_coders(ctx, "c16")
    symbol_cases(ctx, "expgolomb", 8, 255, "c16")
    symbol_cases(ctx, "expgolomb", 16, 70000 if ctx.tier == "thorough" else 3000, "c16")
    for c in ("expgolomb", "expgolomb_max"):
        ctx.require(c)


@prop("C15")
def c15(ctx):
    py_traces(ctx, ["symbol"])
    if ctx.tier == "thorough":
        symbol_cases(ctx, "huffman", 6, 4, "c15")
    else:
        symbol_cases(ctx, "huffman", 5, 4, "c15")
    for c in ("zero_weight", "tie", "single_symbol"):
        ctx.require(c)
    # float constructors on integer-valued f32 weights whose sums f32 addition rounds (spec: round-to-nearest-even at 24 bits)
    symbol_cases(ctx, "huffman_f32", 5 if ctx.tier == "thorough" else 4, 0, "c15")
    ctx.require("f32_rounding_changes_the_code")
    # impl -> spec: large alphabets (weights beyond TLC's integers, code words longer than 64 bits)
    trace = os.path.join(ctx.work, "huffman.ndjson")
    ctx.vh("drive_huffman", extra=["--trace", trace])
    ctx.validate_trace("TraceHuffman", trace, invariants=["AllOK"], what="Huffman codebooks of large alphabets")
    ctx.require("codeword_longer_than_64_bits")


@prop("C17")
def c17(ctx):
    maxlen = 4 if ctx.tier == "thorough" else 3
    cases = os.path.join(ctx.work, "backend.ndjson")
    st = ctx.tlc("MC_Backend", {"MaxLen": maxlen}, invariants=["TypeInv", "LawRemaining", "LawSpace", "LawWriteRead", "LawSeek", "LawExtend", "LawReverse", "LawIterSticky", "Emit"], emit_to=cases)
    if st["spec_violation"]:
        ctx.violation("specification law %s fails:\n%s" % (st["spec_violation"], st.get("counterexample", "")), {"k": "spec", "module": "MC_Backend"})
        return
    ctx.vh("replay", mode="c17", infile=cases)
    for c in ("vec", "cursor", "rev", "adapters"):
        ctx.require(c)


@prop("C20", level="exploration", rule="programs are the safe-API call sequences produced by the model-based explorers of C01-C19 (TLC-enumerated cases replayed on the real code, plus seeded random drivers), executed with overflow checks, debug assertions and the standard library's unsafe-precondition checks (tiny-width integer types additionally turn new_unchecked(0) and width overflow into panics); a case counts as non-trivial and distinct per (case kind, outcome class) pair; a violation is a process abort, an unsafe-precondition or overflow panic, or a call that does not return")
def c20(ctx):
    ctx.ub_only = True
    ans_states(ctx, ["TypeInv"], "c10", widths=[(2, 4, 3, 2), (2, 6, 4, 1), (3, 6, 3, 1)])
    ans_states(ctx, ["TypeInv"], "c04", widths=[(2, 4, 3, 2)])
    range_hists(ctx, ["TypeInv"], "c02", widths=[(2, 4, 4, "{1,2}"), (2, 6, 4, "{2}"), (3, 6, 2, "{1,2,3}")])
    rdec_cases(ctx, "c10")
    chain_cases(ctx, "c10", ["StateInv"])
    chain_cases(ctx, "c13", ["StateInv"])
    model_cases(ctx, "fixed", "c20", fixed_cfgs(ctx))
    model_cases(ctx, "uniform", "c20", uniform_cfgs(ctx))
    model_cases(ctx, "fast", "c20", fast_cfgs(ctx))
    model_cases(ctx, "leaky", "c20", leaky_cfgs(ctx))
    model_cases(ctx, "leakybig", "c20", leakybig_cfgs(ctx))
    model_cases(ctx, "floatclass", "c20", floatclass_cfgs(ctx))
    cases = os.path.join(ctx.work, "backend.ndjson")
    ctx.tlc("MC_Backend", {"MaxLen": 3}, invariants=["TypeInv", "Emit"], emit_to=cases)
    ctx.vh("replay", mode="c20", infile=cases)
    bit_coders(ctx, "c16")
    symbol_cases(ctx, "huffman", 4, 3, "c15")
    symbol_cases(ctx, "expgolomb", 8, 255, "c16")
    ans_traces(ctx, exact=False, abstract=False)
    range_traces(ctx, exact=False)
    trace = os.path.join(ctx.work, "models.ndjson")
    ctx.vh("drive_models", extra=["--n", "60", "--trace", trace])
    ctx.required = {"buf_mut_shrink": 1}
    if ctx.tier == "thorough":
        # the same case families under AddressSanitizer, built WITHOUT debug assertions so that unchecked accesses really happen
        asan = core.build_asan()
        ctx.notes.append("AddressSanitizer pass: nightly toolchain, profile asan (no debug assertions, no overflow checks)")
        for kind, cfgs in (("fixed", fixed_cfgs(ctx)[:4]), ("fast", fast_cfgs(ctx)[:3]), ("floatclass", floatclass_cfgs(ctx)[:2]), ("uniform", uniform_cfgs(ctx)[:4]), ("leaky", leaky_cfgs(ctx)[:2])):
            for (b, p_, maxlen, maxval) in cfgs:
                cases = os.path.join(ctx.work, "asan_%s_%d_%d.ndjson" % (kind, b, p_))
                ctx.tlc("MC_Models", {"Kind": '"%s"' % kind, "B": b, "P": p_, "MaxLen": maxlen, "MaxVal": maxval}, invariants=["Emit"], emit_to=cases, label="MC_Models_asan")
                ctx.vh("replay", mode="c20", infile=cases, binary=asan)
        cases = os.path.join(ctx.work, "backend.ndjson")
        ctx.vh("replay", mode="c20", infile=cases, binary=asan)
        for (w, s, md, ms, pset) in RDEC_QUICK:
            cases = os.path.join(ctx.work, "asan_rdec_%d_%d.ndjson" % (w, s))
            ctx.tlc("MC_RangeDec", {"W": w, "S": s, "MaxData": md, "MaxSyms": ms, "PSet": pset}, invariants=["Emit"], emit_to=cases)
            ctx.vh("replay", mode="c10", infile=cases, binary=asan)
        ctx.vh("drive_models", extra=["--n", "100", "--trace", os.path.join(ctx.work, "asan_models.ndjson")], binary=asan)
        ctx.vh("drive_huffman", extra=["--trace", os.path.join(ctx.work, "asan_huffman.ndjson")], binary=asan)
        for (w, s, precs) in RANGE_DRIVE_QUICK[:6]:
            ctx.vh("drive_range", extra=["--w", str(w), "--s", str(s), "--precs", precs, "--n", "3000", "--trace", os.path.join(ctx.work, "asan_r")], binary=asan)
            ctx.vh("drive_ans", extra=["--w", str(w), "--s", str(s) if s != 6 else "6", "--precs", precs, "--n", "3000", "--trace", os.path.join(ctx.work, "asan_a")], binary=asan)
        ctx.classes["asan_pass"] = 1


def selftest():
    """Demonstrates the binding: the tiny integer types mirror the primitives; corrupted or truncated recorded traces are
    rejected by the trace specifications; a corrupted expectation in a replay case is reported by the harness."""
    import json, random
    ctx = core.Ctx("selftest", "quick", 0)
    failures = []
    rep = ctx.vh("selftest_tiny")
    if ctx.violations:
        failures.append("tiny integer types disagree with the primitives: %s" % ctx.violations[0]["detail"])
    print("selftest: tiny types vs u8/u16: %d comparisons" % rep["checks"])
    base = os.path.join(ctx.work, "st")
    ctx.vh("drive_ans", extra=["--w", "8", "--s", "16", "--precs", "1,2,3,4,5,6,7,8", "--n", "1500", "--trace", base])
    def validate(module, trace, consts, invs):
        c2 = core.Ctx("selftest_inner", "quick", 0)
        ok = c2.validate_trace(module, trace, consts, invariants=invs, what="selftest")
        shutil_rm(c2.work)
        return ok
    import shutil
    def shutil_rm(p):
        shutil.rmtree(p, ignore_errors=True)
    exact = [json.loads(l) for l in open(base + ".exact.ndjson")]
    if not validate("TraceAns", base + ".exact.ndjson", {"W": 8, "S": 16}, ["StateInv"]):
        failures.append("unmodified exact trace rejected")
    # (a) corrupt one field of one event
    idx = [i for i, e in enumerate(exact) if e["ev"] == "enc" and i > 50][10]
    bad = [dict(e) for e in exact]; bad[idx]["state"] = bad[idx]["state"] ^ 1
    open(base + ".bad1.ndjson", "w").write("\n".join(json.dumps(e) for e in bad) + "\n")
    if validate("TraceAns", base + ".bad1.ndjson", {"W": 8, "S": 16}, ["StateInv"]):
        failures.append("exact trace with one corrupted state field was ACCEPTED")
    # (b) drop one event
    bad = exact[:idx] + exact[idx + 1:]
    open(base + ".bad2.ndjson", "w").write("\n".join(json.dumps(e) for e in bad) + "\n")
    if validate("TraceAns", base + ".bad2.ndjson", {"W": 8, "S": 16}, ["StateInv"]):
        failures.append("exact trace with one dropped event was ACCEPTED")
    # (c) abstract trace: change the words of a confirming export / the symbol of a pop
    ab = [json.loads(l) for l in open(base + ".abs.ndjson")]
    if not validate("AbsAns", base + ".abs.ndjson", {}, ["Report"]):
        failures.append("unmodified abstract trace rejected")
    seen = {}; key = [0, [], []]; target = None
    for i, e in enumerate(ab):
        if e["ev"] == "base": key = [e["id"], [], []]
        elif e["ev"] == "enc":
            if not key[2] and key[1] and key[1][-1] == [e["model"], e["sym"]]: key[1] = key[1][:-1]
            else: key[2] = key[2] + [[e["model"], e["sym"]]]
        elif e["ev"] == "dec":
            if key[2]: key[2] = key[2][:-1]
            else: key[1] = key[1] + [[e["model"], e["sym"]]]
        elif e["ev"] == "export":
            k = json.dumps([key, e["how"]])
            if k in seen and e["words"]: target = i
            seen[k] = True
    if target is None:
        failures.append("no confirming export in the abstract trace (vacuous)")
    else:
        bad = [dict(e) for e in ab]; bad[target]["words"] = ["dead"] + bad[target]["words"][1:]
        open(base + ".bad3.ndjson", "w").write("\n".join(json.dumps(e) for e in bad) + "\n")
        if validate("AbsAns", base + ".bad3.ndjson", {}, ["Report"]):
            failures.append("abstract trace with a corrupted re-visited export was ACCEPTED")
    pops = [i for i, e in enumerate(ab) if e["ev"] == "dec"]
    bad = [dict(e) for e in ab]; j = pops[len(pops) // 2]; bad[j]["sym"] = bad[j]["sym"] + 1
    open(base + ".bad4.ndjson", "w").write("\n".join(json.dumps(e) for e in bad) + "\n")
    if validate("AbsAns", base + ".bad4.ndjson", {}, ["Report"]):
        failures.append("abstract trace with a corrupted popped symbol was ACCEPTED")
    # (e) limb-arithmetic validation at the default preset u32/u64: the unmodified trace is accepted, one flipped bit in a
    #     64-bit state or in a 24-bit cumulative, or one dropped event, is rejected
    ctx.vh("drive_ans", extra=["--w", "32", "--s", "64", "--precs", "1,8,12,16,24,32", "--n", "700", "--trace", base + "32"])
    core.limbify(base + "32.exact.ndjson", base + "32.big.ndjson", 12)
    big = [json.loads(l) for l in open(base + "32.big.ndjson")]
    consts = {"W": 32, "S": 64, "LB": 12}
    if not validate("TraceBigAns", base + "32.big.ndjson", consts, ["StateInv"]):
        failures.append("unmodified u32/u64 limb trace rejected")
    encs = [i for i, e in enumerate(big) if e["ev"] == "enc" and len(e["state"]) >= 5 and e["c"]]
    j = encs[len(encs) // 2]
    for what, mut in (("state", lambda e: e["state"].__setitem__(4, e["state"][4] ^ 1)), ("cumulative", lambda e: e["c"].__setitem__(0, e["c"][0] ^ 1))):
        bad = json.loads(json.dumps(big)); mut(bad[j])
        open(base + "32.bad.ndjson", "w").write("\n".join(json.dumps(e) for e in bad) + "\n")
        if validate("TraceBigAns", base + "32.bad.ndjson", consts, ["StateInv"]):
            failures.append("u32/u64 limb trace with one flipped bit in a %s was ACCEPTED" % what)
    bad = big[:j] + big[j + 1:]
    open(base + "32.bad.ndjson", "w").write("\n".join(json.dumps(e) for e in bad) + "\n")
    if validate("TraceBigAns", base + "32.bad.ndjson", consts, ["StateInv"]):
        failures.append("u32/u64 limb trace with one dropped event was ACCEPTED")
    # (f) Python front end: the recorded trace is accepted; one changed symbol / one flipped bit of a returned word is rejected
    pytrace = ctx.pydrive("ans", 400)
    pconsts = {"W": 32, "S": 64, "LB": 12}
    if not pytrace or not validate("TracePyAns", pytrace, pconsts, ["StateInv"]):
        failures.append("unmodified Python trace rejected")
    else:
        pev = [json.loads(l) for l in open(pytrace)]
        decs = [i for i, e in enumerate(pev) if e["ev"] == "dec" and e["items"]]
        encs = [i for i, e in enumerate(pev) if e["ev"] == "enc" and e["words"] and e["words"][0]]
        for what, idx, mut in (("decoded symbol", decs[len(decs) // 2], lambda e: e["items"][0].__setitem__(1, e["items"][0][1] + 1)),
                               ("returned word", encs[len(encs) // 2], lambda e: e["words"][0].__setitem__(0, e["words"][0][0] ^ 1))):
            bad = json.loads(json.dumps(pev)); mut(bad[idx])
            open(base + "py.bad.ndjson", "w").write("\n".join(json.dumps(e) for e in bad) + "\n")
            if validate("TracePyAns", base + "py.bad.ndjson", pconsts, ["StateInv"]):
                failures.append("Python trace with one corrupted %s was ACCEPTED" % what)
    # (d) corrupted expectation in a replay case
    cases = os.path.join(ctx.work, "st_cases.ndjson")
    ctx.tlc("MC_Ans", {"W": 2, "S": 4, "MaxInit": 2, "MaxBulk": 1}, invariants=["TypeInv", "Emit"], constraint="Bound", emit_to=cases)
    lines = [json.loads(l) for l in open(cases)]
    k = next(i for i, c in enumerate(lines) if c["enc"])
    lines[k]["enc"][0][3] = (lines[k]["enc"][0][3] + 1) % 16
    open(cases, "w").write("\n".join(json.dumps(c) for c in lines) + "\n")
    before = len(ctx.violations)
    ctx.vh("replay", mode="c06", infile=cases)
    if len(ctx.violations) == before:
        failures.append("replay with a corrupted expected state reported nothing")
    shutil.rmtree(ctx.work, ignore_errors=True)
    for f in failures:
        print("SELFTEST FAILURE:", f)
    print("selftest: %s" % ("FAILED" if failures else "passed (corrupted traces and expectations are rejected)"))
    return 2 if failures else 0


def replay(pid, path):
    """Re-executes the witness of a violation (the file named in a VIOLATION line).  Exit 1 + VIOLATION line if it still fails."""
    import json
    v = json.load(open(path))
    case, cmd, mode = v.get("case") or {}, v.get("cmd"), v.get("mode")
    ctx = core.Ctx(pid + "-replay", v.get("tier", "quick"), int(v.get("seed", 0) or 0), level=LEVELS.get(pid, "model_checking"))
    ctx.findings = []
    if cmd == "replay" and isinstance(case, dict) and case.get("k") not in ("spec", "trace", "pydrive", "driver_panic", None):
        infile = os.path.join(ctx.work, "case.ndjson")
        open(infile, "w").write(json.dumps(case) + "\n")
        ctx.vh("replay", mode=mode, infile=infile)
        if not ctx.violations and case.get("W", 0) >= 3:
            ctx.vh("replay", mode=mode, infile=infile, extra=["--narrow"])
    elif cmd == "pydrive":
        py_traces(ctx, [case.get("coder", mode)])
        ctx.required = {}
    else:
        # recorded traces (a recording of the failing run stays rejected for ever: the run has to be repeated), driver scenarios and
        # specification-level violations: the whole check with the recorded seed and tier
        CHECKS[pid](ctx)
    import shutil
    if ctx.violations:
        print("VIOLATION property=%s replay=%s" % (pid, path))
        print("  " + ctx.violations[0]["detail"][:600])
        return 1
    shutil.rmtree(ctx.work, ignore_errors=True)
    print("OK property=%s replay of %s no longer fails" % (pid, os.path.basename(path)))
    return 0
