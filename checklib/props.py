"""Per-property decision procedures.  Each function drives TLC on the specification and binds the
result to the implementation through the harness (see DESIGN.md section 5)."""
import os, json
from . import core

CHECKS, LEVELS, RULES = {}, {}, {}


def prop(pid, level="model_checking", rule=None):
    def deco(fn):
        CHECKS[pid] = fn
        LEVELS[pid] = level
        if rule:
            RULES[pid] = rule
        return fn
    return deco


# (W, S, MaxInit, MaxBulk)
ANS_QUICK = [(2, 4, 3, 2), (2, 5, 3, 1), (2, 6, 4, 1), (3, 6, 3, 1)]
ANS_THOROUGH = ANS_QUICK + [(2, 4, 5, 4), (2, 8, 5, 1), (3, 8, 3, 1), (4, 8, 3, 1), (4, 12, 3, 0)]
ANS_LAWS = ["TypeInv", "StateInv", "LawPopAfterPush", "LawPushAfterPop", "LawDecodeTotal", "LawImportExport",
            "LawSizes", "LawStepBound", "LawBinary"]


def ans_states(ctx, laws, mode, widths=None):
    """TLC: explore Ans.tla exhaustively at each width, checking `laws` in every state and emitting one replay
    case per state; harness: replay the cases in `mode` on the real AnsCoder."""
    widths = widths or (ANS_THOROUGH if ctx.tier == "thorough" else ANS_QUICK)
    for (w, s, mi, mb) in widths:
        cases = os.path.join(ctx.work, "ans_%d_%d.ndjson" % (w, s))
        st = ctx.tlc("MC_Ans", {"W": w, "S": s, "MaxInit": mi, "MaxBulk": mb}, invariants=laws + ["Emit"],
                     constraint="Bound", emit_to=cases, label="MC_Ans_%d_%d" % (w, s))
        if st["spec_violation"]:
            ctx.violation("specification law %s fails at W=%d S=%d:\n%s" % (st["spec_violation"], w, s, st.get("counterexample", "")),
                          {"k": "spec", "module": "MC_Ans", "constants": st["constants"]})
            continue
        ctx.vh("replay", mode=mode, infile=cases)


@prop("C01")
def c01(ctx):
    ans_states(ctx, ["TypeInv", "StateInv", "LawPopAfterPush", "LawImportExport"], "c01")


@prop("C06")
def c06(ctx):
    ans_states(ctx, ["TypeInv", "StateInv"], "c06")
    for c in ("enc_flush", "enc_noflush", "dec_refill", "dec_norefill", "binary_state"):
        ctx.require(c)


@prop("C04")
def c04(ctx):
    ans_states(ctx, ["TypeInv", "StateInv", "LawPushAfterPop", "LawBinary", "LawDecodeTotal"], "c04")
    for c in ("binary_state", "binary_trailing_zero"):
        ctx.require(c)


def c08_ans(ctx):
    ans_states(ctx, ["TypeInv", "StateInv", "LawImportExport"], "c08")
    for c in ("get_binary_ok", "get_binary_err"):
        ctx.require(c)


def c10_ans(ctx):
    ans_states(ctx, ["TypeInv", "LawDecodeTotal"], "c10")


def c12_ans(ctx):
    ans_states(ctx, ["TypeInv", "StateInv", "LawStepBound"], "c12")


def c18_ans(ctx):
    ans_states(ctx, ["TypeInv", "StateInv", "LawSizes", "LawBinary"], "c18")


@prop("C08")
def c08(ctx):
    c08_ans(ctx)


@prop("C10")
def c10(ctx):
    c10_ans(ctx)


@prop("C12")
def c12(ctx):
    c12_ans(ctx)


@prop("C18")
def c18(ctx):
    c18_ans(ctx)


def selftest():
    return 0


def replay(pid, path):
    return 0
