HOOKS = {
    "guard": "constriction_verif",
    "enable": "RUSTFLAGS='--cfg constriction_verif' (set in /verif/harness/.cargo/config.toml; the harness crate depends on /repo by path, so every check rebuilds /repo's working tree)",
    "baseline_off_cmd": "cd /repo && cargo test --workspace --no-fail-fast --offline",
    "source_commits": [],
    "add_only": True,
}
ENGINES = [
    {"name": "tlc", "path": "/verif/spec", "serves_properties": [], "kind_free_text": "explicit TLA+ specifications checked exhaustively by TLC at small widths; trace specifications validate recorded implementation traces"},
    {"name": "vh", "path": "/verif/harness", "serves_properties": [], "kind_free_text": "Rust harness: runs the real generic coders at verification-only tiny widths and at the real presets; replays TLC-generated cases and records traces for TLC"},
]
NOTES = "Model-based verification with explicit TLA+ specifications; see DESIGN.md."
NOT_APPLICABLE = {}
MC = "TLC model checking of an explicit TLA+ spec + conformance replay/trace validation against the Rust code"
TINY = "bounded widths (the same generic source lines run at all widths, monomorphised at W in {2,3,4} bits through verification-only BitArray types); bounded message length; TLC, CommunityModules and the tiny integer types are trusted"
CHECKS = {
    "C01": {"text": "TLC checks the stack laws (pop-after-push, import/export inverse, state invariant) on Ans.tla in every reachable state for every model slot at widths (W,S) in {(2,4),(2,5),(2,6),(3,6)} (thorough: up to (4,12)); every enumerated state and model is then replayed on the real generic AnsCoder monomorphised at those widths, comparing only what the property states (symbols returned, exported words).",
            "note": TINY, "technique": MC},
    "C02": {"text": "TLC enumerates every message of up to 3-5 symbols through Range.tla (encoder with all carry situations, sealing, decoder) and checks round trip, exhaustion and the empty message as invariants; each message is replayed through the real RangeEncoder/RangeDecoder (per-symbol and batch forms). Coverage of every carry/seal class is required (vacuity check).",
            "note": TINY, "technique": MC},
    "C04": {"text": "TLC checks push-after-pop and from_binary/into_binary identities on Ans.tla for every state and every binary word sequence; every case is replayed on the real AnsCoder (from_binary, decode with every slot model to depth 3, re-encode, into_binary/get_binary, num_valid_bits).",
            "note": TINY, "technique": MC},
    "C06": {"text": "Exact conformance: every transition of the TLA+ rANS specification and every message of the range-coder specification (encoder state, sealed words, every intermediate decoder state) is compared field by field with the real coders; TLC additionally proves the implementation-shaped range-coder spec equal to an arbitrary-precision carry-propagating reference.",
            "note": TINY + "; Ans.tla is the published streaming rANS update; sealing rule from notes/range-coding.md", "technique": MC},
    "C07": {"text": "For every enumerated message the real encoder's pos() snapshots at every boundary are sought to on a decoder over the sealed words in every order of length <= 2; TLC checks on the spec that a decoder in sync sits exactly at the encoder's state.",
            "note": TINY + "; range coder with Cursor<Vec> backend so far", "technique": MC},
    "C08": {"text": "For every spec-enumerated ANS state and range-coder message, every inspection (get_compressed, get_binary, iter_compressed, temporary decoder, clone, size queries) is compared with what finishing would return and an inspected twin is compared with an untouched twin.",
            "note": TINY, "technique": MC},
    "C09": {"text": "Impossible symbols injected after every prefix of every enumerated range-coder message must be refused with the encoder unchanged and the continuation decodable.",
            "note": TINY + "; range coder part so far", "technique": MC},
    "C10": {"text": "TLC checks that decoding is total on Ans.tla from every importable state; every state/model pair is replayed on the real coder under overflow and unsafe-precondition checks, to depth 4.",
            "note": TINY + "; ANS part so far", "technique": MC},
    "C11": {"text": "TLC checks that Sealed(e) followed by every suffix decodes to the message, for every message; the same suffixes are replayed on the real decoder, plus encoders started on non-empty sinks.",
            "note": TINY, "technique": MC},
    "C12": {"text": "TLC checks the per-step potential lemmas (ANS: value grows by at most 2^P/p (1+2^-(S-W-P)); range: range shrinks by at most p/2^P (1-2^-(S-W-P))) and word bounds in every state; the harness evaluates the same inequalities and the telescoped bit bound in exact integer arithmetic on the real coders.",
            "note": TINY, "technique": MC},
    "C03": {"text": "FixedPoint.tla predicts the exact table for every enumerated constructor input whose arithmetic is exact (all fixed-point tables up to length 4, every UniformModel, fast float constructors on dyadic weights, LeakyQuantizer on step CDFs incl. supports spanning a whole i8/u8 with adversarial inverse hints); TLC checks the contract (tiling, round trip) on every predicted table and the harness compares encoder view, decoder view at every quantile and out-of-support symbols of every representation with the prediction.",
            "note": TINY + "; float arithmetic is exact on the dyadic inputs used (no prediction for arbitrary floats yet)", "technique": MC},
    "C05": {"text": "For every model predicted by FixedPoint.tla every representation and conversion reachable from it (views, lookup models, generic encoder/decoder/lookup conversions, lazy vs eager, hash-table encoder vs searched decoder, symbol_table) is compared with the one spec table.",
            "note": TINY, "technique": MC},
    "C15": {"text": "Huffman.tla builds the codebook with the implementation's (weight, index) merge order; TLC checks prefix-freeness, Kraft equality, optimality against the minimum over all merge orders and decode-back for every weight vector of length <= 5 over 0..4; the real encoder and decoder trees (integer and float constructors) must reproduce every codeword in prefix and suffix form, decode it, and reject out-of-alphabet symbols.",
            "note": "bounded alphabet size and weights; ties and zeros included", "technique": MC},
    "C16": {"text": "BitCoder.tla (refinement mapping to an abstract bit sequence) is explored over all histories of write/read/guard/re-import up to 7-10 bits at W in {2,3,8}; TLC checks LIFO/FIFO, length and re-import laws; a shortest history to every reachable coder state is replayed on the real StackCoder/QueueEncoder/QueueDecoder. ExpGolomb.tla predicts every codeword of u8, the first 3000 of u16..u64 and the 20 values below the maximum of every width.",
            "note": "bounded bit depth; bit coders have private state, so states are reached through public histories only", "technique": MC},
    "C17": {"text": "Backend.tla models Vec/SmallVec, Cursor and Reverse<Cursor>; TLC checks the contract laws (remaining/space exactness, sticky EOF, write/read order, seek, reversal is a no-op) in every state with buffers up to 3 words; every operation from every state is replayed on Vec, SmallVec, Cursor over Vec/Box/&mut/& and their Reverse and compared (result, buffer, position).",
            "note": "iterator/callback adapters not yet covered", "technique": MC},
    "C19": {"text": "TLC enumerates every fixed-point table of length <= 4 (entries 0..2^B-1, with and without inferred last probability, symbol-count mismatches, duplicates), every UniformModel range, dyadic weight vectors and step CDFs, and decides acceptance with FixedPoint.tla; the real constructors must refuse (error or panic) what the spec refuses or else return a model satisfying the C03 contract, and must accept valid tables with an inferred last probability at every precision.",
            "note": TINY + "; float-class inputs (NaN, negative, infinite) not yet covered", "technique": MC},
    "C18": {"text": "Size, emptiness and exhaustion queries are compared with the length of the actual export in every spec-enumerated state (ANS) and after every prefix of every message (range coder).",
            "note": TINY + "; model diagnostics not yet covered", "technique": MC},
}
