HOOKS = {
    "guard": "constriction_verif",
    "enable": "RUSTFLAGS='--cfg constriction_verif' (set in /verif/harness/.cargo/config.toml; the harness crate depends on /repo by path, so every check rebuilds /repo's working tree)",
    "baseline_off_cmd": "cd /repo && cargo test --workspace --no-fail-fast --offline",
    "source_commits": [],
    "add_only": True,
}
ENGINES = [
    {"name": "tlc", "path": "/verif/spec", "serves_properties": [], "kind_free_text": "explicit TLA+ specifications checked exhaustively by TLC at small widths; trace specifications validate recorded implementation traces"},
    {"name": "vh", "path": "/verif/harness", "serves_properties": [], "kind_free_text": "Rust harness: runs the real generic coders at verification-only tiny widths and at the real presets; replays TLC-generated cases and records traces for TLC"},
]
NOTES = "Model-based verification with explicit TLA+ specifications; see DESIGN.md."
NOT_APPLICABLE = {}
MC = "TLC model checking of an explicit TLA+ spec + conformance replay/trace validation against the Rust code"
CHECKS = {
    "C01": {"text": "TLC checks the stack laws (pop-after-push, import/export inverse, state invariant) on Ans.tla in every reachable state for every model slot at widths (W,S) in {(2,4),(2,5),(2,6),(3,6)} (thorough: up to (4,12)); every enumerated state and model is then replayed on the real generic AnsCoder monomorphised at those widths, comparing only what the property states (symbols returned, exported words).",
            "note": "bounded widths (the same generic source lines run at all widths); Export length bounded by MaxInit/MaxBulk; TLC, tiny integer types trusted", "technique": MC},
    "C06": {"text": "Exact conformance: every transition of the TLA+ rANS specification (state, bulk, pushed/popped word) is replayed on the real AnsCoder at tiny widths and compared field by field.",
            "note": "bounded widths; spec is the published streaming rANS algorithm", "technique": MC},
}
