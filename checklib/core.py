"""Orchestration core: TLC runs, harness runs, evidence, findings.  Python stdlib only."""
import json, os, re, shutil, subprocess, sys, time, hashlib, glob, threading
from concurrent.futures import ThreadPoolExecutor

VERIF = os.path.dirname(os.path.dirname(os.path.abspath(__file__)))
SPEC = os.path.join(VERIF, "spec")
HARNESS = os.path.join(VERIF, "harness")
VH = os.path.join(HARNESS, "target", "debug", "vh")
JAVA_OPTS = "-Xss1g -Dtlc2.tool.queue.IStateQueue=StateDeque"


class ToolError(Exception):
    pass


def build_harness():
    """Rebuild the harness (and with it /repo's current working tree, hooks enabled)."""
    env = dict(os.environ, CARGO_NET_OFFLINE="true")
    t0 = time.time()
    p = subprocess.run(["cargo", "build", "--offline", "--quiet"], cwd=HARNESS, env=env,
                       stdout=subprocess.PIPE, stderr=subprocess.STDOUT, text=True)
    if p.returncode != 0:
        sys.stderr.write(p.stdout[-6000:])
        raise ToolError("harness build failed (does /repo still compile?)")
    return time.time() - t0


VH_ASAN = os.path.join(HARNESS, "target-asan", "x86_64-unknown-linux-gnu", "asan", "vh")


def build_asan():
    """Builds the harness (and /repo) with AddressSanitizer on the nightly toolchain (thorough tier of C20)."""
    env = dict(os.environ, CARGO_NET_OFFLINE="true",
               RUSTFLAGS="-Zsanitizer=address --cfg constriction_verif --check-cfg cfg(constriction_verif)")
    p = subprocess.run(["cargo", "+nightly", "build", "--offline", "--quiet", "--profile", "asan", "--target", "x86_64-unknown-linux-gnu",
                        "--target-dir", "target-asan"], cwd=HARNESS, env=env, stdout=subprocess.PIPE, stderr=subprocess.STDOUT, text=True)
    if p.returncode != 0 or not os.path.exists(VH_ASAN):
        sys.stderr.write(p.stdout[-3000:])
        raise ToolError("AddressSanitizer build of the harness failed")
    return VH_ASAN


PY_TARGET = os.path.join(HARNESS, "target-py")
PY_INTERP = "/opt/veriftools/pyvenv/bin/python"


def build_pyext(dest_dir):
    """Builds the PYTHON extension module of /repo's current working tree (cargo feature `pybindings`, pyo3 against the tooling
    venv's interpreter, which has numpy) and copies it to <dest_dir>/constriction.so."""
    env = dict(os.environ, CARGO_NET_OFFLINE="true", PYO3_PYTHON=PY_INTERP)
    p = subprocess.run(["cargo", "build", "--offline", "--quiet", "--lib", "--features", "pybindings", "--manifest-path", "/repo/Cargo.toml",
                        "--target-dir", PY_TARGET], env=env, stdout=subprocess.PIPE, stderr=subprocess.STDOUT, text=True)
    so = os.path.join(PY_TARGET, "debug", "libconstriction.so")
    if p.returncode != 0 or not os.path.exists(so):
        sys.stderr.write(p.stdout[-4000:])
        raise ToolError("building the Python extension module (--features pybindings) failed")
    os.makedirs(dest_dir, exist_ok=True)
    shutil.copy(so, os.path.join(dest_dir, "constriction.so"))
    return dest_dir


class Ctx:
    def __init__(self, prop, tier, seed, level="model_checking"):
        self.prop, self.tier, self.seed, self.level = prop, tier, seed, level
        self.t0 = time.time()
        for old in glob.glob(os.path.join(VERIF, "replays", "%s-%s-*" % (prop, tier))):
            os.remove(old)
        self.work = os.path.join(VERIF, "work", prop)
        shutil.rmtree(self.work, ignore_errors=True)
        os.makedirs(self.work, exist_ok=True)
        self.states = 0
        self.transitions = 0
        self.traces = 0
        self.replayed = 0
        self.checks = 0
        self.samples = []
        self.classes = {}
        self.tlc_runs = []
        self.violations = []      # dicts: {detail, case, sig}
        self.known_fired = []
        self.notes = []
        self.exhaustive = True
        self.assumptions = [
            "TLC 1.8 and the CommunityModules evaluate TLA+ correctly",
            "the verification-only integer types (harness/src/tiny.rs) mirror Rust's primitive unsigned integers (self-test: vh selftest)",
        ]
        self.required = {}        # vacuity: class name -> minimal count
        self.findings = load_findings()
        self.nseq = 0
        self.lock = threading.RLock()

    # ------------------------------------------------------------------ TLC
    def tlc(self, module, constants, invariants=(), spec="Spec", constraint=None, workers=8, timeout=900,
            emit_to=None, simulate=None, deadlock=False, extra_cfg="", env_extra=None, properties=(), postcondition=None,
            view=None, label=None, trace_run=False):
        """Runs TLC on spec/<module>.tla with a generated config.  Returns a dict of statistics.
        Lines printed as <<"CASE", json>> are written (deduplicated) to emit_to as ndjson."""
        if self.tier == "thorough":
            timeout = max(timeout, 5400)          # the thorough tier explores larger configurations (and may share the machine)
        with self.lock:
            self.nseq += 1
            seq = self.nseq
        label = label or module
        cfgname = "%s_%02d.cfg" % (label, seq)
        cfg = []
        if constants:
            cfg.append("CONSTANTS " + " ".join("%s = %s" % kv for kv in constants.items()))
        cfg.append("SPECIFICATION " + spec)
        if constraint:
            cfg.append("CONSTRAINT " + constraint)
        if invariants:
            cfg.append("INVARIANTS " + " ".join(invariants))
        if properties:
            cfg.append("PROPERTIES " + " ".join(properties))
        if postcondition:
            cfg.append("POSTCONDITION " + postcondition)
        if view:
            cfg.append("VIEW " + view)
        cfg.append("CHECK_DEADLOCK " + ("TRUE" if deadlock else "FALSE"))
        if extra_cfg:
            cfg.append(extra_cfg)
        cfgpath = os.path.join(self.work, cfgname)
        open(cfgpath, "w").write("\n".join(cfg) + "\n")
        meta = os.path.join(self.work, "md_%02d" % seq)
        cmd = ["timeout", str(timeout), "tlc", "-workers", str(workers), "-metadir", meta, "-cleanup",
               "-noGenerateSpecTE", "-coverage", "1", "-config", cfgpath]
        if simulate:
            cmd += ["-simulate", simulate]
        cmd.append(os.path.join(SPEC, module + ".tla"))
        # the depth-first queue helps trace validation only; it does not support TLC's periodic checkpoints (runs > 30 min)
        env = dict(os.environ, JAVA_TOOL_OPTIONS=JAVA_OPTS if trace_run else "-Xss1g")
        if env_extra:
            env.update(env_extra)
        t0 = time.time()
        outpath = os.path.join(self.work, "tlc_%02d.out" % seq)
        with open(outpath, "w") as fo:
            p = subprocess.run(cmd, cwd=self.work, env=env, stdout=fo, stderr=subprocess.STDOUT, text=True)
        out = open(outpath, errors="replace").read()
        shutil.rmtree(meta, ignore_errors=True)
        st = {"module": module, "constants": constants, "invariants": list(invariants), "wall_s": round(time.time() - t0, 2),
              "rc": p.returncode, "out": outpath}
        if p.returncode == 124:
            raise ToolError("TLC timed out on %s (%s)" % (module, cfgpath))
        m = re.search(r"(\d+) states generated, (\d+) distinct states found, (\d+) states left on queue", out)
        if m:
            st["generated"], st["distinct"], st["left"] = int(m.group(1)), int(m.group(2)), int(m.group(3))
        m = re.search(r"depth of the complete state graph search is (\d+)", out)
        if m:
            st["depth"] = int(m.group(1))
        # invariant / property violations found by TLC on the specification itself
        st["spec_violation"] = None
        m = re.search(r"Error: Invariant (\S+) is violated", out)
        if m:
            st["spec_violation"] = m.group(1)
            st["counterexample"] = extract_trace(out)
        elif "Error:" in out and "is violated" in out:
            st["spec_violation"] = re.search(r"Error: (.*is violated.*)", out).group(1)
            st["counterexample"] = extract_trace(out)
        elif re.search(r"^Error: ", out, re.M) and not simulate and not trace_run:
            sys.stderr.write(out[-4000:])
            raise ToolError("TLC error on %s, see %s" % (module, outpath))
        elif "generated" not in st and not simulate and not trace_run:
            sys.stderr.write(out[-4000:])
            raise ToolError("TLC produced no statistics on %s" % module)
        st["actions"] = parse_coverage(out)
        if emit_to:
            n = 0
            seen = set()
            with open(emit_to, "w") as f:
                for line in out.splitlines():
                    if line.startswith('<<"CASE", '):
                        js = json.loads(line[len('<<"CASE", '):-2])
                        h = hashlib.md5(js.encode()).digest()
                        if h in seen:
                            continue
                        seen.add(h)
                        f.write(js + "\n")
                        n += 1
            st["cases"] = n
        with self.lock:
            if "generated" in st and not trace_run:
                self.states += st["distinct"]
                self.transitions += st["generated"]
            self.tlc_runs.append({k: v for k, v in st.items() if k not in ("out", "counterexample")})
        return st

    # ------------------------------------------------------------------ harness
    def vh(self, cmd, mode=None, infile=None, extra=(), timeout=1800, binary=None):
        """Runs the harness.  A case that aborts the process (violated unsafe precondition, double panic: C20 territory)
        is recorded as a disagreement and the run is repeated without it (at most 12 times)."""
        self.nseq += 1
        out = os.path.join(self.work, "vh_%02d.json" % self.nseq)
        skip = []
        aborts = []
        while True:
            args = ["timeout", str(timeout), binary or VH, cmd, "--out", out, "--seed", str(self.seed)]
            if mode:
                args += ["--mode", mode]
            if infile:
                args += ["--in", infile]
            if skip:
                args += ["--skip", ",".join(map(str, skip))]
            args += list(extra)
            for f in (out, out + ".abort"):
                if os.path.exists(f):
                    os.remove(f)
            p = subprocess.run(args, cwd=self.work, stdout=subprocess.PIPE, stderr=subprocess.STDOUT, text=True,
                               env=dict(os.environ, VERIF_TIER=self.tier))
            if p.returncode != 0 and os.path.exists(out + ".abort"):
                try:
                    ab = json.load(open(out + ".abort"))
                except ValueError:
                    # several threads aborted at once: repeat single-threaded for a clean record
                    os.environ["VH_THREADS"] = "1"
                    continue
                aborts.append(ab)
                self.violation("process abort: " + ab["message"], ab.get("case"), cmd=cmd, mode=mode)
                if ab.get("index") is None or ab["index"] > 10**12 or len(aborts) >= 12:
                    self.notes.append("harness run stopped after %d aborting cases" % len(aborts))
                    return {"cases": 0, "checks": 0, "aborts": aborts}
                skip.append(ab["index"])
                continue
            if p.returncode != 0 and "AddressSanitizer" in (p.stdout or ""):
                m = re.search(r"ERROR: AddressSanitizer: (.*)", p.stdout)
                frames = re.findall(r"#\d+ 0x[0-9a-f]+ in (\S+).*?(/repo/src/\S+)", p.stdout)[:4]
                self.violation("process abort: AddressSanitizer: %s; frames in the library: %s" % (m.group(1) if m else "?", frames),
                               {"k": "asan", "cmd": cmd, "mode": mode, "input": infile}, cmd=cmd, mode=mode)
                return {"cases": 0, "checks": 0, "aborts": [], "asan": True}
            if p.returncode != 0 or not os.path.exists(out):
                sys.stderr.write(p.stdout[-4000:])
                raise ToolError("harness failed: %s (rc %d)" % (" ".join(args), p.returncode))
            break
        rep = json.load(open(out))
        rep["aborts"] = aborts
        self.replayed += rep.get("cases", 0)
        self.checks += rep.get("checks", 0)
        for k, v in rep.get("classes", {}).items():
            self.classes[k] = self.classes.get(k, 0) + v
        for s in rep.get("samples", []):
            if len(self.samples) < 6:
                self.samples.append(s)
        for mm in rep.get("mismatches", []):
            self.violation(mm["detail"], mm.get("case"), cmd=cmd, mode=mode)
        rep["n_reported"] = rep.get("n_mismatch", 0)
        return rep

    # ------------------------------------------------------------------ trace validation (impl -> spec)
    def validate_trace(self, module, trace, constants=None, invariants=(), what="trace", timeout=600):
        """Validates one recorded implementation trace (ndjson) against a Trace*/Abs* specification with TLC.
        Returns (accepted, info).  A rejected trace becomes a violation carrying the first unmatched event."""
        if not os.path.exists(trace):
            # the driver that should have written it stopped at a disagreement (already recorded as a violation)
            if self.violations or self.known_fired:
                self.notes.append("trace %s was not written: its driver stopped at a recorded violation" % os.path.basename(trace))
                return False
            raise ToolError("trace %s was not written" % trace)
        n_events = sum(1 for _ in open(trace))
        st = self.tlc(module, constants or {}, invariants=list(invariants), postcondition="Accepted", workers=1, timeout=timeout,
                      env_extra={"TRACE": trace}, label=module, trace_run=True)
        out = open(st["out"], errors="replace").read()
        with self.lock:
            return self._account_trace(module, trace, what, n_events, st, out)

    def validate_traces(self, jobs, par=5):
        """Validates several recorded traces concurrently (one single-worker TLC process each).  jobs: dicts of the keyword
        arguments of validate_trace."""
        with ThreadPoolExecutor(max_workers=par) as ex:
            return list(ex.map(lambda j: self.validate_trace(**j), jobs))

    def _account_trace(self, module, trace, what, n_events, st, out):
        ch = len(re.findall(r'<<"CLONE-HELD", ', out))
        if ch:
            self.classes["clones_while_words_held_back"] = self.classes.get("clones_while_words_held_back", 0) + ch
        held = len(re.findall(r'<<"HELD", ', out))
        if held:
            self.classes["trace_steps_with_words_held_back"] = self.classes.get("trace_steps_with_words_held_back", 0) + held
        m = re.search(r'<<"CONFIRMED", (\d+)>>', out)
        if m:
            self.classes["trace_confirmations"] = self.classes.get("trace_confirmations", 0) + int(m.group(1))
        rej = re.search(r'<<\s*"(?:REJECTED at event|BAD RECORD)",\s*(\d+),\s*(.*?)>>', out, re.S)
        ok = ("Model checking completed. No error has been found" in out) and not rej and not st.get("spec_violation")
        if ok:
            self.traces += 1
            self.classes["trace_events"] = self.classes.get("trace_events", 0) + n_events
            if len(self.samples) < 6:
                self.samples.append({"validated_trace": what, "module": module, "events": n_events, "first_events": [json.loads(l) for l in open(trace).readlines()[:3]]})
        else:
            at = int(rej.group(1)) if rej else None
            lines = open(trace).readlines()
            ctx_ev = [json.loads(l) for l in lines[max(0, (at or 1) - 4):(at or 1)]] if at else []
            if not rej:
                # no REJECTED line: TLC stopped with an evaluation error (e.g. a recorded symbol that no specification table
                # contains); the depth reached tells the event
                m2 = re.search(r"Error: (.*?)(?:\n\n|\Z)", out, re.S)
                d2 = re.findall(r"Progress\((\d+)\)|depth of the complete state graph search is (\d+)", out)
                at = max([int(a or b) for a, b in d2], default=None)
                why = (st.get("spec_violation") or (m2.group(1)[:500] if m2 else out[-600:]))
            else:
                why = rej.group(2)[:400]
            detail = "%s: trace of %d events rejected by %s at event %s: %s" % (what, n_events, module, at, why)
            keep = os.path.join(VERIF, "replays", "%s-%s.ndjson" % (self.prop, module))
            self.violation(detail, {"k": "trace", "module": module, "trace_file": trace, "kept_trace": keep, "constants": st.get("constants"), "invariants": st.get("invariants"),
                                    "rejected_at": at, "last_events": ctx_ev}, cmd="trace", mode=module)
            # keep the trace next to the replay files
            os.makedirs(os.path.dirname(keep), exist_ok=True)
            shutil.copy(trace, keep)
        return ok


    # ------------------------------------------------------------------ Python front end (impl -> spec)
    def pydrive(self, coder, n_events, timeout=900):
        """Runs pyfront/drive_py.py on the extension module built from /repo and returns the trace path.  Disagreements the
        driver notices itself, and exceptions (Rust panics included) that escape from calls it expects to succeed, are violations."""
        so_dir = os.path.join(self.work, "pyext")
        if not os.path.exists(os.path.join(so_dir, "constriction.so")):
            build_pyext(so_dir)
        base = os.path.join(self.work, "py_%s" % coder)
        args = ["timeout", str(timeout), PY_INTERP, os.path.join(VERIF, "pyfront", "drive_py.py"), coder, "--so-dir", so_dir, "--out", base,
                "--seed", str(self.seed), "--n", str(n_events)]
        p = subprocess.run(args, cwd=self.work, stdout=subprocess.PIPE, stderr=subprocess.STDOUT, text=True)
        if p.returncode != 0 or not os.path.exists(base + ".report.json"):
            if p.returncode < 0 or p.returncode in (134, 139):
                self.violation("process abort in the Python extension module (rc %d): %s" % (p.returncode, p.stdout[-600:]), {"k": "pydrive", "coder": coder, "seed": self.seed}, cmd="pydrive", mode=coder)
                return None
            sys.stderr.write(p.stdout[-3000:])
            raise ToolError("python driver failed: %s (rc %d)" % (" ".join(args), p.returncode))
        rep = json.load(open(base + ".report.json"))
        self.checks += rep["events"]
        for k, v in rep["classes"].items():
            self.classes["py_" + k] = self.classes.get("py_" + k, 0) + v
        for mm in rep["mismatches"]:
            self.violation("python front end (%s): %s" % (coder, mm["detail"]), {"k": "pydrive", "coder": coder, "seed": self.seed, "context": mm.get("case")}, cmd="pydrive", mode=coder)
        return base + ".ndjson"

    # ------------------------------------------------------------------ results
    UB_PATTERNS = ("unsafe precondition", "process abort", "with overflow", "attempt to ", "loops)", "did not return")

    def violation(self, detail, case=None, cmd=None, mode=None, sig=None):
        if getattr(self, "ub_only", False) and not any(p in detail for p in self.UB_PATTERNS):
            # C20 only concerns undefined behaviour; functional disagreements are reported by the other properties
            self.classes["non_ub_disagreement_ignored"] = self.classes.get("non_ub_disagreement_ignored", 0) + 1
            return
        v = {"detail": detail, "case": case, "cmd": cmd, "mode": mode, "sig": sig}
        for f in self.findings:
            if f.get("status") == "open" and f["property"] == self.prop and finding_matches(f, v):
                if f["id"] not in [k["id"] for k in self.known_fired]:
                    self.known_fired.append(f)
                return
        self.violations.append(v)

    def require(self, cls, n=1):
        self.required[cls] = n

    def finish(self, rule=None, extra_cov=None):
        wall = time.time() - self.t0
        vac = [c for c, n in self.required.items() if self.classes.get(c, 0) < n]
        cov = {
            "states": self.states, "transitions": self.transitions,
            "traces_validated_against_impl": self.traces,
            "transitions_replayed": self.replayed, "impl_checks": self.checks,
            "samples": self.samples[:6] or [{"note": "no sample recorded"}],
            "exhaustive": self.exhaustive,
            "coverage_by_class": self.classes, "tlc_runs": self.tlc_runs,
            "vacuity_required": self.required, "vacuity_missing": vac,
            "known_findings_fired": [f["id"] for f in self.known_fired],
            "notes": self.notes,
        }
        if self.classes.get("tlaps_obligations_proved"):
            # the unbounded part: proof obligations of spec/proofs/*.tla discharged by TLAPS in THIS run (the check fails otherwise)
            cov["obligations"] = self.classes["tlaps_obligations_proved"]
            cov["discharged"] = self.classes["tlaps_obligations_proved"]
            cov["checker_cmd"] = "tlapm --threads 6 --cleanfp <module>.tla  (in a copy of spec/proofs, no fingerprint cache)"
            cov["trusted_base"] = ["tlapm 1.6.0-pre", "Z3 (SMT back end)", "TLC 1.8.0 for the bridge modules that tie the proved formulas to the specification"]
        if self.level != "model_checking":
            cov["evaluations"] = max(self.checks, 1)
            cov["distinct_nontrivial"] = max(len(self.classes), 0)
            cov["rule"] = rule or ""
        if rule:
            cov["rule"] = rule
        if extra_cov:
            cov.update(extra_cov)
        ev = {"property_id": self.prop, "tier": self.tier, "seed": self.seed, "level": self.level,
              "coverage": cov, "assumptions": self.assumptions, "wall_s": round(wall, 2),
              "violations": len(self.violations)}
        os.makedirs(os.path.join(VERIF, "evidence"), exist_ok=True)
        json.dump(ev, open(os.path.join(VERIF, "evidence", self.prop + ".json"), "w"), indent=1)
        for f in self.known_fired:
            print("KNOWN-FINDING: property=%s %s: %s" % (self.prop, f["id"], f["what"]))
        rc = 0
        if self.violations:
            os.makedirs(os.path.join(VERIF, "replays"), exist_ok=True)
            shown = 0
            for i, v in enumerate(self.violations[:10]):
                path = os.path.join(VERIF, "replays", "%s-%s-%d.json" % (self.prop, self.tier, i))
                v = dict(v, property=self.prop, tier=self.tier, seed=self.seed)
                json.dump(v, open(path, "w"), indent=1)
                print("VIOLATION property=%s replay=%s" % (self.prop, path))
                print("  " + v["detail"][:600])
                shown += 1
            if len(self.violations) > shown:
                print("  ... and %d more disagreements" % (len(self.violations) - shown))
            rc = 1
        elif vac:
            print("ERROR: vacuous run, classes never exercised: %s" % vac)
            rc = 2
        else:
            print("OK property=%s tier=%s states=%d transitions=%d replayed=%d impl_checks=%d traces=%d wall=%.1fs" % (
                self.prop, self.tier, self.states, self.transitions, self.replayed, self.checks, self.traces, wall))
        if rc != 1:
            shutil.rmtree(self.work, ignore_errors=True)
        return rc



# ---------------------------------------------------------------------- limb re-encoding of exact traces (V3)
BIG_SCALARS = ("state", "c", "p", "lower", "range", "point", "sitW", "hc", "hr")
BIG_ARRAYS = ("words", "bulk", "bulk_tail", "view_tail", "words_tail", "comp_tail", "rem_tail")


def to_limbs(v, lb):
    """little-endian limbs of lb bits, without leading zero limbs (0 -> []): the number format of spec/Big.tla"""
    n = int(v)
    out = []
    while n:
        out.append(n & ((1 << lb) - 1))
        n >>= lb
    return out


def limbify(src, dst, lb, max_events=None):
    """Re-encodes an exact event trace (numbers as JSON integers / decimal strings) for the Big* trace specifications: every
    field that can exceed TLC's 32-bit integers becomes a limb sequence; a full `bulk` is replaced by its length and last three
    words (the specification carries the full bulk itself), and so are the words of export events.  Pure re-encoding: no
    field is computed, guessed or dropped other than those prefixes."""
    n = 0
    with open(src) as f, open(dst, "w") as g:
        for line in f:
            e = json.loads(line)
            o = {}
            for k, v in e.items():
                if k in BIG_SCALARS:
                    o[k] = to_limbs(v, lb)
                elif k == "bulk":
                    o["bulk_len"] = len(v)
                    o["bulk_tail"] = [to_limbs(x, lb) for x in v[-3:]]
                elif k == "words" and e.get("ev") in ("export", "export_binary"):
                    o["words_len"] = len(v)
                    o["words_tail"] = [to_limbs(x, lb) for x in v[-3:]]
                elif k in BIG_ARRAYS:
                    o[k] = [to_limbs(x, lb) for x in v]
                else:
                    o[k] = v
            g.write(json.dumps(o) + "\n")
            n += 1
            if max_events and n >= max_events:
                break
    return n


def extract_trace(out):
    i = out.find("The behavior up to this point is")
    if i < 0:
        return out[-3000:]
    return out[i:i + 6000]


def parse_coverage(out):
    acts = {}
    for m in re.finditer(r"^<(\w+) line \d+, col \d+ to line \d+, col \d+ of module (\w+)>: (\d+):(\d+)", out, re.M):
        acts[m.group(1)] = {"distinct": int(m.group(3)), "generated": int(m.group(4))}
    return acts


def load_findings():
    p = os.path.join(VERIF, "known_findings.json")
    if not os.path.exists(p):
        return []
    return json.load(open(p)).get("findings", [])


def finding_matches(f, v):
    """A finding matches a violation iff every regex in f['match'] matches the corresponding field
    (detail / the JSON text of the case)."""
    m = f.get("match", {})
    if not m:
        return False
    if "detail" in m and not re.search(m["detail"], v.get("detail") or ""):
        return False
    if "case" in m and not re.search(m["case"], json.dumps(v.get("case"), sort_keys=True)):
        return False
    if "mode" in m and m["mode"] != v.get("mode"):
        return False
    return True
