----------------------------- MODULE TraceBigChain ---------------------------
(* Exact trace validation (impl -> spec) of recorded ChainCoder executions at  *)
(* ANY width (the default preset u32/u64 included): the events of              *)
(* TraceChain.tla with heads, words, cumulatives and probabilities logged as   *)
(* LB-bit limb sequences, validated against BigChain.tla.                      *)
EXTENDS BigChain, TLC, Json, IOUtils
Rec == ndJsonDeserialize(IOEnv.TRACE)
VARIABLES cd, l
vars == <<cd, l>>
Init == cd = Coder(<<>>, <<>>, One, One) /\ l = 1
Tail3(s) == SubSeq(s, IF Len(s) > 3 THEN Len(s) - 2 ELSE 1, Len(s))
Matches(x, ev) == /\ x.hc = ev.hc /\ x.hr = ev.hr /\ Len(x.comp) = ev.comp_len /\ Tail3(x.comp) = ev.comp_tail
                  /\ Len(x.rem) = ev.rem_len /\ Tail3(x.rem) = ev.rem_tail
Step ==
    /\ l <= Len(Rec)
    /\ l' = l + 1
    /\ LET ev == Rec[l] IN
       CASE ev.ev = "from_binary" -> ~Failed(FromBinary(ev.words, ev.P)) /\ cd' = FromBinary(ev.words, ev.P) /\ Matches(cd', ev)
         [] ev.ev = "from_compressed" -> ~Failed(FromCompressed(ev.words, ev.P)) /\ cd' = FromCompressed(ev.words, ev.P) /\ Matches(cd', ev)
         [] ev.ev = "refused" -> (IF ev.binary THEN Failed(FromBinary(ev.words, ev.P)) ELSE Failed(FromCompressed(ev.words, ev.P))) /\ cd' = cd
         [] ev.ev = "dec" -> Hits(cd, ev.P, ev.c, ev.p) /\ cd' = ChainDec(cd, ev.P, ev.c, ev.p) /\ Matches(cd', ev)
         [] ev.ev = "dec_out_of_data" -> Failed(Pull(cd, ev.P)) /\ cd' = cd /\ Matches(cd, ev)
         [] ev.ev = "enc" -> ~Failed(ChainEnc(cd, ev.P, ev.c, ev.p)) /\ cd' = ChainEnc(cd, ev.P, ev.c, ev.p) /\ Matches(cd', ev)
         [] ev.ev = "enc_out_of_remainders" -> Failed(ChainEnc(cd, ev.P, ev.c, ev.p)) /\ cd' = cd /\ Matches(cd, ev)
         [] ev.ev = "change" -> ~Failed(ChangeP(cd, ev.P, ev.NP)) /\ cd' = ChangeP(cd, ev.P, ev.NP) /\ Matches(cd', ev)
         [] ev.ev = "change_failed" -> Failed(ChangeP(cd, ev.P, ev.NP)) /\ cd' = cd
         [] ev.ev = "from_remainders" -> LET r == IntoRemainders(cd) w == IF ev.concat THEN r.prefix \o r.suffix ELSE r.suffix
                                         IN ~Failed(FromRemainders(w, ev.P)) /\ cd' = FromRemainders(w, ev.P) /\ Matches(cd', ev)
         [] OTHER -> FALSE
Spec == Init /\ [][Step]_vars
StateInv == IsBig(cd.hc) /\ IsBig(cd.hr) /\ BitLenB(cd.hc) <= W
Accepted == IF TLCGet("stats").diameter - 1 = Len(Rec) THEN TRUE
            ELSE Print(<<"REJECTED at event", TLCGet("stats").diameter, Rec[TLCGet("stats").diameter]>>, FALSE)
=============================================================================
