------------------------------ MODULE MC_Chain ------------------------------
(* All data of <= MaxData words, decoded into <= MaxSyms symbols with every   *)
(* slot of every precision in PSet (precision changes between symbols are     *)
(* IncreaseP / DecreaseP steps), with the decoded slots as ghost history.     *)
EXTENDS Chain, TLC, Json
CONSTANTS MaxData, MaxSyms, PSet, Binary     \* Binary: TRUE = from_binary/into_binary, FALSE = from_compressed/into_compressed
VARIABLES cd, data, prec, hist
vars == <<cd, data, prec, hist>>

Start(d, P) == IF Binary THEN FromBinary(d, P) ELSE FromCompressed(d, P)
Init == \E d \in WordSeqs(W, MaxData) : \E P \in PSet :
            /\ ~Failed(Start(d, P))
            /\ cd = Start(d, P) /\ data = d /\ prec = P /\ hist = <<>>
DecodeStep == \E cp \in Slots(prec) :
            /\ Len(hist) < MaxSyms
            /\ Hits(cd, prec, cp[1], cp[2])
            /\ cd' = ChainDec(cd, prec, cp[1], cp[2])
            /\ hist' = Append(hist, <<prec, cp[1], cp[2]>>)
            /\ UNCHANGED <<data, prec>>
\* change the precision (recorded in the history as a pseudo entry <<NP, 0, 0>> with p = 0)
ChangeStep == \E NP \in PSet \ {prec} :
            /\ Len(hist) < MaxSyms /\ (IF hist = <<>> THEN TRUE ELSE Last(hist)[3] # 0)
            /\ ~Failed(ChangeP(cd, prec, NP))
            /\ cd' = ChangeP(cd, prec, NP)
            /\ prec' = NP
            /\ hist' = Append(hist, <<prec, NP, 0>>)         \* <<old P, new P, 0>>
            /\ UNCHANGED data
Next == DecodeStep \/ ChangeStep
Spec == Init /\ [][Next]_vars

StateInv == Inv(cd, prec)
\* undo the history on coder c (symbols re-encoded in reverse, precision changes undone in reverse)
RECURSIVE Undo(_, _)
Undo(c, h) == IF h = <<>> THEN c
              ELSE IF Failed(c) THEN FAIL
              ELSE LET x == Last(h)
                   IN IF x[3] = 0 THEN Undo(ChangeP(c, x[2], x[1]), Front(h))
                      ELSE Undo(ChainEnc(c, x[1], x[2], x[3]), Front(h))
InitialPrec == IF hist = <<>> THEN prec ELSE (IF hist[1][3] = 0 THEN hist[1][1] ELSE hist[1][1])
Export(c) == IF Binary THEN IntoBinary(c) ELSE IntoCompressed(c)
Restored(c, prefix) == ~Failed(c) /\ ~Failed(Export(c)) /\ prefix \o Export(c).prefix \o Export(c).suffix = data
\* C13: the three documented ways of continuing after decoding restore the data
RestoreSame == Restored(Undo(cd, hist), <<>>)
RestoreSuffix == LET r == IntoRemainders(cd) c3 == FromRemainders(r.suffix, prec)
                 IN ~Failed(c3) /\ Restored(Undo(c3, hist), r.prefix)
RestoreConcat == LET r == IntoRemainders(cd) c2 == FromRemainders(r.prefix \o r.suffix, prec)
                 IN ~Failed(c2) /\ Restored(Undo(c2, hist), <<>>)
\* one step back is the exact inverse (heads and both stacks)
StepInverse == \A cp \in Slots(prec) : Hits(cd, prec, cp[1], cp[2]) =>
                  ChainEnc(ChainDec(cd, prec, cp[1], cp[2]), prec, cp[1], cp[2]) = cd /\ Inv(ChainDec(cd, prec, cp[1], cp[2]), prec)
\* errors leave the coder untouched by construction (FAIL carries no coder); out-of-data depends on data only (C14)
OutOfDataModelFree == \A cp1, cp2 \in Slots(prec) : Failed(Pull(cd, prec)) = Failed(Pull(cd, prec))

\* Bridge to the width-independent theorems RemaindersStep (spec/proofs/ChainStep.tla) and RemStep / Message (ChainMessage.tla), TLAPS: in every reachable state and for
\* every slot that contains the pulled quantile, ChainDec / NeedsRefill compute exactly the quantities the theorem speaks about
ProofBridge == \A cp \in Slots(prec) : Hits(cd, prec, cp[1], cp[2]) =>
    LET Th == Pow2(S - W - prec)
        B == Pow2(W)
        q == Pull(cd, prec).q
        hr1 == cd.hr * cp[2] + (q - cp[1])
        flush == hr1 >= Th * B
        n == ChainDec(cd, prec, cp[1], cp[2])
    IN /\ cd.hr >= Th /\ cd.hr < Th * B /\ cp[2] <= B                      \* hypotheses of the theorem
       /\ n.hr = (IF flush THEN hr1 \div B ELSE hr1)
       /\ n.rem = (IF flush THEN Append(cd.rem, hr1 % B) ELSE cd.rem)
       /\ NeedsRefill(n, prec, cp[2]) = (n.hr < cp[2] * Th)
       \* ... and the remainders side of ChainEnc is EncR of proofs/ChainMessage.tla (the step on whole configurations and the
       \* end-to-end theorem Message for unbounded messages); DecR is the two conjuncts on n.hr / n.rem above
       /\ LET refill == n.hr < cp[2] * Th
              hr0 == IF refill THEN n.hr * B + n.rem[Len(n.rem)] ELSE n.hr
              e == ChainEnc(n, prec, cp[1], cp[2])
          IN /\ ~Failed(e)
             /\ e.hr = hr0 \div cp[2]
             /\ e.rem = (IF refill THEN SubSeq(n.rem, 1, Len(n.rem) - 1) ELSE n.rem)
SymbolsOnly == SelectSeq(hist, LAMBDA x : x[3] # 0)
Emit == PrintT(<<"CASE", ToJson(
    [k |-> "chain", W |-> W, S |-> S, binary |-> Binary, data |-> data, hist |-> hist, prec |-> prec,
     whole |-> IsWhole(cd), heads |-> <<cd.hc, cd.hr>>,
     next_q |-> IF Failed(Pull(cd, prec)) THEN <<>> ELSE <<Pull(cd, prec).q>>,
     remainders |-> <<IntoRemainders(cd).prefix, IntoRemainders(cd).suffix>>])>>)
=============================================================================
