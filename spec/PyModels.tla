------------------------------ MODULE PyModels ------------------------------
(* Entropy models as the Python front end (src/pybindings/stream/model.rs)   *)
(* builds them at the default preset (Probability = u32, PRECISION = 24),    *)
(* for the model kinds whose fixed-point table FixedPoint.tla predicts       *)
(* exactly.  A recorded model is a record:                                   *)
(*   [k |-> "uniform", n |-> n]                    Uniform(n)                *)
(*   [k |-> "fast", w |-> <<w1..wn>>]              Categorical(w / sum(w),   *)
(*        perfect=False [, lazy=True]); sum(w) a power of two, so that every *)
(*        float operation of the fast quantisation is exact                  *)
(*   [k |-> "leaky", K |-> <<..>>, m, min, n]      CustomModel / ScipyModel  *)
(*        with the step CDF cdf(min + i - 1/2) = K[i] / 2^m  (i = 1..n-1)    *)
(* Slot(model, sym) is <<left cumulative, probability>> of the symbol as     *)
(* ordinary integers (they are below 2^24).                                  *)
EXTENDS Naturals, Sequences
FP == INSTANCE FixedPoint

PyP == 24
\* Uniform models may have up to 2^24 symbols: their slots are given in closed form instead of through a table
UniPpb(n) == (2^PyP) \div n
Table(md) == IF md.k = "uniform" THEN FP!UniformTable(md.n, PyP)
             ELSE IF md.k = "fast" THEN FP!FastTable(md.w, PyP)
             ELSE FP!LeakyTable(md.K, md.m, md.n, md.min, PyP)
InSupport(md, sym) == IF md.k = "uniform" THEN sym >= 0 /\ sym < md.n
                      ELSE \E i \in 1..Len(Table(md)) : Table(md)[i][1] = sym
Slot(md, sym) == IF md.k = "uniform" THEN <<sym * UniPpb(md.n), IF sym < md.n - 1 THEN UniPpb(md.n) ELSE 2^PyP - (md.n - 1) * UniPpb(md.n)>>
                 ELSE LET tab == Table(md)
                          i == CHOOSE j \in 1..Len(tab) : tab[j][1] = sym
                      IN <<tab[i][2], tab[i][3]>>
WellFormed(md) == md.k = "uniform" \/ FP!Valid(Table(md), PyP)
=============================================================================
