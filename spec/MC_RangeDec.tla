---------------------------- MODULE MC_RangeDec ----------------------------
(* Range decoder over ARBITRARY words (C10): every word sequence of at most  *)
(* MaxData words, decoded with every slot that contains the quantile, up to  *)
(* MaxSyms symbols.                                                          *)
EXTENDS Range, TLC, Json
CONSTANTS MaxData, MaxSyms, PSet
VARIABLES dc, hist
vars == <<dc, hist>>
Init == \E d \in WordSeqs(W, MaxData) : dc = DecNew(d) /\ hist = <<>>
Next == \E P \in PSet : \E cp \in Slots(P) :
            /\ Len(hist) < MaxSyms
            /\ DHits(dc, P, cp[1], cp[2])
            /\ dc' = RDec(dc, P, cp[1], cp[2])
            /\ hist' = Append(hist, <<P, cp[1], cp[2]>>)
Spec == Init /\ [][Next]_vars
TypeInv == DecTypeOK(dc)
\* decoding is total: at every precision either the data is reported invalid or the quantile lies in [0, 2^P)
Total == \A P \in PSet : DInvalid(dc, P) \/ DQuantile(dc, P) < Pow2(P)
\* the arithmetic of a step stays inside the state type
NoOverflow == \A P \in PSet : \A cp \in Slots(P) : DHits(dc, P, cp[1], cp[2]) =>
    LET n == RDec(dc, P, cp[1], cp[2]) IN n.range >= Pow2(K) /\ n.range < M /\ Shr(dc.range, P) * (cp[1] + cp[2]) <= dc.range
\* (a point inside [lower, lower + range) can still be invalid: range is not a multiple of 2^P, and the
\* top range - (range >> P) * 2^P values belong to no symbol; the encoder never produces them)
Emit == PrintT(<<"CASE", ToJson(
    [k |-> "rdec", W |-> W, S |-> S, data |-> dc.data, hist |-> hist,
     dec |-> <<dc.lower, dc.range, dc.point, dc.pos>>,
     invalid |-> { P \in PSet : DInvalid(dc, P) }, quantiles |-> [P \in PSet |-> IF DInvalid(dc, P) THEN Pow2(P) ELSE DQuantile(dc, P)]])>>)
=============================================================================
