---------------------------- MODULE TraceHuffman ----------------------------
(* impl -> spec: codebooks recorded from the real Huffman trees for LARGE      *)
(* alphabets (up to 90 symbols, Fibonacci / geometric weights: code words      *)
(* longer than 64 bits, whose weights exceed TLC's integers) are checked       *)
(* against the structural laws of Huffman.tla: prefix-freeness, completeness   *)
(* (every internal node has both children, which is the Kraft equality),       *)
(* suffix = reversed prefix, decode-back, and round trips through the bit      *)
(* coders as recorded by the driver.                                           *)
EXTENDS Naturals, Sequences, TLC, Json, IOUtils
H == INSTANCE Huffman
Rec == ndJsonDeserialize(IOEnv.TRACE)
VARIABLE l
Init == l = 1
Next == l <= Len(Rec) /\ l' = l + 1
Spec == Init /\ [][Next]_l
Cur == Rec[IF l <= Len(Rec) THEN l ELSE Len(Rec)]

Rev(s) == [i \in 1..Len(s) |-> s[Len(s) + 1 - i]]
Prefixes(cb) == { SubSeq(cb[i], 1, k) : i \in 1..Len(cb), k \in 0..(Len(cb[1]) + 200) } \* over-approximated below
ProperPrefixes(cb) == UNION { { SubSeq(cb[i], 1, k) : k \in 0..(Len(cb[i]) - 1) } : i \in 1..Len(cb) }
IsPrefixOfSome(u, cb) == \E i \in 1..Len(cb) : H!IsPrefix(u, cb[i])
\* complete: below every internal node (= proper prefix of a code word) both branches are used
Complete(cb) == Len(cb) >= 2 => \A u \in ProperPrefixes(cb) : IsPrefixOfSome(Append(u, 0), cb) /\ IsPrefixOfSome(Append(u, 1), cb)
RecordOK(r) ==
    /\ r.panic = ""
    /\ Len(r.prefix) = r.n /\ Len(r.suffix) = r.n
    /\ H!PrefixFree(r.prefix) /\ Complete(r.prefix)
    /\ \A i \in 1..r.n : r.suffix[i] = Rev(r.prefix[i])
    /\ \A i \in 1..r.n : r.decoded[i] = i - 1
    /\ r.queue_roundtrip /\ r.stack_roundtrip /\ r.rejects_outside
AllOK == l <= Len(Rec) => (RecordOK(Cur) \/ Print(<<"BAD RECORD", l, Cur.name, Cur.panic>>, FALSE))
Accepted == TLCGet("stats").diameter - 1 = Len(Rec)
=============================================================================
