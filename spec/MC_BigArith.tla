---------------------------- MODULE MC_BigArith ----------------------------
(* Exhaustive check that the limb arithmetic of Big.tla agrees with TLC's    *)
(* built-in naturals for all operands below N (with limbs of LB bits, LB     *)
(* small, so that operands have several limbs).                              *)
EXTENDS Big, TLC

CONSTANTS N, K            \* operands 0..N-1, shift amounts 0..K
VARIABLES x, y
vars == <<x, y>>
\* two stages (first x, then y) so that TLC's workers evaluate the laws in parallel; the laws are vacuous until both are chosen
Init == x = N /\ y = N
Next == \/ x = N /\ x' \in 0..(N - 1) /\ y' = y
        \/ x < N /\ y = N /\ y' \in 0..(N - 1) /\ x' = x
Spec == Init /\ [][Next]_vars

F(n) == FromNat(n)
RECURSIVE NatBitLen(_)
NatBitLen(n) == IF n = 0 THEN 0 ELSE 1 + NatBitLen(n \div 2)
RECURSIVE NatChunks(_, _)
NatChunks(n, w) == IF n = 0 THEN <<>> ELSE <<n % 2^w>> \o NatChunks(n \div 2^w, w)

Chosen == x < N /\ y < N
Repr == Chosen => (IsBig(F(x)) /\ ToNat(F(x)) = x /\ (x = 0 <=> F(x) = Zero))
AddOK == Chosen => Add(F(x), F(y)) = F(x + y)
SubOK == (Chosen /\ x >= y) => Sub(F(x), F(y)) = F(x - y)
MulOK == Chosen => Mul(F(x), F(y)) = F(x * y)
MulSmallOK == (Chosen /\ y < Base) => MulSmall(F(x), y) = F(x * y)
CmpLaws == /\ Lt(F(x), F(y)) <=> x < y
           /\ Le(F(x), F(y)) <=> x <= y
           /\ Ge(F(x), F(y)) <=> x >= y
           /\ Gt(F(x), F(y)) <=> x > y
CmpOK == Chosen => CmpLaws
ShiftLaws == \A k \in 0..K : /\ ShlBits(F(x), k) = F(x * 2^k)
                             /\ ShrBits(F(x), k) = F(x \div 2^k)
                             /\ LowBitsB(F(x), k) = F(x % 2^k)
                             /\ Pow2B(k) = F(2^k)
                             /\ BitB(F(x), k) = (x \div 2^k) % 2
ShiftOK == Chosen => ShiftLaws
BitLenOK == Chosen => BitLenB(F(x)) = NatBitLen(x)
DivOK == (Chosen /\ y # 0) => DivMod(F(x), F(y)) = <<F(x \div y), F(x % y)>>
ChunksLaws == \A w \in 1..K : /\ ChunksB(F(x), w) = [i \in DOMAIN NatChunks(x, w) |-> F(NatChunks(x, w)[i])]
                              /\ WordsToBig([i \in 1..Len(ChunksB(F(x), w)) |-> ChunksB(F(x), w)[Len(ChunksB(F(x), w)) + 1 - i]], w) = F(x)
ChunksOK == Chosen => ChunksLaws
=============================================================================
