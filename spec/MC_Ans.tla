------------------------------ MODULE MC_Ans ------------------------------
(* Exhaustive exploration of Ans.tla at small widths + emission of replay   *)
(* cases (one JSON line per reachable coder state) for the Rust harness.    *)
EXTENDS Ans, TLC, Json

CONSTANTS MaxInit,   \* initial states: every word sequence of length <= MaxInit, imported both ways
          MaxBulk    \* explored while Len(bulk) <= MaxBulk
VARIABLE cd
vars == <<cd>>

Init == \E d \in WordSeqs(W, MaxInit) :
            \/ CanImport(d) /\ cd = Import(d)
            \/ cd = FromBinary(d)
Enc == \E P \in Precisions : \E cp \in Slots(P) : cd' = AnsEnc(cd, P, cp[1], cp[2])
Dec == \E P \in Precisions : \E cp \in Slots(P) :
            Hits(cd, P, cp[1], cp[2]) /\ cd' = AnsDec(cd, P, cp[1], cp[2])
Next == Enc \/ Dec
Spec == Init /\ [][Next]_vars
Bound == Len(cd.bulk) <= MaxBulk

TypeInv == TypeOK(cd)
StateInv == Inv(cd)
LawPopAfterPush == PopAfterPush(cd)
LawPushAfterPop == PushAfterPop(cd)
LawDecodeTotal == DecodeTotal(cd)
LawImportExport == ImportExport(cd)
LawSizes == SizesOK(cd)
LawStepBound == StepBound(cd)
LawAppendOnly == AppendOnly(cd)
\* from_binary followed by into_binary is the identity on every word sequence (C04)
LawBinary == \A d \in WordSeqs(W, MaxInit) :
    LET b == FromBinary(d) IN IsBinary(b) /\ ExportBinary(b) = d /\ NumValidBits(b) = W * Len(d) /\ Inv(b)

AllSlotTriples == UNION { { <<P, cp[1], cp[2]>> : cp \in Slots(P) } : P \in Precisions }

\* ---- replay-case emission (always TRUE) ----
EncRow(P, c, p) == LET e == AnsEnc(cd, P, c, p)
                   IN <<P, c, p, e.state, IF Len(e.bulk) > Len(cd.bulk) THEN Last(e.bulk) ELSE Pow2(W)>>
DecRow(P, c, p) == LET e == AnsDec(cd, P, c, p)
                   IN <<P, c, p, e.state, Len(cd.bulk) - Len(e.bulk)>>
Emit == PrintT(<<"CASE", ToJson(
    [k |-> "ans_state", W |-> W, S |-> S, state |-> cd.state, bulk |-> cd.bulk,
     export |-> Export(cd), nwords |-> NumWords(cd), nvb |-> NumValidBits(cd), empty |-> IsEmpty(cd),
     binary |-> IF IsBinary(cd) THEN <<ExportBinary(cd)>> ELSE <<>>,
     enc |-> UNION { { EncRow(P, cp[1], cp[2]) : cp \in Slots(P) } : P \in Precisions },
     dec |-> UNION { { DecRow(P, cp[1], cp[2]) : cp \in { x \in Slots(P) : Hits(cd, P, x[1], x[2]) } } : P \in Precisions }
    ])>>)
=============================================================================
