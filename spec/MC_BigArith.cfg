SPECIFICATION Spec
CONSTANTS
  LB = 2
  N = 300
  K = 7
INVARIANTS Repr AddOK SubOK MulOK MulSmallOK CmpOK ShiftOK BitLenOK DivOK ChunksOK
CHECK_DEADLOCK FALSE
