------------------------------- MODULE BigAns -------------------------------
(* The rANS stack coder of Ans.tla (src/stream/stack.rs) over arbitrary-      *)
(* precision naturals (Big.tla), operator for operator, so that executions    *)
(* of the coder at its real widths (u32/u64 default preset, u16/u32 small     *)
(* preset, u64/u128 ...) can be validated exactly although TLC's integers     *)
(* are 32 bit.  MC_BigEquiv checks that every operator below agrees with its  *)
(* namesake in Ans.tla in every state at small widths (with limbs of 1-3      *)
(* bits, so that multi-limb carries, borrows and shifts are all exercised).   *)
(* States, words, cumulatives and probabilities are Big numbers; W, S and     *)
(* precisions are ordinary integers.                                          *)
EXTENDS Big

CONSTANTS W, S
ASSUME S >= 2 * W /\ W >= 1

Last(s) == s[Len(s)]
Front(s) == SubSeq(s, 1, Len(s) - 1)

ThreshB == Pow2B(S - W)
Coder(st, bk) == [state |-> st, bulk |-> bk]
Empty == Coder(Zero, <<>>)
TypeOK(cd) == IsBig(cd.state) /\ BitLenB(cd.state) <= S /\ \A i \in 1..Len(cd.bulk) : IsBig(cd.bulk[i]) /\ BitLenB(cd.bulk[i]) <= W
Inv(cd) == BitLenB(cd.state) <= S /\ (cd.bulk # <<>> => Ge(cd.state, ThreshB))

Export(cd) == cd.bulk \o ChunksB(cd.state, W)
NumWords(cd) == Len(cd.bulk) + (BitLenB(cd.state) + W - 1) \div W
NumBits(cd) == W * NumWords(cd)
NumValidBits(cd) == W * Len(cd.bulk) + (IF cd.state = Zero THEN 1 ELSE BitLenB(cd.state)) - 1
IsEmpty(cd) == cd.state = Zero

RECURSIVE ReadInit(_, _)
ReadInit(st, d) == IF (IF d = <<>> THEN TRUE ELSE Ge(st, ThreshB)) THEN Coder(st, d)
                   ELSE ReadInit(Add(ShlBits(st, W), Last(d)), Front(d))
CanImport(d) == IF d = <<>> THEN TRUE ELSE Last(d) # Zero
Import(d) == IF d = <<>> THEN Empty
             ELSE IF Len(d) = 1 THEN Coder(Last(d), <<>>)
             ELSE ReadInit(Add(ShlBits(Last(d), W), Last(Front(d))), Front(Front(d)))
FromBinary(d) == ReadInit(One, d)

IsBinary(cd) == cd.state # Zero /\ (BitLenB(cd.state) - 1) % W = 0
ExportBinary(cd) == LET vb == BitLenB(cd.state) - 1
                    IN cd.bulk \o ChunksBn(Sub(cd.state, Pow2B(vb)), W, vb \div W)

Flushes(cd, P, p) == Ge(ShrBits(cd.state, S - P), p)
AnsEnc(cd, P, c, p) ==
    LET fl == Flushes(cd, P, p)
        s1 == IF fl THEN ShrBits(cd.state, W) ELSE cd.state
        b1 == IF fl THEN Append(cd.bulk, LowBitsB(cd.state, W)) ELSE cd.bulk
        qr == DivMod(s1, p)
    IN Coder(Add(Add(LowBitsB(ShlBits(qr[1], P), S), c), qr[2]), b1)

Quantile(cd, P) == LowBitsB(cd.state, P)
Hits(cd, P, c, p) == Ge(Quantile(cd, P), c) /\ Lt(Quantile(cd, P), Add(c, p))
AnsDec(cd, P, c, p) ==
    LET s1 == Add(Mul(ShrBits(cd.state, P), p), Sub(Quantile(cd, P), c))
        refill == Lt(s1, ThreshB) /\ cd.bulk # <<>>
    IN IF refill THEN Coder(Add(ShlBits(s1, W), Last(cd.bulk)), Front(cd.bulk))
       ELSE Coder(s1, cd.bulk)
=============================================================================
