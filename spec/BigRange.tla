------------------------------ MODULE BigRange ------------------------------
(* The range coder of Range.tla (src/stream/queue.rs) over arbitrary-        *)
(* precision naturals (Big.tla), operator for operator, for exact validation *)
(* of executions at the real widths.  lower, range, point, words, sitW,      *)
(* cumulatives and probabilities are Big numbers; W, S, precisions, sitN,    *)
(* pos and lengths are ordinary integers.  MC_BigRangeEquiv checks agreement *)
(* with Range.tla in every encoder / decoder state at small widths.          *)
EXTENDS Big

CONSTANTS W, S
ASSUME S >= 2 * W /\ W >= 1 /\ S % W = 0

K == S - W
NW == S \div W
MB == Pow2B(S)
MaxB == Sub(MB, One)                       \* 2^S - 1
WMaxB == Sub(Pow2B(W), One)
KB == Pow2B(K)
WrapS(x) == LowBitsB(x, S)
Rep(w, n) == [i \in 1..n |-> w]
MinI(a, b) == IF a < b THEN a ELSE b

Enc(lo, ra, n, w, bk) == [lower |-> lo, range |-> ra, sitN |-> n, sitW |-> w, bulk |-> bk]
EncNew == Enc(Zero, MaxB, 0, Zero, <<>>)
EncTypeOK(e) == IsBig(e.lower) /\ BitLenB(e.lower) <= S /\ IsBig(e.range) /\ BitLenB(e.range) <= S /\ e.range # Zero /\ IsBig(e.sitW) /\ BitLenB(e.sitW) <= W
EncInv(e) == /\ Ge(e.range, KB)
             /\ (e.sitN = 0 => Le(Add(e.lower, e.range), MB))
             /\ (e.sitN > 0 => Ge(Add(e.lower, e.range), MB))
             /\ (e.sitN > 0 => Lt(e.sitW, WMaxB))

HeldNoCarry(e) == IF e.sitN = 0 THEN <<>> ELSE <<e.sitW>> \o Rep(WMaxB, e.sitN - 1)
HeldCarry(e) == IF e.sitN = 0 THEN <<>> ELSE <<Add(e.sitW, One)>> \o Rep(Zero, e.sitN - 1)

REnc(e, P, c, p) ==
    LET scale == ShrBits(e.range, P)
        r1 == Mul(scale, p)
        nl == WrapS(Add(e.lower, Mul(scale, c)))
        resolves == e.sitN > 0 /\ Gt(WrapS(Add(nl, r1)), nl)
        carry == Lt(nl, e.lower)
        b1 == IF resolves THEN e.bulk \o (IF carry THEN HeldCarry(e) ELSE HeldNoCarry(e)) ELSE e.bulk
        n1 == IF resolves THEN 0 ELSE e.sitN
        renorm == Lt(r1, KB)
        r2 == IF renorm THEN ShlBits(r1, W) ELSE r1
        lw == ShrBits(nl, K)
        l2 == IF renorm THEN WrapS(ShlBits(nl, W)) ELSE nl
        normalAfter == Gt(WrapS(Add(l2, r2)), l2)
    IN IF ~renorm THEN Enc(l2, r2, n1, e.sitW, b1)
       ELSE IF n1 > 0 THEN Enc(l2, r2, n1 + 1, e.sitW, b1)
       ELSE IF normalAfter THEN Enc(l2, r2, 0, e.sitW, Append(b1, lw))
       ELSE Enc(l2, r2, 1, lw, b1)

IsFresh(e) == e.range = MaxB
SealPoint(e) == WrapS(Add(e.lower, Sub(KB, One)))
SealWords(e) ==
    IF IsFresh(e) THEN <<>> ELSE
    LET point == SealPoint(e)
        held == IF Lt(point, e.lower) THEN HeldCarry(e) ELSE HeldNoCarry(e)
        pw == ShrBits(point, K)
        uw == ShrBits(WrapS(Add(e.lower, e.range)), K)
    IN held \o <<pw>> \o (IF uw = pw THEN Rep(Zero, NW - 1) ELSE <<>>)
Sealed(e) == e.bulk \o SealWords(e)
NumWords(e) == Len(e.bulk) + Len(SealWords(e))
IsEmpty(e) == IsFresh(e) /\ e.bulk = <<>>
EncPos(e) == Len(e.bulk) + e.sitN

Dec(lo, ra, pt, ps, d) == [lower |-> lo, range |-> ra, point |-> pt, pos |-> ps, data |-> d]
WordAt(d, i) == IF i <= Len(d) THEN d[i] ELSE Zero
RECURSIVE ReadPointRec(_, _, _, _)
ReadPointRec(d, pos, n, acc) == IF n = 0 THEN acc ELSE ReadPointRec(d, pos + 1, n - 1, Add(ShlBits(acc, W), WordAt(d, pos + 1)))
ReadPoint(d, pos) == ReadPointRec(d, pos, NW, Zero)
DecNew(d) == Dec(Zero, MaxB, ReadPoint(d, 0), MinI(NW, Len(d)), d)
DecSeek(dc, pos, lo, ra) == Dec(lo, ra, ReadPoint(dc.data, pos), MinI(pos + NW, Len(dc.data)), dc.data)

Offset(dc) == IF Ge(dc.point, dc.lower) THEN Sub(dc.point, dc.lower) ELSE Sub(Add(dc.point, MB), dc.lower)   \* (point - lower) mod 2^S
DecInv(dc) == Lt(Offset(dc), dc.range) /\ Ge(dc.range, KB)
DQuantile(dc, P) == DivMod(Offset(dc), ShrBits(dc.range, P))[1]
DInvalid(dc, P) == Ge(DQuantile(dc, P), Pow2B(P))
DHits(dc, P, c, p) == LET q == DQuantile(dc, P) IN Lt(q, Pow2B(P)) /\ Ge(q, c) /\ Lt(q, Add(c, p))
RDec(dc, P, c, p) ==
    LET scale == ShrBits(dc.range, P)
        l1 == WrapS(Add(dc.lower, Mul(scale, c)))
        r1 == Mul(scale, p)
        renorm == Lt(r1, KB)
    IN IF renorm THEN Dec(WrapS(ShlBits(l1, W)), ShlBits(r1, W),
                          Add(WrapS(ShlBits(dc.point, W)), WordAt(dc.data, dc.pos + 1)),
                          MinI(dc.pos + 1, Len(dc.data)), dc.data)
       ELSE Dec(l1, r1, dc.point, dc.pos, dc.data)
MaybeExhausted(dc) == dc.pos = Len(dc.data) /\ (dc.range = MaxB \/ Lt(Offset(dc), Sub(ShlBits(KB, 1), One)))
=============================================================================
