--------------------------- MODULE TracePySymbol ---------------------------
(* Trace validation of the PYTHON front end's symbol codes                    *)
(* (`constriction.symbol`: StackCoder, QueueEncoder, QueueDecoder with        *)
(* Huffman codebooks; src/pybindings/symbol/).  The specification state is    *)
(* the abstract bit content of the stack coder and of the queue encoder and   *)
(* the unread bits of the queue decoder.  Codebooks are computed by           *)
(* Huffman.tla from the recorded weights (float64 weights are integer-valued, *)
(* float32 weights use the rounded sums of f32 addition); exported words are  *)
(* recorded as their bits, least significant first (W = 32).                  *)
EXTENDS Naturals, Sequences, TLC, Json, IOUtils
H == INSTANCE Huffman

WB == 32
Rec == ndJsonDeserialize(IOEnv.TRACE)
VARIABLES st, qe, qd, l           \* stack content (top = last), queue encoder content, unread bits of the queue decoder
vars == <<st, qe, qd, l>>
Init == st = <<>> /\ qe = <<>> /\ qd = <<>> /\ l = 1

Rev(s) == [i \in 1..Len(s) |-> s[Len(s) + 1 - i]]
Book(e) == IF e.f32 THEN H!CodebookM(e.w, 24) ELSE H!Codebook(e.w)
Word(e) == Book(e)[e.sym + 1]
InAlphabet(e) == e.sym >= 0 /\ e.sym < Len(e.w)
Zeros(s, from) == \A i \in from..Len(s) : s[i] = 0
\* a stack export: content, one terminating 1 bit, zero padding to a whole number of words (the last word is not zero)
StackWords(bits, wb) == /\ Len(wb) = WB * ((Len(bits) + 1 + WB - 1) \div WB)
                        /\ SubSeq(wb, 1, Len(bits)) = bits /\ wb[Len(bits) + 1] = 1 /\ Zeros(wb, Len(bits) + 2)
\* a queue export: content and zero padding of less than a word
QueueWords(bits, wb) == /\ Len(wb) = WB * ((Len(bits) + WB - 1) \div WB)
                        /\ SubSeq(wb, 1, Len(bits)) = bits /\ Zeros(wb, Len(bits) + 1)
\* importing stack words: everything below the highest set bit of the last word
RECURSIVE HighestOne(_, _)
HighestOne(wb, i) == IF i = 0 THEN 0 ELSE IF wb[i] = 1 THEN i ELSE HighestOne(wb, i - 1)
Imported(wb) == IF wb = <<>> THEN <<>> ELSE SubSeq(wb, 1, HighestOne(wb, Len(wb)) - 1)

Step ==
    /\ l <= Len(Rec)
    /\ l' = l + 1
    /\ LET e == Rec[l] IN
       CASE e.ev = "stack_new" -> st' = <<>> /\ UNCHANGED <<qe, qd>>
         [] e.ev = "stack_from" -> st' = Imported(e.word_bits) /\ UNCHANGED <<qe, qd>>
         [] e.ev = "stack_enc" -> InAlphabet(e) /\ st' = st \o Rev(Word(e)) /\ UNCHANGED <<qe, qd>>
         [] e.ev = "stack_enc_refused" -> ~InAlphabet(e) /\ UNCHANGED <<st, qe, qd>>
         [] e.ev = "stack_dec" -> InAlphabet(e) /\ Len(st) >= Len(Word(e))
                                  /\ Rev(SubSeq(st, Len(st) - Len(Word(e)) + 1, Len(st))) = Word(e)
                                  /\ st' = SubSeq(st, 1, Len(st) - Len(Word(e))) /\ UNCHANGED <<qe, qd>>
         [] e.ev = "stack_export" -> StackWords(st, e.word_bits) /\ e.bitrate = Len(st) /\ UNCHANGED <<st, qe, qd>>
         [] e.ev = "queue_new" -> qe' = <<>> /\ UNCHANGED <<st, qd>>
         [] e.ev = "queue_enc" -> InAlphabet(e) /\ qe' = qe \o Word(e) /\ UNCHANGED <<st, qd>>
         [] e.ev = "queue_export" -> QueueWords(qe, e.word_bits) /\ e.bitrate = Len(qe) /\ UNCHANGED <<st, qe, qd>>
         [] e.ev = "queue_decoder" -> qd' = e.word_bits /\ (e.from_encoder => QueueWords(qe, e.word_bits)) /\ UNCHANGED <<st, qe>>
         [] e.ev = "queue_dec" -> InAlphabet(e) /\ Len(qd) >= Len(Word(e)) /\ SubSeq(qd, 1, Len(Word(e))) = Word(e)
                                  /\ qd' = SubSeq(qd, Len(Word(e)) + 1, Len(qd)) /\ UNCHANGED <<st, qe>>
         \* running out of bits is reported only when no codeword is a prefix of what is left
         [] e.ev = "queue_dec_out_of_data" -> (\A i \in 1..Len(e.w) : ~H!IsPrefix(Book(e)[i], qd)) /\ UNCHANGED <<st, qe, qd>>
         [] OTHER -> FALSE
Spec == Init /\ [][Step]_vars
Accepted == IF TLCGet("stats").diameter - 1 = Len(Rec) THEN TRUE
            ELSE Print(<<"REJECTED at event", TLCGet("stats").diameter, Rec[TLCGet("stats").diameter]>>, FALSE)
=============================================================================
