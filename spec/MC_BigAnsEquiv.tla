-------------------------- MODULE MC_BigAnsEquiv --------------------------
(* BigAns.tla (the rANS coder over limb arithmetic, used to validate traces  *)
(* of the real presets) agrees with Ans.tla (the primary specification over  *)
(* TLC's integers) on every operator, in every coder state with a bulk of    *)
(* at most MaxBulk words and for every word sequence of at most MaxInit      *)
(* words, at small widths with limbs of LB bits (LB < W, so that states span *)
(* several limbs and every carry/borrow/shift path of Big.tla is taken).     *)
EXTENDS Naturals, Sequences, TLC

CONSTANTS W, S, LB, MaxBulk, MaxInit
A == INSTANCE Ans
B == INSTANCE BigAns

VARIABLES cd, go
\* all coder states are successors of one initial state, so that TLC's workers evaluate the laws in parallel
Init == cd = A!Empty /\ go = 0
Next == \/ go = 0 /\ go' = 1 /\ cd' \in { A!Coder(st, <<>>) : st \in 0..(2^S - 1) }
        \/ go = 1 /\ go' = 2 /\ cd' \in { A!Coder(cd.state, bk) : bk \in A!WordSeqs(W, MaxBulk) }
Spec == Init /\ [][Next]_<<cd, go>>

F(n) == B!FromNat(n)
FSeq(ws) == [i \in 1..Len(ws) |-> F(ws[i])]
FCoder(c) == B!Coder(F(c.state), FSeq(c.bulk))
bc == FCoder(cd)
Normalised == A!Inv(cd)

Queries == /\ B!Export(bc) = FSeq(A!Export(cd))
           /\ B!NumWords(bc) = A!NumWords(cd)
           /\ B!NumBits(bc) = A!NumBits(cd)
           /\ B!NumValidBits(bc) = A!NumValidBits(cd)
           /\ B!IsEmpty(bc) = A!IsEmpty(cd)
           /\ B!IsBinary(bc) = A!IsBinary(cd)
           /\ (A!IsBinary(cd) => B!ExportBinary(bc) = FSeq(A!ExportBinary(cd)))
           /\ B!Inv(bc) = A!Inv(cd)
           /\ B!TypeOK(bc)
Steps == \A P \in A!Precisions : \A cp \in A!Slots(P) :
           /\ B!Flushes(bc, P, F(cp[2])) = A!Flushes(cd, P, cp[2])
           /\ B!AnsEnc(bc, P, F(cp[1]), F(cp[2])) = FCoder(A!AnsEnc(cd, P, cp[1], cp[2]))
           /\ B!Hits(bc, P, F(cp[1]), F(cp[2])) = A!Hits(cd, P, cp[1], cp[2])
           /\ (A!Hits(cd, P, cp[1], cp[2]) => B!AnsDec(bc, P, F(cp[1]), F(cp[2])) = FCoder(A!AnsDec(cd, P, cp[1], cp[2])))
Imports == go = 0 =>                                     \* evaluated once, in the initial state
           \A d \in A!WordSeqs(W, MaxInit) :
              /\ B!CanImport(FSeq(d)) = A!CanImport(d)
              /\ (A!CanImport(d) => B!Import(FSeq(d)) = FCoder(A!Import(d)))
              /\ B!FromBinary(FSeq(d)) = FCoder(A!FromBinary(d))
=============================================================================
