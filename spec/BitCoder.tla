------------------------------ MODULE BitCoder ------------------------------
(* Bit-level stack and queue coders of src/symbol/mod.rs (`SymbolCoder`,     *)
(* `QueueDecoder`).  W = Word::BITS.                                          *)
(* A coder is [words, cur, mask]: `mask` (mask_last_written) is 0 when the    *)
(* current word holds no bits, otherwise 2^k with bits 0..k of `cur` valid.   *)
(* Bits are 0/1.  Bits(st) is the refinement mapping to the abstract content. *)
EXTENDS Bits

CONSTANT W
Top == Pow2(W - 1)
WMask == Pow2(W)
Coder(ws, c, m) == [words |-> ws, cur |-> c, mask |-> m]
New == Coder(<<>>, 0, 0)

RECURSIVE Log2(_)
Log2(x) == IF x <= 1 THEN 0 ELSE 1 + Log2(x \div 2)
BitAt(x, i) == (x \div Pow2(i)) % 2
WordBits(w, n) == [i \in 1..n |-> BitAt(w, i - 1)]                   \* least significant first
RECURSIVE Flatten(_)
Flatten(ws) == IF ws = <<>> THEN <<>> ELSE WordBits(ws[1], W) \o Flatten(Tail(ws))
NCur(st) == IF st.mask = 0 THEN 0 ELSE Log2(st.mask) + 1              \* number of valid bits in cur
Content(st) == Flatten(st.words) \o WordBits(st.cur, NCur(st))        \* abstract bit sequence, oldest first

TypeOK(st) == /\ st.cur \in 0..(WMask - 1) /\ st.words \in Seq(0..(WMask - 1))
              /\ st.mask \in {0} \cup { Pow2(i) : i \in 0..(W - 1) }
              /\ st.cur < Pow2(NCur(st))                                \* no stray bits above the mask

\* write_bit (identical for stack and queue)
WriteBit(st, b) ==
    LET wm == (st.mask * 2) % WMask
    IN IF wm # 0 THEN Coder(st.words, st.cur + b * wm, wm)
       ELSE Coder(IF st.mask # 0 THEN Append(st.words, st.cur) ELSE st.words, b, 1)
\* stack read_bit: [bit |-> 0/1 or 2 for end of stream, st |-> successor]
EOS == 2
ReadBit(st) ==
    IF st.mask = 0 /\ st.words = <<>> THEN [bit |-> EOS, st |-> st]
    ELSE LET c == IF st.mask = 0 THEN Last(st.words) ELSE st.cur
             ws == IF st.mask = 0 THEN Front(st.words) ELSE st.words
             m == IF st.mask = 0 THEN Top ELSE st.mask
             bit == BitAt(c, Log2(m))
         IN [bit |-> bit, st |-> Coder(ws, c - bit * m, m \div 2)]
BitLength(st) == W * Len(st.words) + NCur(st)
IsEmpty(st) == st.mask = 0 /\ st.words = <<>>

\* stack: into_compressed seals with a 1 bit above the data; from_compressed finds it again
StackExport(st) == LET s == WriteBit(st, 1) IN Append(s.words, s.cur)
CanImport(ws) == IF ws = <<>> THEN TRUE ELSE Last(ws) # 0
StackImport(ws) == IF ws = <<>> THEN New
                   ELSE LET l == Last(ws) e == Pow2(Log2(l))            \* the seal is the HIGHEST set bit
                        IN Coder(Front(ws), l - e, e \div 2)
\* queue: into_compressed just flushes the partial word
QueueExport(st) == IF st.mask # 0 THEN Append(st.words, st.cur) ELSE st.words
\* QueueDecoder over words: read_bit yields the bits of every word, then end of stream
QueueBits(ws) == Flatten(ws)

(***************************************************************************)
(* Laws (C16, C08, C18)                                                      *)
(***************************************************************************)
LawWrite(st) == \A b \in {0, 1} : Content(WriteBit(st, b)) = Append(Content(st), b) /\ TypeOK(WriteBit(st, b))
LawRead(st) == LET r == ReadBit(st) IN
    IF Content(st) = <<>> THEN r.bit = EOS /\ r.st = st
    ELSE r.bit = Last(Content(st)) /\ Content(r.st) = Front(Content(st)) /\ TypeOK(r.st)
LawLen(st) == BitLength(st) = Len(Content(st)) /\ (IsEmpty(st) <=> Content(st) = <<>>)
LawStackReimport(st) == CanImport(StackExport(st)) /\ Content(StackImport(StackExport(st))) = Content(st) /\ StackExport(st) # <<>>
\* queue: the exported words carry the content in order, followed only by zero padding
LawQueueExport(st) == LET q == QueueBits(QueueExport(st)) IN
    /\ SubSeq(q, 1, Len(Content(st))) = Content(st)
    /\ \A i \in (Len(Content(st)) + 1)..Len(q) : q[i] = 0
    /\ Len(q) < Len(Content(st)) + W
\* the stack guard (seal, show, unseal) leaves the content unchanged
GuardDrop(st) == LET s == WriteBit(st, 1) IN ReadBit(s).st
LawGuard(st) == Content(GuardDrop(st)) = Content(st) /\ TypeOK(GuardDrop(st))
=============================================================================
