---------------------------- MODULE TracePyRange ----------------------------
(* Exact trace validation of the PYTHON front end's range coder              *)
(* (`constriction.stream.queue.RangeEncoder / RangeDecoder`,                 *)
(* src/pybindings/stream/queue.rs) against BigRange.tla at W = 32, S = 64    *)
(* with model tables predicted by PyModels.tla.  Observed after every call:  *)
(* the encoder's pos() = (position, (lower, range)), its sealed view         *)
(* get_compressed() and its size queries; from the decoder the decoded       *)
(* symbols and maybe_exhausted().                                            *)
EXTENDS BigRange, TLC, Json, IOUtils
PM == INSTANCE PyModels

Rec == ndJsonDeserialize(IOEnv.TRACE)
VARIABLES e, d, l
vars == <<e, d, l>>
Init == e = EncNew /\ d = DecNew(<<>>) /\ l = 1

RECURSIVE EncAll(_, _)
EncAll(x, items) == IF items = <<>> THEN x
                    ELSE LET sl == PM!Slot(items[1][1], items[1][2])
                         IN EncAll(REnc(x, PM!PyP, FromNat(sl[1]), FromNat(sl[2])), Tail(items))
RECURSIVE DecAll(_, _)
DecAll(x, items) == IF items = <<>> THEN <<TRUE, x>>
                    ELSE IF ~PM!InSupport(items[1][1], items[1][2]) THEN <<FALSE, x>>
                    ELSE LET sl == PM!Slot(items[1][1], items[1][2])
                             cc == FromNat(sl[1])
                             pp == FromNat(sl[2])
                         IN IF DHits(x, PM!PyP, cc, pp) THEN DecAll(RDec(x, PM!PyP, cc, pp), Tail(items)) ELSE <<FALSE, x>>
AllInSupport(items) == \A i \in 1..Len(items) : PM!InSupport(items[i][1], items[i][2])

EncObserved(x, ev) == /\ x.lower = ev.lower /\ x.range = ev.range /\ EncPos(x) = ev.pos
                      /\ ev.words = Sealed(x)
                      /\ ev.num_words = NumWords(x) /\ ev.num_bits = W * NumWords(x) /\ ev.is_empty = IsEmpty(x)
Step ==
    /\ l <= Len(Rec)
    /\ l' = l + 1
    /\ LET ev == Rec[l] IN
       CASE ev.ev = "new" -> e' = EncNew /\ EncObserved(e', ev) /\ UNCHANGED d
         [] ev.ev = "clear" -> e' = EncNew /\ EncObserved(e', ev) /\ UNCHANGED d
         [] ev.ev = "enc" -> AllInSupport(ev.items) /\ e' = EncAll(e, ev.items) /\ EncObserved(e', ev) /\ UNCHANGED d
                             /\ (e'.sitN > 0 => PrintT(<<"HELD", e'.sitN>>))             \* coverage: words held back for a carry
         [] ev.ev = "enc_refused" -> ~AllInSupport(ev.items) /\ e' = e /\ EncObserved(e, ev) /\ UNCHANGED d
         [] ev.ev = "enc_partial" -> AllInSupport(ev.items) /\ ~PM!InSupport(ev.bad[1], ev.bad[2]) /\ (e' = EncAll(e, ev.items) \/ e' = e) /\ EncObserved(e', ev) /\ UNCHANGED d
         [] ev.ev = "clone" -> e' = e /\ EncObserved(e, ev) /\ UNCHANGED d
                               /\ (e.sitN > 0 => PrintT(<<"CLONE-HELD", e.sitN>>))        \* coverage: a clone taken while words are held back
         \* a decoder is created over the sealed words (get_decoder(), or RangeDecoder(get_compressed()))
         [] ev.ev = "decoder" -> e' = e /\ d' = DecNew(Sealed(e)) /\ ev.maybe_exhausted = MaybeExhausted(d')
         \* a decoder over arbitrary words
         [] ev.ev = "decoder_over" -> e' = e /\ d' = DecNew(ev.data) /\ ev.maybe_exhausted = MaybeExhausted(d')
         [] ev.ev = "dec" -> DecAll(d, ev.items)[1] /\ d' = DecAll(d, ev.items)[2] /\ ev.maybe_exhausted = MaybeExhausted(d') /\ UNCHANGED e
         \* decoding garbage may report invalid data (documented), in which case the decoder is where the failing symbol left it
         [] ev.ev = "dec_invalid" -> DInvalid(d, PM!PyP) /\ d' = d /\ UNCHANGED e
         [] ev.ev = "seek" -> ev.target <= Len(d.data) /\ d' = DecSeek(d, ev.target, ev.lower, ev.range) /\ ev.maybe_exhausted = MaybeExhausted(d') /\ UNCHANGED e
         [] ev.ev = "seek_refused" -> ev.target > Len(d.data) /\ d' = d /\ UNCHANGED e
         [] OTHER -> FALSE
Spec == Init /\ [][Step]_vars
StateInv == EncTypeOK(e) /\ EncInv(e)
Accepted == IF TLCGet("stats").diameter - 1 = Len(Rec) THEN TRUE
            ELSE Print(<<"REJECTED at event", TLCGet("stats").diameter, Rec[TLCGet("stats").diameter]>>, FALSE)
=============================================================================
