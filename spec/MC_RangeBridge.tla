--------------------------- MODULE MC_RangeBridge ---------------------------
(* Bridge between Range.tla and the width-independent range-coder core       *)
(* proved with TLAPS (proofs/RangeCore.tla: theorems EncoderSound and        *)
(* DecoderStep).  TLC checks at small widths, in every decoder state that    *)
(* satisfies the decoder invariant and every encoder state that satisfies    *)
(* the encoder invariant, for every slot, that Range.tla's operators compute *)
(* exactly the quantities the theorems speak about:                          *)
(*   off = (point - lower) mod 2^S,  QuantileOf,  NewRange,  NewOff,          *)
(* and the renormalisation by one word (range * B, off * B + next word).     *)
EXTENDS Naturals, Sequences, TLC
CONSTANTS W, S, MaxData
A == INSTANCE Range

Scale(range, N) == range \div N
NewRange(range, N, p) == Scale(range, N) * p
NewOff(off, range, N, c) == off - Scale(range, N) * c
QuantileOf(off, range, N) == off \div Scale(range, N)

VARIABLES kind, lo, d, e
vars == <<kind, lo, d, e>>
Init == kind = "init" /\ lo = 0 /\ d = A!DecNew(<<>>) /\ e = A!EncNew
Next == \/ kind = "init" /\ kind' = "lower" /\ lo' \in 0..(A!M - 1) /\ UNCHANGED <<d, e>>
        \/ kind = "lower" /\ kind' = "dec" /\ UNCHANGED <<lo, e>>
              /\ \E data \in A!WordSeqs(W, MaxData) : \E pos \in 0..Len(data) : \E ra \in A!Pow2(A!K)..(A!M - 1) :
                   d' = A!DecSeek(A!DecNew(data), pos, lo, ra)
        \/ kind = "lower" /\ kind' = "enc" /\ UNCHANGED <<lo, d>>
              /\ \E ra \in A!Pow2(A!K)..(A!M - 1) : \E n \in 0..1 : \E w \in 0..(A!WMax - 1) :
                   e' = A!Enc(lo, ra, n, IF n = 0 THEN 0 ELSE w, <<>>) /\ A!EncInv(e')
Spec == Init /\ [][Next]_vars

Off(x) == A!Wrap(x.point + A!M - x.lower, S)
B == 2^W
T == 2^(S - W)

\* (the IF below is, verbatim, the action Step of proofs/RangeMessage.tla, whose theorem DecoderMessage lifts DecoderStep to
\* unbounded messages: T <= range and off < range in every reachable state)
DecBridge == (kind = "dec" /\ A!DecInv(d)) => \A P \in A!Precisions :
    LET N == 2^P
        off == Off(d)
    IN /\ d.range >= N /\ off < d.range                                   \* hypotheses of the theorems
       /\ A!DQuantile(d, P) = QuantileOf(off, d.range, N)
       /\ \A cp \in A!Slots(P) : A!DHits(d, P, cp[1], cp[2]) =>
            LET n == A!RDec(d, P, cp[1], cp[2])
                r1 == NewRange(d.range, N, cp[2])
                o1 == NewOff(off, d.range, N, cp[1])
                w == A!WordAt(d.data, d.pos + 1)
            IN IF r1 < T THEN n.range = r1 * B /\ Off(n) = o1 * B + w
               ELSE n.range = r1 /\ Off(n) = o1
\* (the conjunct on n.range below is, verbatim, the action StepE of proofs/RangeMessage.tla, whose theorem EncoderMessage shows
\* T <= range <= 2^S for messages of any length)
EncBridge == kind = "enc" => \A P \in A!Precisions : \A cp \in A!Slots(P) :
    LET N == 2^P
        n == A!REnc(e, P, cp[1], cp[2])
        r1 == NewRange(e.range, N, cp[2])
    IN /\ e.range >= N
       /\ n.range = (IF r1 < T THEN r1 * B ELSE r1)
       \* the new interval starts Scale * c above the old one (modulo 2^S, and shifted by one word when renormalising)
       /\ n.lower = (IF r1 < T THEN A!Wrap(A!Wrap(e.lower + Scale(e.range, N) * cp[1], S) * B, S)
                     ELSE A!Wrap(e.lower + Scale(e.range, N) * cp[1], S))
\* Sealing rule (proofs/RangeSeal.tla, theorem SealNormal): in the normal situation the seal is the word pw of the theorem, pinned
\* by NW - 1 zero words exactly when the top word of the upper end equals pw, and the decoder's first point over the sealed
\* words followed by ANY continuation is pw * T + rest with the `rest` the theorem quantifies over
SealBridge == (kind = "enc" /\ e.sitN = 0 /\ ~A!IsFresh(e)) =>
    LET pw == (e.lower + T - 1) \div T
        uw == IF e.lower + e.range = T * B THEN 0 ELSE (e.lower + e.range) \div T
    IN /\ e.range >= T /\ e.lower + e.range <= T * B                                   \* hypotheses of the theorem
       /\ A!SealWords(e) = <<pw>> \o (IF uw = pw THEN [i \in 1..(A!NW - 1) |-> 0] ELSE <<>>)
       /\ \A sfx \in [1..(A!NW - 1) -> 0..A!WMax] :
             A!DecNew(A!SealWords(e) \o sfx).point = (IF uw = pw THEN pw * T ELSE pw * T + A!WordsToNat(sfx, W))
=============================================================================
