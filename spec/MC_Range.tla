----------------------------- MODULE MC_Range -----------------------------
(* Exhaustive exploration of the range encoder over all messages of at      *)
(* most MaxSyms symbols, with the message as ghost history.                 *)
EXTENDS Range, TLC, Json

CONSTANTS MaxSyms, PSet,       \* PSet: the precisions used (subset of 1..W)
          SuffixLen            \* C11: every suffix of exactly this many words is tried (plus all-ones/zeros of all lengths)
VARIABLES e, hist, ref
vars == <<e, hist, ref>>

Init == e = EncNew /\ hist = <<>> /\ ref = RefNew
Encode == \E P \in PSet : \E cp \in Slots(P) :
            /\ Len(hist) < MaxSyms
            /\ e' = REnc(e, P, cp[1], cp[2])
            /\ hist' = Append(hist, <<P, cp[1], cp[2]>>)
            /\ ref' = RefEnc(ref, P, cp[1], cp[2])
Next == Encode
Spec == Init /\ [][Next]_vars

TypeInv == EncTypeOK(e)
StateInv == EncInv(e)
RoundTrip == Decodes(Sealed(e), hist)                                       \* C02
ExhaustedAfter == MaybeExhausted(DecAfter(Sealed(e), hist))                  \* C02 / C18
EmptyMessage == (hist = <<>>) => (Sealed(e) = <<>>)
RefAgree == /\ Sealed(e) = RefSeal(ref)                                      \* C06
            /\ e.range = ref.tr /\ ref.k = Len(e.bulk) + e.sitN
            /\ ref.tl = WordsToNat(e.bulk \o HeldNoCarry(e), W) * M + e.lower
\* While a message is decoded at most NW - 1 words beyond the sealed data enter the decoder's window (the sealed
\* data has at least one word more than the encoder wrote before sealing), and a shorter suffix acts like one padded
\* with zero words; SuffixLen = NW - 1 is therefore already complete, larger values re-check that argument.
SuffixSet == { x \in WordSeqs(W, SuffixLen) : Len(x) = SuffixLen } \cup { Rep(WMax, n) : n \in 0..(NW + 2) } \cup { Rep(0, n) : n \in 0..(NW + 2) }
SuffixOK == \A sfx \in SuffixSet : Decodes(Sealed(e) \o sfx, hist)          \* C11
SuffixOnesZeros == \A n \in 0..(NW + 1) : Decodes(Sealed(e) \o Rep(WMax, n), hist) /\ Decodes(Sealed(e) \o Rep(0, n), hist)
SizesOK == NumWords(e) = Len(Sealed(e)) /\ (IsEmpty(e) <=> Sealed(e) = <<>>) \* C18
WordsBound == Len(Sealed(e)) <= Len(hist) + NW                                \* C12
StepBound == \A P \in PSet : \A cp \in Slots(P) :                            \* C12 per-step lemma
    LET n == REnc(e, P, cp[1], cp[2])
        r1 == Shr(e.range, P) * cp[2]
    IN /\ r1 * Pow2(P) + (Pow2(P) - 1) * cp[2] >= e.range * cp[2]
       /\ Len(n.bulk) + n.sitN <= Len(e.bulk) + e.sitN + 1
       /\ (n.range = r1 \/ n.range = r1 * Pow2(W))
\* a decoder in sync with the encoder sits exactly at the encoder's state (C07)
InSync == LET d == DecAfter(Sealed(e), hist) IN d.lower = e.lower /\ d.range = e.range

RECURSIVE EncAfter(_)
EncAfter(h) == IF h = <<>> THEN EncNew ELSE REnc(EncAfter(Front(h)), Last(h)[1], Last(h)[2], Last(h)[3])
RECURSIVE DecStates(_, _)
DecStates(dc, h) == <<<<dc.lower, dc.range, dc.point, dc.pos>>>> \o
                    (IF h = <<>> THEN <<>> ELSE DecStates(RDec(dc, h[1][1], h[1][2], h[1][3]), Tail(h)))
Boundaries == [i \in 1..(Len(hist) + 1) |-> LET b == EncAfter(SubSeq(hist, 1, i - 1)) IN <<EncPos(b), b.lower, b.range>>]
Classes == [i \in 1..Len(hist) |-> StepClass(EncAfter(SubSeq(hist, 1, i - 1)), hist[i][1], hist[i][2], hist[i][3])]
SealClass == IF IsFresh(e) THEN "seal_fresh"
             ELSE IF e.sitN > 0 THEN (IF SealPoint(e) < e.lower THEN "seal_inverted_carry" ELSE "seal_inverted_nocarry")
             ELSE IF Len(SealWords(e)) >= 2 THEN "seal_two_words" ELSE "seal_one_word"

Emit == PrintT(<<"CASE", ToJson(
    [k |-> "range_hist", W |-> W, S |-> S, hist |-> hist,
     enc |-> <<e.lower, e.range, e.sitN, e.sitW>>, bulk |-> e.bulk, sealed |-> Sealed(e),
     nwords |-> NumWords(e), bounds |-> Boundaries, classes |-> Classes, sealclass |-> SealClass,
     dec |-> DecStates(DecNew(Sealed(e)), hist),
     exhausted |-> MaybeExhausted(DecAfter(Sealed(e), hist))])>>)
=============================================================================
