----------------------------- MODULE MC_Range -----------------------------
(* Exhaustive exploration of the range encoder over all messages of at      *)
(* most MaxSyms symbols, with the message as ghost history.                 *)
EXTENDS Range, TLC, Json

CONSTANTS MaxSyms, PSet,       \* PSet: the precisions used (subset of 1..W)
          SuffixLen            \* C11: every suffix of exactly this many words is tried (plus all-ones/zeros of all lengths)
VARIABLES e, hist, ref
vars == <<e, hist, ref>>

Init == e = EncNew /\ hist = <<>> /\ ref = RefNew
Encode == \E P \in PSet : \E cp \in Slots(P) :
            /\ Len(hist) < MaxSyms
            /\ e' = REnc(e, P, cp[1], cp[2])
            /\ hist' = Append(hist, <<P, cp[1], cp[2]>>)
            /\ ref' = RefEnc(ref, P, cp[1], cp[2])
Next == Encode
Spec == Init /\ [][Next]_vars

TypeInv == EncTypeOK(e)
StateInv == EncInv(e)
RoundTrip == Decodes(Sealed(e), hist)                                       \* C02
ExhaustedAfter == MaybeExhausted(DecAfter(Sealed(e), hist))                  \* C02 / C18
EmptyMessage == (hist = <<>>) => (Sealed(e) = <<>>)
RefAgree == /\ Sealed(e) = RefSeal(ref)                                      \* C06
            /\ e.range = ref.tr /\ ref.k = Len(e.bulk) + e.sitN
            /\ ref.tl = WordsToNat(e.bulk \o HeldNoCarry(e), W) * M + e.lower
\* While a message is decoded at most NW - 1 words beyond the sealed data enter the decoder's window (the sealed
\* data has at least one word more than the encoder wrote before sealing), and a shorter suffix acts like one padded
\* with zero words; SuffixLen = NW - 1 is therefore already complete, larger values re-check that argument.
SuffixSet == { x \in WordSeqs(W, SuffixLen) : Len(x) = SuffixLen } \cup { Rep(WMax, n) : n \in 0..(NW + 2) } \cup { Rep(0, n) : n \in 0..(NW + 2) }
SuffixOK == \A sfx \in SuffixSet : Decodes(Sealed(e) \o sfx, hist)          \* C11
SuffixOnesZeros == \A n \in 0..(NW + 1) : Decodes(Sealed(e) \o Rep(WMax, n), hist) /\ Decodes(Sealed(e) \o Rep(0, n), hist)
SizesOK == NumWords(e) = Len(Sealed(e)) /\ (IsEmpty(e) <=> Sealed(e) = <<>>) \* C18
WordsBound == Len(Sealed(e)) <= Len(hist) + NW                                \* C12
StepBound == \A P \in PSet : \A cp \in Slots(P) :                            \* C12 per-step lemma
    LET n == REnc(e, P, cp[1], cp[2])
        r1 == Shr(e.range, P) * cp[2]
    IN /\ r1 * Pow2(P) + (Pow2(P) - 1) * cp[2] >= e.range * cp[2]
       /\ Len(n.bulk) + n.sitN <= Len(e.bulk) + e.sitN + 1
       /\ (n.range = r1 \/ n.range = r1 * Pow2(W))
\* a decoder in sync with the encoder sits exactly at the encoder's state (C07)
InSync == LET d == DecAfter(Sealed(e), hist) IN d.lower = e.lower /\ d.range = e.range

\* Bridge to theorem CarryStep of spec/proofs/RangeCarry.tla (TLAPS: the encoder with held-back words emits the digits of the
\* arbitrary-precision reference, for all widths and message lengths).  In every reachable state and for every slot the numeric
\* quantities of the theorem are what Range.tla computes: V = value of bulk, Q = B^(sitN - 1), Acc = value of bulk \o held words,
\* and the successor state (V2, n2, w2, l2, r2) is REnc's.
NumAcc(V, n, w, Q, B) == IF n = 0 THEN V ELSE V * (Q * B) + w * Q + (Q - 1)
CarryBridge == \A P \in PSet : \A cp \in Slots(P) :
    LET B == Pow2(W)
        T == Pow2(K)
        V == WordsToNat(e.bulk, W)
        n == e.sitN
        w == e.sitW
        Q == IF n = 0 THEN 1 ELSE B^(n - 1)
        scale == Shr(e.range, P)
        d == scale * cp[1]
        r1 == scale * cp[2]
        nl == (e.lower + d) % M
        carry == e.lower + d >= M
        resolves == n > 0 /\ nl + r1 < M
        A == NumAcc(V, n, w, Q, B)
        V1 == IF resolves THEN (IF carry THEN A + 1 ELSE A) ELSE V
        n1 == IF resolves THEN 0 ELSE n
        renorm == r1 < T
        lw == nl \div T
        l2 == IF renorm THEN (nl * B) % M ELSE nl
        r2 == IF renorm THEN r1 * B ELSE r1
        normalAfter == l2 + r2 < M
        V2 == IF renorm /\ n1 = 0 /\ normalAfter THEN V1 * B + lw ELSE V1
        n2 == IF ~renorm THEN n1 ELSE IF n1 > 0 THEN n1 + 1 ELSE IF normalAfter THEN 0 ELSE 1
        w2 == IF renorm /\ n1 = 0 /\ ~normalAfter THEN lw ELSE w
        x == REnc(e, P, cp[1], cp[2])
    IN /\ M = T * B /\ e.lower < M /\ e.range < M /\ r1 >= 1 /\ d + r1 <= e.range /\ (n = 0 => e.lower + e.range <= M)   \* hypotheses
       /\ WordsToNat(e.bulk \o HeldNoCarry(e), W) = A                       \* Acc is the value of the words incl. the held-back ones
       /\ (n > 0 => WordsToNat(e.bulk \o HeldCarry(e), W) = A + 1)          \* a carry adds one to it
       /\ ref.tl = A * M + e.lower                                          \* RefAgree, as the theorem states it
       /\ x.lower = l2 /\ x.range = r2 /\ x.sitN = n2 /\ (n2 > 0 => x.sitW = w2) /\ WordsToNat(x.bulk, W) = V2
       /\ RefEnc(ref, P, cp[1], cp[2]).tl = (IF renorm THEN (ref.tl + d) * B ELSE ref.tl + d)
\* Bridge to theorem SealInverted of spec/proofs/RangeSeal.tla: in every reachable inverted state the sealed words are the
\* held-back words with / without their carry, the top word pw of the (wrapped) point and the pinning words, exactly as the theorem
\* reads them, and the theorem's hypotheses hold
SealInvBridge == e.sitN > 0 =>
    LET B == Pow2(W)
        T == Pow2(K)
        Q == B^(e.sitN - 1)
        A == NumAcc(WordsToNat(e.bulk, W), e.sitN, e.sitW, Q, B)
        wrap == e.lower + T - 1 >= M
        point == IF wrap THEN e.lower + T - 1 - M ELSE e.lower + T - 1
        pw == point \div T
        uw == (e.lower + e.range - M) \div T
        held == IF wrap THEN HeldCarry(e) ELSE HeldNoCarry(e)
    IN /\ e.lower < M /\ e.range >= T /\ e.range < M /\ e.lower + e.range >= M
       /\ SealWords(e) = held \o <<pw>> \o (IF uw = pw THEN Rep(0, NW - 1) ELSE <<>>)
       /\ WordsToNat(e.bulk \o held, W) = (IF wrap THEN A + 1 ELSE A)
       /\ ref.tl = A * M + e.lower /\ ref.tr = e.range
RECURSIVE EncAfter(_)
EncAfter(h) == IF h = <<>> THEN EncNew ELSE REnc(EncAfter(Front(h)), Last(h)[1], Last(h)[2], Last(h)[3])
RECURSIVE DecStates(_, _)
DecStates(dc, h) == <<<<dc.lower, dc.range, dc.point, dc.pos>>>> \o
                    (IF h = <<>> THEN <<>> ELSE DecStates(RDec(dc, h[1][1], h[1][2], h[1][3]), Tail(h)))
Boundaries == [i \in 1..(Len(hist) + 1) |-> LET b == EncAfter(SubSeq(hist, 1, i - 1)) IN <<EncPos(b), b.lower, b.range>>]
Classes == [i \in 1..Len(hist) |-> StepClass(EncAfter(SubSeq(hist, 1, i - 1)), hist[i][1], hist[i][2], hist[i][3])]
SealClass == IF IsFresh(e) THEN "seal_fresh"
             ELSE IF e.sitN > 0 THEN (IF SealPoint(e) < e.lower THEN "seal_inverted_carry" ELSE "seal_inverted_nocarry")
             ELSE IF Len(SealWords(e)) >= 2 THEN "seal_two_words" ELSE "seal_one_word"

Emit == PrintT(<<"CASE", ToJson(
    [k |-> "range_hist", W |-> W, S |-> S, hist |-> hist,
     enc |-> <<e.lower, e.range, e.sitN, e.sitW>>, bulk |-> e.bulk, sealed |-> Sealed(e),
     nwords |-> NumWords(e), bounds |-> Boundaries, classes |-> Classes, sealclass |-> SealClass,
     dec |-> DecStates(DecNew(Sealed(e)), hist),
     exhausted |-> MaybeExhausted(DecAfter(Sealed(e), hist))])>>)
=============================================================================
