------------------------------- MODULE Bits -------------------------------
(* Shared fixed-width arithmetic for the constriction specifications.       *)
(* All widths are parameters; nothing here depends on them being small.     *)
EXTENDS Naturals, Sequences

Pow2(n) == 2^n
Shr(x, n) == x \div Pow2(n)
LowBits(x, n) == x % Pow2(n)
Wrap(x, bits) == x % Pow2(bits)

Last(s) == s[Len(s)]
Front(s) == SubSeq(s, 1, Len(s) - 1)
Rep(w, n) == [i \in 1..n |-> w]
Rev(s) == [i \in 1..Len(s) |-> s[Len(s) + 1 - i]]

RECURSIVE BitLen(_)
BitLen(x) == IF x = 0 THEN 0 ELSE 1 + BitLen(x \div 2)

(* w-bit chunks of x, least significant first, without leading (most       *)
(* significant) zero chunks; <<>> for x = 0.  This is                       *)
(* `bit_array_to_chunks_truncated(x).rev()` of src/lib.rs.                  *)
RECURSIVE ChunksLE(_, _)
ChunksLE(x, w) == IF x = 0 THEN <<>> ELSE <<x % Pow2(w)>> \o ChunksLE(x \div Pow2(w), w)

(* exactly n chunks, least significant first (zero chunks kept) *)
RECURSIVE ChunksLEn(_, _, _)
ChunksLEn(x, w, n) == IF n = 0 THEN <<>> ELSE <<x % Pow2(w)>> \o ChunksLEn(x \div Pow2(w), w, n - 1)

(* value of a word sequence read most-significant-first *)
RECURSIVE WordsToNat(_, _)
WordsToNat(ws, w) == IF ws = <<>> THEN 0 ELSE WordsToNat(Front(ws), w) * Pow2(w) + Last(ws)

WordSeqs(w, n) == {<<>>} \cup UNION { [1..k -> 0..(Pow2(w) - 1)] : k \in 1..n }

(* All (P, c, p): a symbol with left cumulative c and probability p under   *)
(* a well-formed PRECISION = P model: 1 <= p <= 2^P - 1, c + p <= 2^P.      *)
Slots(P) == { cp \in (0..(Pow2(P) - 1)) \X (1..(Pow2(P) - 1)) : cp[1] + cp[2] <= Pow2(P) }
=============================================================================
