-------------------------------- MODULE Ans --------------------------------
(* Streaming rANS stack coder of src/stream/stack.rs (`AnsCoder`).          *)
(*   W = Word::BITS, S = State::BITS  (S >= 2W; any S, not only multiples)  *)
(* A coder is a record [state |-> 0..2^S-1, bulk |-> Seq(0..2^W-1)].        *)
(* Every public call is one functional operator below; the actions of the   *)
(* MC_/Trace_ modules are built from them.                                  *)
EXTENDS Bits

CONSTANTS W, S
ASSUME S >= 2 * W /\ W >= 1

Words == 0..(Pow2(W) - 1)
Precisions == 1..W                     \* PRECISION <= Probability::BITS <= Word::BITS
Thresh == Pow2(S - W)                  \* state >= Thresh unless bulk is empty

Coder(st, bk) == [state |-> st, bulk |-> bk]
Empty == Coder(0, <<>>)                \* AnsCoder::new()

TypeOK(cd) == cd.state \in 0..(Pow2(S) - 1) /\ cd.bulk \in Seq(Words)
Inv(cd) == cd.state < Pow2(S) /\ (cd.bulk # <<>> => cd.state >= Thresh)

(***************************************************************************)
(* Export / import                                                          *)
(***************************************************************************)
Export(cd) == cd.bulk \o ChunksLE(cd.state, W)           \* into_compressed / get_compressed / iter_compressed
NumWords(cd) == Len(cd.bulk) + Len(ChunksLE(cd.state, W))
NumBits(cd) == W * NumWords(cd)
NumValidBits(cd) == W * Len(cd.bulk) + (IF cd.state = 0 THEN 1 ELSE BitLen(cd.state)) - 1
IsEmpty(cd) == cd.state = 0

\* from_compressed: pops words until the state is normalised (or data is exhausted);
\* data ending in a zero word is refused.
RECURSIVE ReadInit(_, _)
ReadInit(st, d) == IF (IF d = <<>> THEN TRUE ELSE st >= Thresh) THEN Coder(st, d)
                   ELSE ReadInit(st * Pow2(W) + Last(d), Front(d))
CanImport(d) == IF d = <<>> THEN TRUE ELSE Last(d) # 0
Import(d) == IF d = <<>> THEN Empty
             ELSE IF Len(d) = 1 THEN Coder(Last(d), <<>>)
             ELSE \* the loop reads at least one more word after the first before testing
                  LET s2 == Last(d) * Pow2(W) + Last(Front(d))
                  IN ReadInit(s2, Front(Front(d)))

\* from_binary: a marker bit 1 followed by whole words
RECURSIVE ReadBin(_, _)
ReadBin(st, d) == IF (IF d = <<>> THEN TRUE ELSE st >= Thresh) THEN Coder(st, d)
                  ELSE ReadBin(st * Pow2(W) + Last(d), Front(d))
FromBinary(d) == ReadBin(1, d)

\* into_binary / get_binary succeed iff the payload in `state` is a whole number of words
ValidBitsInState(cd) == BitLen(cd.state) - 1          \* -1 for state = 0
IsBinary(cd) == cd.state # 0 /\ (BitLen(cd.state) - 1) % W = 0
ExportBinary(cd) == LET vb == BitLen(cd.state) - 1
                    IN cd.bulk \o ChunksLEn(cd.state - Pow2(vb), W, vb \div W)

(***************************************************************************)
(* Coding steps.  A symbol is represented by its slot (c, p) in a           *)
(* PRECISION = P model: left cumulative c, probability p.                   *)
(***************************************************************************)
Flushes(cd, P, p) == Shr(cd.state, S - P) >= p
AnsEnc(cd, P, c, p) ==
    LET fl == Flushes(cd, P, p)
        s1 == IF fl THEN Shr(cd.state, W) ELSE cd.state
        b1 == IF fl THEN Append(cd.bulk, cd.state % Pow2(W)) ELSE cd.bulk
    IN Coder(Wrap((s1 \div p) * Pow2(P), S) + c + (s1 % p), b1)

Quantile(cd, P) == cd.state % Pow2(P)
Hits(cd, P, c, p) == Quantile(cd, P) >= c /\ Quantile(cd, P) < c + p
AnsDec(cd, P, c, p) ==                          \* only meaningful when Hits(cd,P,c,p)
    LET s1 == Shr(cd.state, P) * p + (Quantile(cd, P) - c)
        refill == s1 < Thresh /\ cd.bulk # <<>>
    IN IF refill THEN Coder(s1 * Pow2(W) + Last(cd.bulk), Front(cd.bulk))
       ELSE Coder(s1, cd.bulk)

(***************************************************************************)
(* Laws (evaluated as state invariants by MC_Ans)                           *)
(***************************************************************************)
\* C01: pop after push is the identity, for every model and precision
PopAfterPush(cd) == \A P \in Precisions : \A cp \in Slots(P) :
    LET e == AnsEnc(cd, P, cp[1], cp[2])
    IN Hits(e, P, cp[1], cp[2]) /\ AnsDec(e, P, cp[1], cp[2]) = cd /\ Inv(e)
\* C04: push after pop is the identity (surjectivity / bits-back)
PushAfterPop(cd) == \A P \in Precisions : \A cp \in Slots(P) :
    Hits(cd, P, cp[1], cp[2]) =>
        LET d == AnsDec(cd, P, cp[1], cp[2])
        IN AnsEnc(d, P, cp[1], cp[2]) = cd /\ Inv(d)
\* C10: decoding is total: every quantile lies in some slot of every model (trivially) and
\* the arithmetic stays in range
DecodeTotal(cd) == \A P \in Precisions : \A cp \in Slots(P) :
    Hits(cd, P, cp[1], cp[2]) => AnsDec(cd, P, cp[1], cp[2]).state < Pow2(S)
\* C01/C18: export and import are mutually inverse on normalised coders
ImportExport(cd) == CanImport(Export(cd)) /\ Import(Export(cd)) = cd
\* C18 sizes
SizesOK(cd) == /\ NumWords(cd) = Len(Export(cd))
               /\ (IsEmpty(cd) <=> Export(cd) = <<>>)
               /\ (IsBinary(cd) => NumValidBits(cd) = W * Len(ExportBinary(cd)))
\* C07: encoding only ever appends to bulk, so the coder at an earlier symbol boundary is (state_k, prefix of bulk of
\* length pos_k): seeking to a recorded (pos, state) puts a decoder exactly into that earlier coder.
AppendOnly(cd) == \A P \in Precisions : \A cp \in Slots(P) :
    LET e == AnsEnc(cd, P, cp[1], cp[2]) IN SubSeq(e.bulk, 1, Len(cd.bulk)) = cd.bulk
\* C12: per-step potential lemma in integer form.  With s1 the state after the optional
\* flush:  state' * p < (s1 + p) * 2^P   (the coder's value grows by at most 2^P/p (1+p/s1))
\* and if the coder holds any word (bulk # <<>> after the step) then s1 >= p * 2^(S-W-P),
\* i.e. p/s1 <= 2^-(S-W-P); at most one word is written per symbol.
StepBound(cd) == \A P \in Precisions : \A cp \in Slots(P) :
    LET p == cp[2]
        fl == Flushes(cd, P, p)
        s1 == IF fl THEN Shr(cd.state, W) ELSE cd.state
        e == AnsEnc(cd, P, cp[1], p)
    IN /\ e.state * p < (s1 + p) * Pow2(P)
       /\ Len(e.bulk) <= Len(cd.bulk) + 1
       /\ (fl => s1 >= p * Pow2(S - W - P))
       /\ (~fl /\ cd.bulk # <<>> => s1 >= p * Pow2(S - W - P))
=============================================================================
