--------------------------- MODULE TraceBigRange ---------------------------
(* Exact trace validation (impl -> spec) of recorded RangeEncoder /          *)
(* RangeDecoder executions at ANY width (the real presets included): the     *)
(* events of TraceRange.tla with big numbers logged as LB-bit limb           *)
(* sequences, validated against BigRange.tla.                                *)
EXTENDS BigRange, TLC, Json, IOUtils

Rec == ndJsonDeserialize(IOEnv.TRACE)
VARIABLES e, d, l
vars == <<e, d, l>>
Init == e = EncNew /\ d = DecNew(<<>>) /\ l = 1

Tail3(s) == SubSeq(s, IF Len(s) > 3 THEN Len(s) - 2 ELSE 1, Len(s))
EncMatches(x, ev) == /\ x.lower = ev.lower /\ x.range = ev.range /\ x.sitN = ev.sitN /\ (x.sitN > 0 => x.sitW = ev.sitW)
                     /\ Len(x.bulk) = ev.bulk_len /\ Tail3(x.bulk) = ev.bulk_tail
DecMatches(x, ev) == x.lower = ev.lower /\ x.range = ev.range /\ x.point = ev.point /\ x.pos = ev.pos
Step ==
    /\ l <= Len(Rec)
    /\ l' = l + 1
    /\ LET ev == Rec[l] IN
       CASE ev.ev = "new" -> e' = EncNew /\ EncMatches(e', ev) /\ UNCHANGED d
         [] ev.ev = "enc" -> e' = REnc(e, ev.P, ev.c, ev.p) /\ EncMatches(e', ev) /\ UNCHANGED d
         [] ev.ev = "enc_impossible" -> e' = e /\ EncMatches(e, ev) /\ UNCHANGED d
         [] ev.ev = "inspect" ->
              /\ e' = e /\ EncMatches(e, ev) /\ UNCHANGED d
              /\ ev.num_words = NumWords(e) /\ ev.is_empty = IsEmpty(e) /\ ev.pos = EncPos(e)
              /\ ev.view_len = Len(Sealed(e)) /\ ev.view_tail = Tail3(Sealed(e))
         [] ev.ev = "seal" ->
              /\ e' = e /\ ev.words_len = Len(Sealed(e)) /\ ev.words_tail = Tail3(Sealed(e))
              /\ d' = DecNew(Sealed(e)) /\ DecMatches(d', ev)
         [] ev.ev = "dec" -> DHits(d, ev.P, ev.c, ev.p) /\ d' = RDec(d, ev.P, ev.c, ev.p) /\ DecMatches(d', ev) /\ UNCHANGED e
                             /\ ev.maybe_exhausted = MaybeExhausted(d')
         [] ev.ev = "seek" -> ev.target <= Len(d.data) /\ d' = DecSeek(d, ev.target, ev.lower, ev.range) /\ DecMatches(d', ev) /\ UNCHANGED e
         [] OTHER -> FALSE
Spec == Init /\ [][Step]_vars
StateInv == EncTypeOK(e) /\ EncInv(e)
Accepted == IF TLCGet("stats").diameter - 1 = Len(Rec) THEN TRUE
            ELSE Print(<<"REJECTED at event", TLCGet("stats").diameter, Rec[TLCGet("stats").diameter]>>, FALSE)
=============================================================================
