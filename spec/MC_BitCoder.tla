---------------------------- MODULE MC_BitCoder ----------------------------
EXTENDS BitCoder, TLC, Json
CONSTANTS MaxBits
VARIABLES st, hist          \* hist: a shortest operation history leading to st (hidden from the state by VIEW)
vars == <<st, hist>>
View == st

Init == st = New /\ hist = <<>>
Next == \/ \E b \in {0, 1} : BitLength(st) < MaxBits /\ st' = WriteBit(st, b) /\ hist' = Append(hist, IF b = 0 THEN "w0" ELSE "w1")
        \/ st' = ReadBit(st).st /\ hist' = Append(hist, "r")
        \/ st' = GuardDrop(st) /\ hist' = Append(hist, "g")
        \/ st' = StackImport(StackExport(st)) /\ hist' = Append(hist, "x")
Spec == Init /\ [][Next]_vars

TypeInv == TypeOK(st)
L1 == LawWrite(st)
L2 == LawRead(st)
L3 == LawLen(st)
L4 == LawStackReimport(st)
L5 == LawQueueExport(st)
L6 == LawGuard(st)
\* every word sequence not ending in zero is a legal stack export: import is total on them and export inverts it
L7 == (st = New) => \A ws \in WordSeqs(W, 2) : CanImport(ws) => TypeOK(StackImport(ws)) /\ (ws # <<>> => StackExport(StackImport(ws)) = ws)

Emit == PrintT(<<"CASE", ToJson(
    [k |-> "bits", W |-> W, hist |-> hist, content |-> Content(st), len |-> BitLength(st), empty |-> IsEmpty(st),
     raw |-> <<st.words, st.cur, st.mask>>, sexport |-> StackExport(st), qexport |-> QueueExport(st)])>>)
=============================================================================
