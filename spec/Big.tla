-------------------------------- MODULE Big --------------------------------
(* Arbitrary-precision naturals for TLC (whose integers are 32 bit).         *)
(* A number is a sequence of limbs in base 2^LB, least significant first,    *)
(* without leading (most significant) zero limbs; zero is <<>>.  LB <= 15 so *)
(* that limb products fit TLC's integers.  The coder specifications at the   *)
(* real widths (BigAns, BigRange, BigChain: u32/u64, u64/u128, ...) are      *)
(* written over these operators; MC_BigEquiv checks exhaustively at small    *)
(* widths and small LB that they agree with Naturals and with the primary    *)
(* specifications Ans/Range/Chain.                                           *)
EXTENDS Naturals, Sequences

CONSTANT LB
ASSUME LB \in 1..15
Base == 2^LB

Zero == <<>>
One == <<1>>
Dig(a, i) == IF i <= Len(a) THEN a[i] ELSE 0
MaxI(x, y) == IF x >= y THEN x ELSE y

RECURSIVE NormLen(_, _)
NormLen(a, n) == IF n = 0 THEN 0 ELSE IF a[n] # 0 THEN n ELSE NormLen(a, n - 1)
Norm(a) == SubSeq(a, 1, NormLen(a, Len(a)))
IsBig(a) == /\ a \in Seq(0..(Base - 1))
            /\ (a # <<>> => a[Len(a)] # 0)

RECURSIVE FromNat(_)
FromNat(n) == IF n = 0 THEN <<>> ELSE <<n % Base>> \o FromNat(n \div Base)
RECURSIVE ToNat(_)                      \* only for numbers that fit TLC's integers
ToNat(a) == IF a = <<>> THEN 0 ELSE a[1] + Base * ToNat(Tail(a))

(* comparison: 0 (less), 1 (equal), 2 (greater) *)
RECURSIVE CmpFrom(_, _, _)
CmpFrom(a, b, i) == IF i = 0 THEN 1 ELSE IF a[i] < b[i] THEN 0 ELSE IF a[i] > b[i] THEN 2 ELSE CmpFrom(a, b, i - 1)
Cmp(a, b) == IF Len(a) < Len(b) THEN 0 ELSE IF Len(a) > Len(b) THEN 2 ELSE CmpFrom(a, b, Len(a))
Lt(a, b) == Cmp(a, b) = 0
Le(a, b) == Cmp(a, b) # 2
Ge(a, b) == Cmp(a, b) # 0
Gt(a, b) == Cmp(a, b) = 2

RECURSIVE AddFrom(_, _, _, _, _)
AddFrom(a, b, i, n, cy) ==
    IF i > n THEN (IF cy = 0 THEN <<>> ELSE <<cy>>)
    ELSE LET t == Dig(a, i) + Dig(b, i) + cy IN <<t % Base>> \o AddFrom(a, b, i + 1, n, t \div Base)
Add(a, b) == AddFrom(a, b, 1, MaxI(Len(a), Len(b)), 0)

(* a - b for a >= b *)
RECURSIVE SubFrom(_, _, _, _)
SubFrom(a, b, i, bw) ==
    IF i > Len(a) THEN <<>>
    ELSE LET t == a[i] + Base - Dig(b, i) - bw IN <<t % Base>> \o SubFrom(a, b, i + 1, IF t < Base THEN 1 ELSE 0)
Sub(a, b) == Norm(SubFrom(a, b, 1, 0))

(* a * m for a small m < Base *)
RECURSIVE MulSmallFrom(_, _, _, _)
MulSmallFrom(a, m, i, cy) ==
    IF i > Len(a) THEN (IF cy = 0 THEN <<>> ELSE <<cy>>)
    ELSE LET t == a[i] * m + cy IN <<t % Base>> \o MulSmallFrom(a, m, i + 1, t \div Base)
MulSmall(a, m) == IF m = 0 THEN <<>> ELSE MulSmallFrom(a, m, 1, 0)

ShlLimbs(a, k) == IF a = <<>> THEN <<>> ELSE [i \in 1..k |-> 0] \o a
RECURSIVE MulFrom(_, _, _)
MulFrom(a, b, j) == IF j > Len(b) THEN <<>> ELSE Add(ShlLimbs(MulSmall(a, b[j]), j - 1), MulFrom(a, b, j + 1))
Mul(a, b) == MulFrom(a, b, 1)

(* shifts and masks by an arbitrary number of bits *)
ShlBits(a, k) == ShlLimbs(MulSmall(a, 2^(k % LB)), k \div LB)
ShrBits(a, k) == LET q == k \div LB
                     r == k % LB
                 IN IF Len(a) <= q THEN <<>>
                    ELSE Norm([i \in 1..(Len(a) - q) |-> (a[q + i] \div 2^r) + (Dig(a, q + i + 1) % 2^r) * 2^(LB - r)])
LowBitsB(a, k) == LET q == k \div LB
                      r == k % LB
                  IN IF Len(a) <= q THEN a ELSE Norm(SubSeq(a, 1, q) \o <<a[q + 1] % 2^r>>)
Pow2B(k) == ShlBits(One, k)

RECURSIVE BitLenSmall(_)
BitLenSmall(x) == IF x = 0 THEN 0 ELSE 1 + BitLenSmall(x \div 2)
BitLenB(a) == IF a = <<>> THEN 0 ELSE (Len(a) - 1) * LB + BitLenSmall(a[Len(a)])
BitB(a, i) == (Dig(a, i \div LB + 1) \div 2^(i % LB)) % 2          \* bit i (0 = least significant)

(* <<a div b, a mod b>> for b # 0: binary long division *)
RECURSIVE DivStep(_, _, _, _, _)
DivStep(a, b, i, q, r) ==
    IF i = 0 THEN <<q, r>>
    ELSE LET bit == BitB(a, i - 1)
             r2 == IF bit = 1 THEN Add(ShlBits(r, 1), One) ELSE ShlBits(r, 1)
             ge == Ge(r2, b)
             q2 == IF ge THEN Add(ShlBits(q, 1), One) ELSE ShlBits(q, 1)
         IN DivStep(a, b, i - 1, q2, IF ge THEN Sub(r2, b) ELSE r2)
DivMod(a, b) == DivStep(a, b, BitLenB(a), Zero, Zero)

(* w-bit chunks, least significant first; without / with a fixed number of chunks *)
RECURSIVE ChunksB(_, _)
ChunksB(x, w) == IF x = <<>> THEN <<>> ELSE <<LowBitsB(x, w)>> \o ChunksB(ShrBits(x, w), w)
RECURSIVE ChunksBn(_, _, _)
ChunksBn(x, w, n) == IF n = 0 THEN <<>> ELSE <<LowBitsB(x, w)>> \o ChunksBn(ShrBits(x, w), w, n - 1)
(* value of a sequence of w-bit words read most significant first *)
RECURSIVE WordsToBig(_, _)
WordsToBig(ws, w) == IF ws = <<>> THEN <<>> ELSE Add(ShlBits(WordsToBig(SubSeq(ws, 1, Len(ws) - 1), w), w), ws[Len(ws)])
=============================================================================
