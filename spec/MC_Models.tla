----------------------------- MODULE MC_Models -----------------------------
(* Enumerates constructor inputs, decides acceptance and predicts the exact *)
(* table with FixedPoint.tla, checks the contract on every predicted table  *)
(* and emits one replay case per input.                                      *)
EXTENDS FixedPoint, TLC, Json

CONSTANTS Kind,      \* "fixed" | "uniform" | "fast" | "leaky"
          B, P,      \* probability bits, precision
          MaxLen,    \* longest input sequence
          MaxVal     \* largest entry (fast: weights; leaky: 2^m)
VARIABLES seq
vars == <<seq>>

\* "leakybig": supports of MaxLen symbols, CDF with two steps (0 -> 1/2 at position j, 1/2 -> 1 at position k)
BigPos == { x \in {0, 1, 2, 3, MaxLen \div 4, MaxLen \div 2 - 1, MaxLen \div 2, MaxLen \div 2 + 1, (3 * MaxLen) \div 4,
                   MaxLen - 5, MaxLen - 4, MaxLen - 3, MaxLen - 2} : x >= 0 /\ x <= MaxLen - 2 }
BigK(j, k) == [i \in 1..(MaxLen - 1) |-> IF i - 1 < j THEN 0 ELSE IF i - 1 < k THEN MaxVal \div 2 ELSE MaxVal]
\* "diag": dyadic models (entries are exponents k_i, probabilities 2^k_i summing to 2^P)
DyadicSum(s) == SumSeq([i \in 1..Len(s) |-> Pow2(s[i])])
Refs(n) == { q \in [1..n -> {0, 1, 2, 4}] : SumSeq(q) = 4 }
BigN == { n \in {2, 3, 5, 7, 100, 1000, 4097, Pow2(P) \div 3, Pow2(P) \div 2, Pow2(P) - 1, Pow2(P)} : n >= 2 /\ n <= Pow2(P) }
\* "floatclass": entries are classes of floating point weights
\*   0 zero, 1 one, 2 tiny (1e-30), 3 big (1e30), 4 negative, 5 NaN, 6 +infinity, 7 three
FloatBad(s) == \E i \in 1..Len(s) : s[i] \in {4, 5, 6}
FloatAllZero(s) == \A i \in 1..Len(s) : s[i] = 0
\* documented preconditions of the float constructors: non-negative finite weights with positive finite sum, 2 <= n
FloatMustReject(s) == FloatBad(s) \/ FloatAllZero(s) \/ Len(s) < 2
Entries == IF Kind = "floatclass" THEN 0..7 ELSE IF Kind = "diag" THEN 0..(P - 1) ELSE IF Kind = "fixed" THEN 0..(Pow2(B) - 1) ELSE IF Kind = "leakybig" THEN BigPos ELSE 0..MaxVal
Init == seq = <<>>
Next == \E x \in Entries :
          /\ Len(seq) < (IF Kind = "leakybig" THEN 2 ELSE MaxLen)
          /\ (Kind \in {"leaky", "leakybig"} /\ seq # <<>> => x >= seq[Len(seq)])       \* step CDFs are monotone
          /\ (Kind = "fast" => SumSeq(seq) + x <= MaxVal)
          /\ (Kind = "diag" => DyadicSum(seq) + Pow2(x) <= Pow2(P))
          /\ seq' = Append(seq, x)
Spec == Init /\ [][Next]_vars

IsPow2(x) == x \in { Pow2(i) : i \in 0..12 }

\* the contract holds for every table the specification predicts
PredictedTablesValid ==
    /\ Kind = "fixed" => \A inf \in BOOLEAN : AcceptFixed(seq, inf, P) => Valid(FixedTable(seq, inf, P), P) /\ RoundTrip(FixedTable(seq, inf, P), P)
    /\ Kind = "fast" => (AcceptFast(seq, P) => Valid(FastTable(seq, P), P) /\ RoundTrip(FastTable(seq, P), P))
    /\ Kind = "leaky" => (AcceptLeaky(Len(seq) + 1, P) => Valid(LeakyTable(seq, BitLen(MaxVal) - 1, Len(seq) + 1, 0, P), P))
    /\ Kind = "leakybig" => (Len(seq) = 2 /\ AcceptLeaky(MaxLen, P) => Valid(LeakyTable(BigK(seq[1], seq[2]), BitLen(MaxVal) - 1, MaxLen, 0, P), P))
    /\ Kind = "uniformbig" => \A n \in BigN : (Pow2(P) \div n) >= 1 /\ Pow2(P) - (n - 1) * (Pow2(P) \div n) >= 1
    /\ Kind = "uniform" => \A n \in 2..Pow2(P) : Valid(UniformTable(n, P), P) /\ RoundTrip(UniformTable(n, P), P)

\* Bridge to the unbounded theorem Valid of spec/proofs/LeakyValid.tla (TLAPS): the left cumulatives of FixedPoint.tla are the
\* theorem's  Left(F, D, x, i) = (F * x) div D + i  with F = 2^P - n, x the cumulative numerator and D the denominator, and the
\* numerators satisfy the theorem's hypotheses (nondecreasing, at most D)
PLeft(F, D, x, i) == (F * x) \div D + i
ProofBridge ==
    /\ (Kind = "leaky" /\ Len(seq) >= 1 /\ AcceptLeaky(Len(seq) + 1, P)) =>
          LET n == Len(seq) + 1
              m == BitLen(MaxVal) - 1
          IN \A i \in 1..(n - 1) : /\ LeakyLeft(seq, m, n, P, i) = PLeft(Pow2(P) - n, Pow2(m), seq[i], i)
                                    /\ seq[i] <= Pow2(m) /\ (i > 1 => seq[i - 1] <= seq[i])
    /\ (Kind = "fast" /\ AcceptFast(seq, P)) =>
          \A i \in 0..(Len(seq) - 1) : /\ FastLeft(seq, P, i) = PLeft(Pow2(P) - Len(seq), SumSeq(seq), Prefix(seq, i), i)
                                        /\ Prefix(seq, i) <= Prefix(seq, i + 1) /\ Prefix(seq, i + 1) <= SumSeq(seq)
Rows(tab) == [i \in 1..Len(tab) |-> <<tab[i][1], tab[i][2], tab[i][3]>>]
EmitFixed == Kind = "fixed" => PrintT(<<"CASE", ToJson(
    [k |-> "fixed", B |-> B, P |-> P, probs |-> seq,
     accept |-> AcceptFixed(seq, FALSE, P), table |-> IF AcceptFixed(seq, FALSE, P) THEN Rows(FixedTable(seq, FALSE, P)) ELSE <<>>,
     accept_infer |-> AcceptFixed(seq, TRUE, P), table_infer |-> IF AcceptFixed(seq, TRUE, P) THEN Rows(FixedTable(seq, TRUE, P)) ELSE <<>>])>>)
EmitFast == (Kind = "fast" /\ (IsPow2(SumSeq(seq)) \/ ~AcceptFast(seq, P))) => PrintT(<<"CASE", ToJson(
    [k |-> "fast", B |-> B, P |-> P, weights |-> seq,
     accept |-> AcceptFast(seq, P), table |-> IF AcceptFast(seq, P) THEN Rows(FastTable(seq, P)) ELSE <<>>])>>)
\* Len(seq) = 0 is a support of ONE symbol, which must be refused
EmitLeaky == (Kind = "leaky" /\ Len(seq) >= 0) => PrintT(<<"CASE", ToJson(
    [k |-> "leaky", B |-> B, P |-> P, K |-> seq, m |-> BitLen(MaxVal) - 1, n |-> Len(seq) + 1,
     accept |-> AcceptLeaky(Len(seq) + 1, P),
     table |-> IF AcceptLeaky(Len(seq) + 1, P) THEN Rows(LeakyTable(seq, BitLen(MaxVal) - 1, Len(seq) + 1, 0, P)) ELSE <<>>])>>)
EmitLeakyBig == (Kind = "leakybig" /\ Len(seq) = 2) => PrintT(<<"CASE", ToJson(
    [k |-> "leaky", sparse |-> TRUE, B |-> B, P |-> P, K |-> BigK(seq[1], seq[2]), m |-> BitLen(MaxVal) - 1, n |-> MaxLen,
     accept |-> AcceptLeaky(MaxLen, P),
     table |-> IF AcceptLeaky(MaxLen, P) THEN Rows(LeakyTable(BigK(seq[1], seq[2]), BitLen(MaxVal) - 1, MaxLen, 0, P)) ELSE <<>>])>>)
EmitDiag == (Kind = "diag" /\ Len(seq) >= 2 /\ DyadicSum(seq) = Pow2(P)) => PrintT(<<"CASE", ToJson(
    [k |-> "diag", B |-> B, P |-> P, exps |-> seq, probs |-> [i \in 1..Len(seq) |-> Pow2(seq[i])],
     entropy_num |-> EntropyNum(seq, P),
     refs |-> { [q |-> r, cross_num |-> CrossNum(seq, r, P), kl_num |-> KlNum(seq, r, P),
                 rcross_num |-> IF \A i \in 1..Len(seq) : r[i] > 0 THEN RevCrossNum(seq, r, P) ELSE -1,
                 rkl_num |-> IF \A i \in 1..Len(seq) : r[i] > 0 THEN RevKlNum(seq, r, P) ELSE -1,
                 allpos |-> \A i \in 1..Len(seq) : r[i] > 0] : r \in Refs(Len(seq)) }])>>)
\* textbook identities that the exact values must satisfy (Gibbs: both KL divergences are non-negative)
DiagLaws == (Kind = "diag" /\ Len(seq) >= 2 /\ DyadicSum(seq) = Pow2(P)) =>
    \A r \in Refs(Len(seq)) : KlNum(seq, r, P) >= 0 /\ ((\A i \in 1..Len(seq) : r[i] > 0) => RevKlNum(seq, r, P) >= 0)
EmitFloatClass == (Kind = "floatclass" /\ Len(seq) >= 1) => PrintT(<<"CASE", ToJson(
    [k |-> "floatclass", B |-> B, P |-> P, classes |-> seq, must_reject |-> FloatMustReject(seq), fits |-> Len(seq) + 1 < Pow2(P)])>>)
\* "uniformbig": UniformModel at real probability widths, a sample of ranges n (the whole table is given by ppb and last)
EmitUniformBig == (Kind = "uniformbig" /\ seq = <<>>) => PrintT(<<"CASE", ToJson(
    [k |-> "uniformbig", B |-> B, P |-> P,
     cases |-> { [n |-> n, ppb |-> Pow2(P) \div n, last |-> Pow2(P) - (n - 1) * (Pow2(P) \div n)] : n \in BigN }])>>)
EmitUniform == (Kind = "uniform" /\ seq = <<>>) => PrintT(<<"CASE", ToJson(
    [k |-> "uniform", B |-> B, P |-> P,
     cases |-> [n \in 1..(Pow2(P) + 3) |-> [n |-> n - 1, accept |-> AcceptUniform(n - 1, P),
                 table |-> IF AcceptUniform(n - 1, P) THEN Rows(UniformTable(n - 1, P)) ELSE <<>>]]])>>)
Emit == EmitFixed /\ EmitFast /\ EmitLeaky /\ EmitLeakyBig /\ EmitUniform /\ EmitDiag /\ EmitFloatClass /\ EmitUniformBig
=============================================================================
