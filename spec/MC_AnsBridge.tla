---------------------------- MODULE MC_AnsBridge ----------------------------
(* Bridge between Ans.tla and the width-independent step proved with TLAPS   *)
(* (proofs/AnsCore.tla, proofs/AnsStep.tla: theorems EncodeStep, DecodeStep, *)
(* 470 proof obligations).  The theorems speak about an abstract step over   *)
(* three numbers N, B, K; here TLC checks, in every coder state and for      *)
(* every slot at small widths, that AnsEnc / AnsDec / Flushes of Ans.tla ARE *)
(* that step with N = 2^P, B = 2^W, K = 2^(S-W-P), so that the unbounded     *)
(* theorems apply to the specification the implementation is bound to.       *)
(* The two conjuncts on AnsEnc / AnsDec below are, verbatim, EncCfg / DecCfg *)
(* of proofs/AnsMessage.tla (the step on whole configurations and the        *)
(* end-to-end theorem Message for unbounded messages), and A!Inv is its      *)
(* CfgInv.                                                                   *)
EXTENDS Naturals, Sequences, TLC
CONSTANTS W, S, MaxBulk
A == INSTANCE Ans

\* the abstract step, verbatim from proofs/AnsCore.tla and the LETs of EncodeStep / DecodeStep
Enc(s, N, c, p) == (s \div p) * N + c + (s % p)
Quant(e, N) == e % N
Dec(e, N, c, p) == (e \div N) * p + (Quant(e, N) - c)

VARIABLES cd, stage
Init == cd = A!Empty /\ stage = 0
Next == \/ stage = 0 /\ stage' = 1 /\ cd' \in { A!Coder(st, <<>>) : st \in 0..(2^S - 1) }
        \/ stage = 1 /\ stage' = 2 /\ cd' \in { A!Coder(cd.state, bk) : bk \in A!WordSeqs(W, MaxBulk) }
Spec == Init /\ [][Next]_<<cd, stage>>

Bridge == (stage = 2 /\ A!Inv(cd)) => \A P \in A!Precisions : \A cp \in A!Slots(P) :
    LET N == 2^P
        B == 2^W
        K == 2^(S - W - P)
        c == cp[1]
        p == cp[2]
        nonempty == cd.bulk # <<>>
        \* encoding
        fl == cd.state >= p * (K * B)
        s1 == IF fl THEN cd.state \div B ELSE cd.state
        e == Enc(s1, N, c, p)
        \* decoding (only meaningful when the quantile lies in the slot)
        d1 == Dec(cd.state, N, c, p)
        refill == d1 < K * N /\ nonempty
        dst == IF refill THEN d1 * B + cd.bulk[Len(cd.bulk)] ELSE d1
    IN /\ (K * N) * B = 2^S /\ K * N = A!Thresh /\ N <= B
       /\ A!Flushes(cd, P, p) = fl
       /\ A!AnsEnc(cd, P, c, p) = A!Coder(e, IF fl THEN Append(cd.bulk, cd.state % B) ELSE cd.bulk)
       /\ A!Hits(cd, P, c, p) = (Quant(cd.state, N) >= c /\ Quant(cd.state, N) < c + p)
       /\ (A!Hits(cd, P, c, p) =>
             A!AnsDec(cd, P, c, p) = A!Coder(dst, IF refill THEN SubSeq(cd.bulk, 1, Len(cd.bulk) - 1) ELSE cd.bulk))
=============================================================================
