----------------------------- MODULE AnsMessage -----------------------------
(* Machine-checked (TLAPS) END-TO-END theorem for whole messages, for ALL    *)
(* widths, precisions and message lengths: the step theorem of AnsStep is    *)
(* lifted from numbers to complete coder configurations (state + bulk of     *)
(* flushed words, as in Ans.tla / src/stream/stack.rs), and then to a        *)
(* behaviour that pushes an arbitrary, unbounded sequence of symbols.        *)
(*                                                                           *)
(*   CfgStep   one encoding step keeps the configuration invariant and the   *)
(*             decoding step applied to its result returns EXACTLY the       *)
(*             previous configuration (state and bulk), C01 / C04 / C10;     *)
(*   Message   in every reachable state of the machine that encodes symbol   *)
(*             after symbol, decoding the symbols in reverse order walks     *)
(*             back through every earlier configuration down to the initial  *)
(*             one: `hist` is a ghost record of the configurations before    *)
(*             each push, and the inductive invariant says                   *)
(*                  DecCfg(configuration after push i, symbol i)             *)
(*                        = configuration before push i          for all i.  *)
(*   CfgStepRev, MessageRev   the other direction (bits-back): decoding off  *)
(*             ANY valid configuration and encoding again restores it, for    *)
(*             one symbol and for messages of any length (second half).       *)
(* K, N, B are as in AnsStep (N = 2^PRECISION, B = 2^W, K*N*B = 2^S).         *)
EXTENDS AnsStep, Sequences

CONSTANTS K, N, B, cf0
Cfgs == [state : Nat, bulk : Seq(Nat)]
CfgInv(cf) == /\ cf \in Cfgs
              /\ cf.state < M(K, N, B)
              /\ (cf.bulk # <<>> => cf.state >= T(K, N))
ASSUME Widths == K \in Nat /\ N \in Nat /\ B \in Nat /\ K >= 1 /\ N >= 1 /\ B >= N
ASSUME Start == CfgInv(cf0)

Syms == {cp \in Nat \X Nat : cp[2] >= 1 /\ cp[1] + cp[2] <= N}

EncCfg(cf, c, p) ==
    LET fl == cf.state >= p * L(K, B)
        s1 == IF fl THEN cf.state \div B ELSE cf.state
        b1 == IF fl THEN Append(cf.bulk, cf.state % B) ELSE cf.bulk
    IN [state |-> Enc(s1, N, c, p), bulk |-> b1]

DecCfg(cf, c, p) ==
    LET s1 == Dec(cf.state, N, c, p)
        refill == s1 < T(K, N) /\ cf.bulk # <<>>
    IN IF refill THEN [state |-> s1 * B + cf.bulk[Len(cf.bulk)], bulk |-> SubSeq(cf.bulk, 1, Len(cf.bulk) - 1)]
       ELSE [state |-> s1, bulk |-> cf.bulk]

LEMMA AppendFront == ASSUME NEW s \in Seq(Nat), NEW w \in Nat
                     PROVE /\ Append(s, w) \in Seq(Nat)
                           /\ Append(s, w) # <<>>
                           /\ Append(s, w)[Len(Append(s, w))] = w
                           /\ SubSeq(Append(s, w), 1, Len(Append(s, w)) - 1) = s
  OBVIOUS

THEOREM CfgStep ==
    ASSUME NEW cf, CfgInv(cf), NEW c \in Nat, NEW p \in Nat, p >= 1, c + p <= N
    PROVE  /\ CfgInv(EncCfg(cf, c, p))
           /\ DecCfg(EncCfg(cf, c, p), c, p) = cf
<1> DEFINE st == cf.state
<1> DEFINE ne == cf.bulk # <<>>
<1> DEFINE fl == st >= p * L(K, B)
<1> DEFINE s1 == IF fl THEN st \div B ELSE st
<1> DEFINE word == st % B
<1> DEFINE b1 == IF fl THEN Append(cf.bulk, word) ELSE cf.bulk
<1> DEFINE e == Enc(s1, N, c, p)
<1>0. /\ st \in Nat /\ cf.bulk \in Seq(Nat) /\ cf = [state |-> st, bulk |-> cf.bulk]
      /\ st < M(K, N, B) /\ (ne => st >= T(K, N)) /\ ne \in BOOLEAN
  BY DEF CfgInv, Cfgs
<1>1. /\ e < M(K, N, B)
      /\ (ne \/ fl) => e >= T(K, N)
      /\ Dec(e, N, c, p) = s1
      /\ ((s1 < T(K, N) /\ (ne \/ fl)) <=> fl)
      /\ fl => s1 * B + word = st
  BY <1>0, Widths, EncodeStep
<1>2. B > 0 /\ word \in Nat /\ s1 \in Nat /\ e \in Nat
  <2>1. B > 0
    BY Widths, SMT
  <2>2. word \in Nat /\ st \div B \in Nat
    BY <2>1, <1>0, Widths, DivModFacts
  <2>3. s1 \in Nat
    BY <2>2, <1>0
  <2>4. p > 0 /\ s1 \div p \in Nat /\ s1 % p \in Nat
    BY <2>3, DivModFacts, SMT
  <2>5. (s1 \div p) * N \in Nat
    BY <2>4, Widths, SMT
  <2>6. e \in Nat
    BY <2>4, <2>5, SMT DEF Enc
  <2>7. QED
    BY <2>1, <2>2, <2>3, <2>6
<1>3. EncCfg(cf, c, p) = [state |-> e, bulk |-> b1]
  BY DEF EncCfg
<1>4. b1 \in Seq(Nat) /\ ((b1 # <<>>) <=> (ne \/ fl))
  BY <1>0, <1>2, AppendFront
<1>5. CfgInv(EncCfg(cf, c, p))
  BY <1>1, <1>2, <1>3, <1>4 DEF CfgInv, Cfgs
<1>6. DecCfg(EncCfg(cf, c, p), c, p) = cf
  <2> DEFINE refill == Dec(e, N, c, p) < T(K, N) /\ b1 # <<>>
  <2>1. refill <=> fl
    BY <1>1, <1>4
  <2>2. DecCfg([state |-> e, bulk |-> b1], c, p)
          = IF refill THEN [state |-> Dec(e, N, c, p) * B + b1[Len(b1)], bulk |-> SubSeq(b1, 1, Len(b1) - 1)]
            ELSE [state |-> Dec(e, N, c, p), bulk |-> b1]
    BY DEF DecCfg
  <2>3. CASE fl
    <3>1. b1 = Append(cf.bulk, word)
      BY <2>3
    <3>2. b1[Len(b1)] = word /\ SubSeq(b1, 1, Len(b1) - 1) = cf.bulk
      BY <3>1, <1>0, <1>2, AppendFront
    <3>3. Dec(e, N, c, p) * B + b1[Len(b1)] = st
      BY <3>2, <1>1, <2>3
    <3>4. QED
      BY <2>1, <2>2, <2>3, <3>2, <3>3, <1>0, <1>3
  <2>4. CASE ~fl
    <3>1. b1 = cf.bulk /\ s1 = st
      BY <2>4
    <3>2. QED
      BY <2>1, <2>2, <2>4, <3>1, <1>1, <1>0, <1>3
  <2>5. QED
    BY <2>3, <2>4
<1>7. QED
  BY <1>5, <1>6

-----------------------------------------------------------------------------
(* The machine that encodes a whole message, one symbol per step. *)
VARIABLES cf, hist, syms
vars == <<cf, hist, syms>>

Init == cf = cf0 /\ hist = <<>> /\ syms = <<>>
Push(c, p) == /\ cf' = EncCfg(cf, c, p)
              /\ hist' = Append(hist, cf)
              /\ syms' = Append(syms, <<c, p>>)
Next == \E cp \in Syms : Push(cp[1], cp[2])
Spec == Init /\ [][Next]_vars

After(i) == IF i = Len(hist) THEN cf ELSE hist[i + 1]          \* the configuration after push i
Inv == /\ CfgInv(cf)
       /\ hist \in Seq(Cfgs) /\ syms \in Seq(Syms) /\ Len(hist) = Len(syms)
       /\ (hist = <<>> => cf = cf0) /\ (hist # <<>> => hist[1] = cf0)
       /\ \A i \in 1..Len(hist) : /\ CfgInv(hist[i])
                                   /\ DecCfg(After(i), syms[i][1], syms[i][2]) = hist[i]

THEOREM Message == Spec => []Inv
<1>1. Init => Inv
  BY Start DEF Init, Inv, CfgInv
<1>2. Inv /\ [Next]_vars => Inv'
  <2> SUFFICES ASSUME Inv, [Next]_vars PROVE Inv'
    OBVIOUS
  <2>1. CASE UNCHANGED vars
    BY <2>1 DEF Inv, vars, After
  <2>2. ASSUME NEW cp \in Syms, Push(cp[1], cp[2]) PROVE Inv'
    <3> DEFINE c == cp[1]
    <3> DEFINE p == cp[2]
    <3> DEFINE n == Len(hist)
    <3>0. c \in Nat /\ p \in Nat /\ p >= 1 /\ c + p <= N /\ cp = <<c, p>>
      BY DEF Syms
    <3>1. CfgInv(cf) /\ cf \in Cfgs /\ hist \in Seq(Cfgs) /\ syms \in Seq(Syms) /\ Len(syms) = n /\ n \in Nat
      BY DEF Inv, CfgInv
    <3>2. CfgInv(EncCfg(cf, c, p)) /\ DecCfg(EncCfg(cf, c, p), c, p) = cf
      BY <3>0, <3>1, CfgStep
    <3>3. /\ cf' = EncCfg(cf, c, p) /\ hist' = Append(hist, cf) /\ syms' = Append(syms, cp)
      BY <2>2, <3>0 DEF Push
    <3>4. /\ hist' \in Seq(Cfgs) /\ syms' \in Seq(Syms) /\ Len(hist') = n + 1 /\ Len(syms') = n + 1
          /\ hist'[n + 1] = cf /\ syms'[n + 1] = cp
          /\ \A i \in 1..n : hist'[i] = hist[i] /\ syms'[i] = syms[i]
      BY <3>1, <3>3
    <3>5. (hist' # <<>>) /\ hist'[1] = cf0
      <4>1. CASE n = 0
        BY <4>1, <3>1, <3>4 DEF Inv
      <4>2. CASE n > 0
        BY <4>2, <3>1, <3>4 DEF Inv
      <4>3. QED
        BY <4>1, <4>2, <3>1
    <3>6. ASSUME NEW i \in 1..(n + 1)
          PROVE /\ CfgInv(hist'[i])
                /\ DecCfg(IF i = n + 1 THEN cf' ELSE hist'[i + 1], syms'[i][1], syms'[i][2]) = hist'[i]
      <4>1. CASE i = n + 1
        BY <4>1, <3>0, <3>1, <3>2, <3>3, <3>4
      <4>2. CASE i = n
        <5>1. i \in 1..n /\ After(i) = cf /\ hist'[i + 1] = cf /\ i # n + 1
          BY <4>2, <3>1, <3>4 DEF After
        <5>2. CfgInv(hist[i]) /\ DecCfg(After(i), syms[i][1], syms[i][2]) = hist[i]
          BY <5>1 DEF Inv
        <5>3. QED
          BY <5>1, <5>2, <3>4
      <4>3. CASE i < n
        <5>1. i \in 1..n /\ i + 1 \in 1..n /\ After(i) = hist[i + 1] /\ i # n + 1
          BY <4>3, <3>1 DEF After
        <5>2. CfgInv(hist[i]) /\ DecCfg(After(i), syms[i][1], syms[i][2]) = hist[i]
          BY <5>1 DEF Inv
        <5>3. hist'[i + 1] = hist[i + 1] /\ hist'[i] = hist[i] /\ syms'[i] = syms[i]
          BY <5>1, <3>4
        <5>4. QED
          BY <5>1, <5>2, <5>3
      <4>4. QED
        BY <4>1, <4>2, <4>3, <3>1
    <3>7. QED
      BY <3>2, <3>3, <3>4, <3>5, <3>6 DEF Inv, After
  <2>3. QED
    BY <2>1, <2>2 DEF Next
<1>3. QED
  BY <1>1, <1>2, PTL DEF Spec

-----------------------------------------------------------------------------
(* The OTHER direction (bits-back coding, C01 "decode then encode"): from ANY *)
(* valid configuration -- not only one produced by encoding -- decoding a     *)
(* symbol whose slot contains the quantile and encoding it again returns      *)
(* exactly the configuration one started from (CfgStepRev), and so does a     *)
(* whole message of any length (MessageRev).  Here the words on the bulk must *)
(* be words (< B), because a refilled word becomes part of the state.         *)
CfgInvW(x) == CfgInv(x) /\ \A i \in 1..Len(x.bulk) : x.bulk[i] < B
Hit(x, c, p) == Quant(x.state, N) >= c /\ Quant(x.state, N) < c + p

LEMMA FrontAppend == ASSUME NEW s \in Seq(Nat), s # <<>>
                     PROVE /\ SubSeq(s, 1, Len(s) - 1) \in Seq(Nat)
                           /\ Append(SubSeq(s, 1, Len(s) - 1), s[Len(s)]) = s
                           /\ s[Len(s)] \in Nat /\ Len(s) \in 1..Len(s)
                           /\ Len(SubSeq(s, 1, Len(s) - 1)) = Len(s) - 1
                           /\ \A i \in 1..(Len(s) - 1) : SubSeq(s, 1, Len(s) - 1)[i] = s[i]
  OBVIOUS

THEOREM CfgStepRev ==
    ASSUME NEW x, CfgInvW(x), NEW c \in Nat, NEW p \in Nat, p >= 1, c + p <= N, Hit(x, c, p)
    PROVE  /\ CfgInvW(DecCfg(x, c, p))
           /\ EncCfg(DecCfg(x, c, p), c, p) = x
<1> DEFINE e == x.state
<1> DEFINE ne == x.bulk # <<>>
<1> DEFINE w == IF ne THEN x.bulk[Len(x.bulk)] ELSE 0
<1> DEFINE s1 == Dec(e, N, c, p)
<1> DEFINE refill == s1 < T(K, N) /\ ne
<1> DEFINE st == IF refill THEN s1 * B + w ELSE s1
<1> DEFINE fl == st >= p * L(K, B)
<1> DEFINE d1 == IF refill THEN SubSeq(x.bulk, 1, Len(x.bulk) - 1) ELSE x.bulk
<1>0. /\ e \in Nat /\ x.bulk \in Seq(Nat) /\ x = [state |-> e, bulk |-> x.bulk]
      /\ e < M(K, N, B) /\ (ne => e >= T(K, N)) /\ ne \in BOOLEAN
      /\ \A i \in 1..Len(x.bulk) : x.bulk[i] < B
  BY DEF CfgInvW, CfgInv, Cfgs
<1>1. w \in Nat /\ w < B /\ B > 0
  <2>1. B > 0
    BY Widths, SMT
  <2>2. CASE ne
    BY <2>1, <2>2, <1>0, FrontAppend
  <2>3. CASE ~ne
    BY <2>1, <2>3
  <2>4. QED
    BY <2>2, <2>3
<1>2. Quant(e, N) >= c /\ Quant(e, N) < c + p
  BY DEF Hit
<1>3. /\ st < M(K, N, B)
      /\ (ne /\ ~refill) => st >= T(K, N)
      /\ refill => st >= T(K, N)
      /\ fl <=> refill
      /\ refill => (st % B = w /\ st \div B = s1)
      /\ Enc(s1, N, c, p) = e
  BY <1>0, <1>1, <1>2, Widths, DecodeStep
<1>4. s1 \in Nat /\ st \in Nat
  <2>1. N > 0
    BY Widths, SMT
  <2>2. e \div N \in Nat /\ e % N \in Nat
    BY <2>1, <1>0, Widths, DivModFacts
  <2>3. (e \div N) * p \in Nat /\ Quant(e, N) - c \in Nat
    BY <2>2, <1>2, SMT DEF Quant
  <2>4. s1 \in Nat
    BY <2>3, SMT DEF Dec
  <2>5. s1 * B \in Nat
    BY <2>4, Widths, SMT
  <2>6. QED
    BY <2>4, <2>5, <1>1, SMT
<1>5. DecCfg(x, c, p) = [state |-> st, bulk |-> d1]
  BY DEF DecCfg
<1>6. /\ d1 \in Seq(Nat) /\ \A i \in 1..Len(d1) : d1[i] < B
      /\ (d1 # <<>>) => ne
      /\ refill => Append(d1, w) = x.bulk
  <2>1. CASE refill
    BY <2>1, <1>0, FrontAppend
  <2>2. CASE ~refill
    BY <2>2, <1>0
  <2>3. QED
    BY <2>1, <2>2
<1>7. CfgInvW(DecCfg(x, c, p))
  <2>1. (d1 # <<>>) => st >= T(K, N)
    BY <1>3, <1>6
  <2>2. QED
    BY <2>1, <1>3, <1>4, <1>5, <1>6 DEF CfgInvW, CfgInv, Cfgs
<1>8. EncCfg([state |-> st, bulk |-> d1], c, p)
        = [state |-> Enc(IF fl THEN st \div B ELSE st, N, c, p), bulk |-> IF fl THEN Append(d1, st % B) ELSE d1]
  BY DEF EncCfg
<1>9. CASE refill
  <2>1. fl /\ st \div B = s1 /\ st % B = w /\ Append(d1, w) = x.bulk
    BY <1>9, <1>3, <1>6
  <2>2. EncCfg([state |-> st, bulk |-> d1], c, p) = [state |-> e, bulk |-> x.bulk]
    BY <2>1, <1>8, <1>3
  <2>3. QED
    BY <2>2, <1>0, <1>5, <1>7
<1>10. CASE ~refill
  <2>1. ~fl /\ st = s1 /\ d1 = x.bulk
    BY <1>10, <1>3
  <2>2. EncCfg([state |-> st, bulk |-> d1], c, p) = [state |-> e, bulk |-> x.bulk]
    BY <2>1, <1>8, <1>3
  <2>3. QED
    BY <2>2, <1>0, <1>5, <1>7
<1>11. QED
  BY <1>9, <1>10

(* The machine that decodes a whole message off an arbitrary valid configuration. *)
Pop(c, p) == /\ Hit(cf, c, p)
             /\ cf' = DecCfg(cf, c, p)
             /\ hist' = Append(hist, cf)
             /\ syms' = Append(syms, <<c, p>>)
NextRev == \E cp \in Syms : Pop(cp[1], cp[2])
SpecRev == Init /\ [][NextRev]_vars
ASSUME StartW == CfgInvW(cf0)

InvRev == /\ CfgInvW(cf)
          /\ hist \in Seq(Cfgs) /\ syms \in Seq(Syms) /\ Len(hist) = Len(syms)
          /\ (hist = <<>> => cf = cf0) /\ (hist # <<>> => hist[1] = cf0)
          /\ \A i \in 1..Len(hist) : EncCfg(After(i), syms[i][1], syms[i][2]) = hist[i]

THEOREM MessageRev == SpecRev => []InvRev
<1>1. Init => InvRev
  BY StartW DEF Init, InvRev, CfgInvW, CfgInv
<1>2. InvRev /\ [NextRev]_vars => InvRev'
  <2> SUFFICES ASSUME InvRev, [NextRev]_vars PROVE InvRev'
    OBVIOUS
  <2>1. CASE UNCHANGED vars
    BY <2>1 DEF InvRev, vars, After
  <2>2. ASSUME NEW cp \in Syms, Pop(cp[1], cp[2]) PROVE InvRev'
    <3> DEFINE c == cp[1]
    <3> DEFINE p == cp[2]
    <3> DEFINE n == Len(hist)
    <3>0. c \in Nat /\ p \in Nat /\ p >= 1 /\ c + p <= N /\ cp = <<c, p>>
      BY DEF Syms
    <3>1. CfgInvW(cf) /\ cf \in Cfgs /\ hist \in Seq(Cfgs) /\ syms \in Seq(Syms) /\ Len(syms) = n /\ n \in Nat
      BY DEF InvRev, CfgInvW, CfgInv
    <3>2. CfgInvW(DecCfg(cf, c, p)) /\ EncCfg(DecCfg(cf, c, p), c, p) = cf
      BY <2>2, <3>0, <3>1, CfgStepRev DEF Pop
    <3>3. /\ cf' = DecCfg(cf, c, p) /\ hist' = Append(hist, cf) /\ syms' = Append(syms, cp)
      BY <2>2, <3>0 DEF Pop
    <3>4. /\ hist' \in Seq(Cfgs) /\ syms' \in Seq(Syms) /\ Len(hist') = n + 1 /\ Len(syms') = n + 1
          /\ hist'[n + 1] = cf /\ syms'[n + 1] = cp
          /\ \A i \in 1..n : hist'[i] = hist[i] /\ syms'[i] = syms[i]
      BY <3>1, <3>3
    <3>5. (hist' # <<>>) /\ hist'[1] = cf0
      <4>1. CASE n = 0
        BY <4>1, <3>1, <3>4 DEF InvRev
      <4>2. CASE n > 0
        BY <4>2, <3>1, <3>4 DEF InvRev
      <4>3. QED
        BY <4>1, <4>2, <3>1
    <3>6. ASSUME NEW i \in 1..(n + 1)
          PROVE EncCfg(IF i = n + 1 THEN cf' ELSE hist'[i + 1], syms'[i][1], syms'[i][2]) = hist'[i]
      <4>1. CASE i = n + 1
        BY <4>1, <3>0, <3>1, <3>2, <3>3, <3>4
      <4>2. CASE i = n
        <5>1. i \in 1..n /\ After(i) = cf /\ hist'[i + 1] = cf /\ i # n + 1
          BY <4>2, <3>1, <3>4 DEF After
        <5>2. EncCfg(After(i), syms[i][1], syms[i][2]) = hist[i]
          BY <5>1 DEF InvRev
        <5>3. QED
          BY <5>1, <5>2, <3>4
      <4>3. CASE i < n
        <5>1. i \in 1..n /\ i + 1 \in 1..n /\ After(i) = hist[i + 1] /\ i # n + 1
          BY <4>3, <3>1 DEF After
        <5>2. EncCfg(After(i), syms[i][1], syms[i][2]) = hist[i]
          BY <5>1 DEF InvRev
        <5>3. hist'[i + 1] = hist[i + 1] /\ hist'[i] = hist[i] /\ syms'[i] = syms[i]
          BY <5>1, <3>4
        <5>4. QED
          BY <5>1, <5>2, <5>3
      <4>4. QED
        BY <4>1, <4>2, <4>3, <3>1
    <3>7. QED
      BY <3>2, <3>3, <3>4, <3>5, <3>6 DEF InvRev, After
  <2>3. QED
    BY <2>1, <2>2 DEF NextRev
<1>3. QED
  BY <1>1, <1>2, PTL DEF SpecRev

-----------------------------------------------------------------------------
(* The bulk is append-only while encoding and pop-only while decoding: a     *)
(* word, once flushed, is never modified by later pushes, at most one word   *)
(* is written per symbol, and decoding removes at most the last word (the    *)
(* compressed data below the top is never touched by either operation).      *)
THEOREM BulkDiscipline ==
    ASSUME NEW x \in Cfgs, NEW c \in Nat, NEW p \in Nat
    PROVE  /\ Len(EncCfg(x, c, p).bulk) \in {Len(x.bulk), Len(x.bulk) + 1}
           /\ \A i \in 1..Len(x.bulk) : EncCfg(x, c, p).bulk[i] = x.bulk[i]
           /\ Len(DecCfg(x, c, p).bulk) \in {Len(x.bulk), Len(x.bulk) - 1}
           /\ \A i \in 1..Len(DecCfg(x, c, p).bulk) : DecCfg(x, c, p).bulk[i] = x.bulk[i]
<1>1. x.bulk \in Seq(Nat)
  BY DEF Cfgs
<1>2. /\ Len(EncCfg(x, c, p).bulk) \in {Len(x.bulk), Len(x.bulk) + 1}
      /\ \A i \in 1..Len(x.bulk) : EncCfg(x, c, p).bulk[i] = x.bulk[i]
  BY <1>1 DEF EncCfg
<1> DEFINE db == DecCfg(x, c, p).bulk
<1> DEFINE fr == SubSeq(x.bulk, 1, Len(x.bulk) - 1)
<1>3. db = x.bulk \/ (x.bulk # <<>> /\ db = fr)
  BY DEF DecCfg
<1>4. CASE db = x.bulk
  BY <1>4, <1>1, <1>2
<1>5. CASE x.bulk # <<>> /\ db = fr
  <2>1. Len(fr) = Len(x.bulk) - 1 /\ \A i \in 1..(Len(x.bulk) - 1) : fr[i] = x.bulk[i]
    BY <1>1, <1>5, FrontAppend
  <2>2. Len(db) = Len(x.bulk) - 1 /\ \A i \in 1..Len(db) : db[i] = x.bulk[i]
    BY <2>1, <1>5
  <2>3. QED
    BY <2>2, <1>2
<1>6. QED
  BY <1>3, <1>4, <1>5
=============================================================================
