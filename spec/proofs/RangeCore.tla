----------------------------- MODULE RangeCore -----------------------------
(* Machine-checked (TLAPS) proof, for ALL widths and precisions, of the      *)
(* arithmetic core of the range coder of Range.tla (properties C02 / C10):   *)
(* in terms of the decoder's offset  off = (point - lower) mod 2^S  and the  *)
(* interval width `range`, with N = 2^PRECISION, B = 2^W, T = 2^(S-W):       *)
(*  EncoderSound:  every point inside the sub-interval the encoder selects   *)
(*                 for a symbol (c, p) is mapped by the decoder's quantile   *)
(*                 computation to that symbol, and stays inside the          *)
(*                 interval;                                                 *)
(*  DecoderStep:   a decoder whose offset is inside the interval and whose   *)
(*                 quantile falls into slot (c, p) ends up with an offset    *)
(*                 inside the new interval (before and after the             *)
(*                 renormalisation by one word), and the new interval is     *)
(*                 never empty.                                              *)
(* Working with the offset removes the wrap-around of `lower` (the offset    *)
(* only ever decreases by scale * c <= off).  Range.tla's operators are      *)
(* tied to these formulas by MC_RangeBridge (TLC, small widths).             *)
EXTENDS AnsStep

Scale(range, N) == range \div N
NewRange(range, N, p) == Scale(range, N) * p
NewOff(off, range, N, c) == off - Scale(range, N) * c
QuantileOf(off, range, N) == off \div Scale(range, N)

THEOREM EncoderSound ==
    ASSUME NEW range \in Nat, NEW N \in Nat, N >= 1, range >= N,
           NEW c \in Nat, NEW p \in Nat, p >= 1, c + p <= N,
           NEW t \in Nat, t < NewRange(range, N, p)              \* any point of the selected sub-interval, relative to its start
    PROVE  LET off == Scale(range, N) * c + t                   \* ... relative to the old interval
           IN /\ off < range                                     \* it lies in the old interval
              /\ QuantileOf(off, range, N) >= c                  \* the decoder's quantile falls into the symbol's slot
              /\ QuantileOf(off, range, N) < c + p
              /\ NewOff(off, range, N, c) = t                    \* and the decoder's new offset is the point's position
<1> DEFINE sc == Scale(range, N)
<1> DEFINE off == sc * c + t
<1>0. N > 0 /\ sc \in Nat /\ range = N * sc + (range % N) /\ range % N \in Nat
  BY DivModFacts DEF Scale
<1>1. sc >= 1
  <2>1. range >= 1 * N
    BY SMT
  <2>2. QED
    BY <2>1, <1>0, DivGe DEF Scale
<1>2. sc * c \in Nat /\ sc * p \in Nat /\ sc * N \in Nat /\ off \in Nat
  BY <1>0, SMT
<1>3. t < sc * p
  BY DEF NewRange, Scale
<1>4. sc * c + sc * p = sc * (c + p)
  BY <1>0, SMT
<1>5. sc * (c + p) <= sc * N
  <2>1. N * sc >= (c + p) * sc
    BY <1>0, MulMono
  <2>2. N * sc = sc * N /\ (c + p) * sc = sc * (c + p)
    BY <1>0, SMT
  <2>3. QED
    BY <2>1, <2>2
<1>6. sc * N = N * sc
  BY <1>0, SMT
<1>7. off < range
  <2>1. off < sc * c + sc * p
    BY <1>2, <1>3, SMT
  <2>2. sc * c + sc * p <= N * sc
    BY <1>4, <1>5, <1>6
  <2>3. N * sc <= range /\ N * sc \in Nat
    BY <1>0, SMT
  <2>4. QED
    BY <2>1, <2>2, <2>3, <1>2, SMT
<1>8. off >= c * sc /\ off < (c + p) * sc
  <2>1. c * sc = sc * c /\ (c + p) * sc = sc * (c + p)
    BY <1>0, SMT
  <2>2. QED
    BY <2>1, <1>2, <1>3, <1>4, SMT
<1>9. off \div sc >= c
  <2>1. sc > 0
    BY <1>1, <1>0, SMT
  <2>2. QED
    BY <1>8, <2>1, <1>0, <1>2, DivGe
<1>10. off \div sc < c + p
  <2>1. sc > 0 /\ c + p \in Nat
    BY <1>1, <1>0, SMT
  <2>2. QED
    BY <1>8, <2>1, <1>0, <1>2, DivLt
<1>11. NewOff(off, range, N, c) = t
  BY <1>2, SMT DEF NewOff, Scale
<1>12. QED
  BY <1>7, <1>9, <1>10, <1>11 DEF QuantileOf, Scale

THEOREM DecoderStep ==
    ASSUME NEW range \in Nat, NEW N \in Nat, N >= 1, range >= N,
           NEW off \in Nat, off < range,
           NEW c \in Nat, NEW p \in Nat, p >= 1, c + p <= N,
           QuantileOf(off, range, N) >= c, QuantileOf(off, range, N) < c + p,
           NEW B \in Nat, B >= 1, NEW w \in Nat, w < B            \* the next word, read when renormalising
    PROVE  /\ NewRange(range, N, p) >= 1                          \* the interval never becomes empty
           /\ Scale(range, N) * c <= off                          \* the subtraction cannot underflow
           /\ NewOff(off, range, N, c) < NewRange(range, N, p)    \* the offset stays inside the interval
           /\ NewOff(off, range, N, c) * B + w < NewRange(range, N, p) * B      \* ... also after renormalisation
<1> DEFINE sc == Scale(range, N)
<1> DEFINE q == off \div sc
<1>0. N > 0 /\ sc \in Nat
  BY DivModFacts DEF Scale
<1>1. sc >= 1
  <2>1. range >= 1 * N
    BY SMT
  <2>2. QED
    BY <2>1, <1>0, DivGe DEF Scale
<1>2. off = sc * q + (off % sc) /\ off % sc < sc /\ off % sc \in Nat /\ q \in Nat
  BY <1>0, <1>1, DivModFacts
<1>3. q >= c /\ q < c + p
  BY DEF QuantileOf, Scale
<1>4. sc * p \in Nat /\ sc * c \in Nat /\ sc * q \in Nat
  BY <1>0, <1>2, SMT
<1>5. sc * p >= 1
  <2>1. p * sc >= 1 * sc
    BY <1>0, MulMono
  <2>2. p * sc = sc * p /\ 1 * sc = sc
    BY <1>0, SMT
  <2>3. QED
    BY <2>1, <2>2, <1>0, <1>1, <1>4, SMT
<1>6. sc * c <= sc * q
  <2>1. q * sc >= c * sc
    BY <1>0, <1>2, <1>3, MulMono
  <2>2. q * sc = sc * q /\ c * sc = sc * c
    BY <1>0, <1>2, SMT
  <2>3. QED
    BY <2>1, <2>2
<1>7. sc * q + sc <= sc * (c + p)
  <2>1. q + 1 <= c + p
    BY <1>2, <1>3, SMT
  <2>2. (c + p) * sc >= (q + 1) * sc
    <3>1. q + 1 \in Nat /\ c + p \in Nat /\ c + p >= q + 1
      BY <2>1, <1>2, SMT
    <3>2. QED
      BY <3>1, <1>0, MulMono
  <2>3. (q + 1) * sc = q * sc + sc
    BY <1>0, <1>2, MulSucc
  <2>4. q * sc = sc * q /\ (c + p) * sc = sc * (c + p)
    BY <1>0, <1>2, SMT
  <2>5. QED
    BY <2>2, <2>3, <2>4
<1>8. sc * (c + p) = sc * c + sc * p
  BY <1>0, SMT
<1>9. sc * c <= off
  BY <1>2, <1>4, <1>6, SMT
<1>10. off - sc * c < sc * p
  <2>1. off < sc * q + sc
    BY <1>2, <1>4, <1>0, SMT
  <2>2. sc * q + sc <= sc * c + sc * p
    BY <1>7, <1>8
  <2>3. sc * q + sc \in Nat /\ sc * c + sc * p \in Nat
    BY <1>4, <1>0, SMT
  <2>4. off < sc * c + sc * p
    BY <2>1, <2>2, <2>3, SMT
  <2>5. QED
    BY <2>4, <1>4, <1>9, SMT
<1>11. NewOff(off, range, N, c) = off - sc * c /\ NewRange(range, N, p) = sc * p
  BY DEF NewOff, NewRange, Scale
<1>12. (off - sc * c) * B + w < (sc * p) * B
  <2> DEFINE d == off - sc * c
  <2>1. d \in Nat /\ d + 1 <= sc * p
    BY <1>9, <1>10, <1>4, SMT
  <2>2. (sc * p) * B >= (d + 1) * B
    <3>1. d + 1 \in Nat /\ sc * p \in Nat /\ sc * p >= d + 1
      BY <2>1, <1>4, SMT
    <3>2. QED
      BY <3>1, MulMono
  <2>3. (d + 1) * B = d * B + B
    BY <2>1, MulSucc
  <2>4. d * B \in Nat /\ (sc * p) * B \in Nat
    BY <2>1, <1>4, SMT
  <2>5. d * B + w < d * B + B
    BY <2>4, SMT
  <2>6. d * B + B <= (sc * p) * B
    BY <2>2, <2>3
  <2>7. QED
    BY <2>4, <2>5, <2>6, SMT
<1>13. QED
  BY <1>5, <1>9, <1>10, <1>11, <1>12
=============================================================================
