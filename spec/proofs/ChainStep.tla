----------------------------- MODULE ChainStep -----------------------------
(* Machine-checked (TLAPS) proof, for ALL widths and precisions, of the       *)
(* remainders side of the chain coder of Chain.tla (property C13): decoding   *)
(* a symbol pushes the remainder (q - c) onto the remainders head with an     *)
(* optional flush of one word; encoding the same symbol back pops it again    *)
(* with an optional refill - and the refill happens exactly when the flush    *)
(* happened, restores the head and the quantile, and the head invariant       *)
(* Th <= hr < Th * B is kept.  Th = 2^(S-W-P) (flush threshold Th * B =       *)
(* 2^(S-P)), B = 2^W; nothing uses that they are powers of two.  The          *)
(* compressed side (cutting PRECISION-bit chunks out of words) involves no    *)
(* arithmetic beyond bit slicing and is covered by TLC (StepInverse).         *)
EXTENDS AnsStep

THEOREM RemaindersStep ==
    ASSUME NEW Th \in Nat, NEW B \in Nat, Th >= 1, B >= 1,
           NEW hr \in Nat, hr >= Th, hr < Th * B,                 \* head invariant
           NEW c \in Nat, NEW p \in Nat, p >= 1, p <= B,                 \* p < 2^P <= 2^W = B
           NEW q \in Nat, q >= c, q < c + p                       \* the pulled quantile lies in the slot
    PROVE  LET hr1 == hr * p + (q - c)                            \* ChainDec
               flush == hr1 >= Th * B
               word == hr1 % B
               hr2 == IF flush THEN hr1 \div B ELSE hr1
               refill == hr2 < p * Th                             \* ChainEnc: NeedsRefill
               hr0 == IF refill THEN hr2 * B + word ELSE hr2
           IN /\ hr2 >= Th /\ hr2 < Th * B                        \* invariant kept
              /\ refill <=> flush                                 \* the encoder refills exactly when the decoder flushed
              /\ hr0 = hr1                                        \* ... gets the pre-flush head back
              /\ c + (hr0 % p) = q                                \* ... emits the same quantile
              /\ hr0 \div p = hr                                  \* ... and restores the head
<1> DEFINE hr1 == hr * p + (q - c)
<1> DEFINE flush == hr1 >= Th * B
<1> DEFINE word == hr1 % B
<1> DEFINE hr2 == IF flush THEN hr1 \div B ELSE hr1
<1> DEFINE refill == hr2 < p * Th
<1> DEFINE hr0 == IF refill THEN hr2 * B + word ELSE hr2
<1>0. /\ B > 0 /\ p > 0 /\ Th > 0 /\ q - c \in Nat /\ q - c < p
      /\ hr * p \in Nat /\ hr1 \in Nat /\ Th * B \in Nat /\ p * Th \in Nat /\ Th * p \in Nat /\ p * Th = Th * p
  BY SMT
<1>1. hr1 \div p = hr /\ hr1 % p = q - c
  BY <1>0, DivModUnique
<1>2. hr1 >= Th * p
  <2>1. hr * p >= Th * p
    BY MulMono
  <2>2. QED
    BY <2>1, <1>0, SMT
<1>3. hr1 < (Th * B) * p
  <2>1. hr + 1 <= Th * B
    BY <1>0, SMT
  <2>2. (Th * B) * p >= (hr + 1) * p
    <3>1. hr + 1 \in Nat /\ Th * B \in Nat /\ Th * B >= hr + 1
      BY <2>1, <1>0, SMT
    <3>2. QED
      BY <3>1, MulMono
  <2>3. (hr + 1) * p = hr * p + p
    BY MulSucc
  <2>4. (Th * B) * p \in Nat
    BY <1>0, SMT
  <2>5. QED
    BY <2>2, <2>3, <2>4, <1>0, SMT
<1>4. hr1 = B * (hr1 \div B) + word /\ word < B /\ word \in Nat /\ hr1 \div B \in Nat
  BY <1>0, DivModFacts
<1>5. Th * p <= Th * B
  <2>1. B * Th >= p * Th
    BY MulMono
  <2>2. B * Th = Th * B
    BY SMT
  <2>3. QED
    BY <2>1, <2>2, <1>0
<1>6. CASE flush
  <2>1. hr2 = hr1 \div B /\ hr2 \in Nat
    BY <1>6, <1>4
  <2>2. hr2 >= Th
    BY <1>6, <2>1, <1>0, DivGe
  <2>3. hr2 < Th * p
    <3>1. (Th * B) * p = (Th * p) * B
      BY SMT
    <3>2. hr1 < (Th * p) * B
      BY <1>3, <3>1
    <3>3. QED
      BY <3>2, <2>1, <1>0, DivLt
  <2>4. hr2 < Th * B
    BY <2>3, <2>1, <1>5, <1>0, SMT
  <2>5. refill
    BY <2>3, <1>0
  <2>6. hr0 = hr1
    <3>1. hr0 = hr2 * B + word
      BY <2>5
    <3>2. hr2 * B = B * (hr1 \div B)
      BY <2>1, <1>4, SMT
    <3>3. QED
      BY <3>1, <3>2, <1>4
  <2>7. QED
    BY <1>6, <2>2, <2>4, <2>5, <2>6, <1>1, <1>0, SMT
<1>7. CASE ~flush
  <2>1. hr2 = hr1
    BY <1>7
  <2>2. ~refill
    BY <2>1, <1>2, <1>0, SMT
  <2>3. hr0 = hr1
    BY <2>1, <2>2
  <2>4. hr2 >= Th
    <3>1. Th * p >= Th * 1
      <4>1. p * Th >= 1 * Th
        BY MulMono
      <4>2. 1 * Th = Th * 1
        BY SMT
      <4>3. QED
        BY <4>1, <4>2, <1>0
    <3>2. Th * 1 = Th
      BY SMT
    <3>3. QED
      BY <3>1, <3>2, <2>1, <1>2, <1>0, SMT
  <2>5. hr2 < Th * B
    BY <1>7, <2>1, <1>0, SMT
  <2>6. QED
    BY <1>7, <2>2, <2>3, <2>4, <2>5, <1>1, <1>0, SMT
<1>8. QED
  BY <1>6, <1>7
-----------------------------------------------------------------------------
(* The other direction: ENcoding a symbol onto an arbitrary valid remainders *)
(* head (with an optional refill of one word) and decoding it again restores *)
(* the head and the word, the flush happening exactly when the refill        *)
(* happened - what makes a chain coder's encode-then-decode an identity.     *)
LEMMA LtLe == ASSUME NEW a \in Nat, NEW b \in Nat, NEW d \in Nat, a < b, d >= b PROVE a < d /\ ~(a >= b)
  OBVIOUS

THEOREM RemaindersStepRev ==
    ASSUME NEW Th \in Nat, NEW B \in Nat, Th >= 1, B >= 1,
           NEW hr \in Nat, hr >= Th, hr < Th * B,                 \* head invariant
           NEW c \in Nat, NEW p \in Nat, p >= 1, p <= B,
           NEW w \in Nat, w < B                                   \* the word on top of the remainders bulk (if any)
    PROVE  LET refill == hr < p * Th                              \* ChainEnc: NeedsRefill
               hr0 == IF refill THEN hr * B + w ELSE hr
               q == c + (hr0 % p)                                 \* the quantile pushed onto the compressed side
               hr1 == hr0 \div p
               hd == hr1 * p + (q - c)                            \* ChainDec on the result, pulling q back
               flush == hd >= Th * B
           IN /\ hr1 >= Th /\ hr1 < Th * B                        \* invariant kept
              /\ q >= c /\ q < c + p                              \* the quantile lies in the slot
              /\ hd = hr0
              /\ flush <=> refill                                 \* the decoder flushes exactly when the encoder refilled
              /\ refill => (hd % B = w /\ hd \div B = hr)         \* ... writes back the same word and restores the head
              /\ ~refill => hd = hr
<1> DEFINE refill == hr < p * Th
<1> DEFINE hr0 == IF refill THEN hr * B + w ELSE hr
<1> DEFINE r == hr0 % p
<1> DEFINE q == c + r
<1> DEFINE hr1 == hr0 \div p
<1> DEFINE hd == hr1 * p + (q - c)
<1> DEFINE flush == hd >= Th * B
<1>0. /\ B > 0 /\ p > 0 /\ Th > 0
      /\ hr * B \in Nat /\ Th * B \in Nat /\ p * Th \in Nat /\ Th * p \in Nat /\ p * Th = Th * p
  BY SMT
<1>1. hr0 \in Nat
  BY <1>0
<1>2. hr0 = p * hr1 + r /\ r < p /\ r \in Nat /\ hr1 \in Nat
  BY <1>0, <1>1, DivModFacts
<1>3. hd = hr0 /\ q >= c /\ q < c + p
  <2>1. hr1 * p = p * hr1
    BY <1>2, SMT
  <2>2. q - c = r
    BY <1>2, SMT
  <2>3. QED
    BY <2>1, <2>2, <1>2, SMT
<1>4. Th * p <= Th * B /\ (Th * B) * p \in Nat /\ (Th * B) * p >= Th * B
  <2>1. B * Th >= p * Th
    BY MulMono
  <2>2. B * Th = Th * B
    BY SMT
  <2>3. p * (Th * B) >= 1 * (Th * B)
    BY <1>0, MulMono
  <2>4. p * (Th * B) = (Th * B) * p /\ 1 * (Th * B) = Th * B /\ (Th * B) * p \in Nat
    BY <1>0, SMT
  <2>5. QED
    BY <2>1, <2>2, <2>3, <2>4, <1>0
<1>5. CASE refill
  <2>1. hr0 = hr * B + w
    BY <1>5
  <2>2. hr * B >= Th * B
    BY MulMono
  <2>3. hr0 >= Th * B
    BY <2>1, <2>2, <1>0, SMT
  <2>4. hr0 < (Th * B) * p
    <3>1. hr + 1 <= p * Th /\ hr + 1 \in Nat
      BY <1>5, <1>0, SMT
    <3>2. (p * Th) * B >= (hr + 1) * B
      BY <3>1, <1>0, MulMono
    <3>3. (hr + 1) * B = hr * B + B
      BY MulSucc
    <3>4. (p * Th) * B = (Th * B) * p
      BY SMT
    <3>5. QED
      BY <2>1, <3>2, <3>3, <3>4, <1>0, <1>4, SMT
  <2>5. hr1 < Th * B
    BY <2>4, <1>0, <1>1, DivLt
  <2>6. hr1 >= Th
    <3>1. hr0 >= Th * p
      BY <2>3, <1>4, <1>0, <1>1, SMT
    <3>2. QED
      BY <3>1, <1>0, <1>1, DivGe
  <2>7. (hr * B + w) \div B = hr /\ (hr * B + w) % B = w
    BY <1>0, DivModUnique
  <2>8. QED
    BY <1>5, <2>1, <2>3, <2>5, <2>6, <2>7, <1>3
<1>6. CASE ~refill
  <2>1. hr0 = hr
    BY <1>6
  <2>2. hr >= Th * p
    BY <1>6, <1>0, SMT
  <2>3. hr1 >= Th
    BY <2>1, <2>2, <1>0, DivGe
  <2>4. hr < (Th * B) * p /\ ~(hr >= Th * B)
    BY <1>4, <1>0, LtLe
  <2>5. hr1 < Th * B
    <3>1. hr \div p < Th * B
      BY <2>4, <1>0, DivLt
    <3>2. hr1 = hr \div p
      BY <2>1
    <3>3. QED
      BY <3>1, <3>2
  <2>6. hd = hr /\ ~flush
    BY <2>1, <2>4, <1>3
  <2>7. (flush <=> refill) /\ (refill => (hd % B = w /\ hd \div B = hr)) /\ (~refill => hd = hr)
    BY <1>6, <2>6
  <2>8. QED
    BY <2>1, <2>3, <2>5, <2>7, <1>3
<1>7. QED
  BY <1>5, <1>6
=============================================================================
