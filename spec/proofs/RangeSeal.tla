----------------------------- MODULE RangeSeal -----------------------------
(* Machine-checked (TLAPS) proof, for ALL widths, of the sealing rule of the  *)
(* range encoder in the normal (no word held back) situation - property C11:  *)
(* whatever words follow the sealed data, the decoder's first point lies      *)
(* inside the final interval [lower, lower + range).                          *)
(*   T = 2^(S-W), M = T * B = 2^S (B = 2^W); the seal is the top word         *)
(*   pw = (lower + T - 1) div T of a point inside the interval; if the top    *)
(*   word of the interval's upper end equals pw the remaining NW-1 words of   *)
(*   the decoder's window are pinned to zero, otherwise they may be anything  *)
(*   (`rest`, any number below T).                                            *)
(* This is the rule whose implementation was wrong for State wider than two   *)
(* Words (finding F11: only one pinning word was written); TLC checks the     *)
(* complete rule incl. the inverted situation and the emitted word counts     *)
(* (MC_Range: SuffixOK), MC_RangeBridge ties SealWords to the formulas here.  *)
EXTENDS AnsStep

THEOREM SealNormal ==
    ASSUME NEW T \in Nat, NEW B \in Nat, T >= 1, B >= 1,
           NEW lower \in Nat, NEW range \in Nat, range >= T, lower + range <= T * B,
           NEW rest \in Nat, rest < T
    PROVE  LET pw == (lower + T - 1) \div T
               uw == IF lower + range = T * B THEN 0 ELSE (lower + range) \div T      \* top word of the upper end, as a W-bit word
           IN /\ lower <= pw * T                                                      \* the pinned point is inside the interval
              /\ pw * T < lower + range
              /\ pw < B                                                                \* and pw is a W-bit word
              /\ uw # pw => pw * T + rest < lower + range                              \* without pinning any continuation stays inside
<1> DEFINE pt == lower + T - 1
<1> DEFINE pw == pt \div T
<1> DEFINE up == lower + range
<1>0. T > 0 /\ pt \in Nat /\ up \in Nat /\ T * B \in Nat
  BY SMT
<1>1. pt = T * pw + (pt % T) /\ pt % T < T /\ pt % T \in Nat /\ pw \in Nat
  BY <1>0, DivModFacts
<1>2. pw * T = T * pw /\ pw * T \in Nat
  BY <1>1, SMT
<1>3. lower <= pw * T /\ pw * T <= lower + T - 1
  BY <1>0, <1>1, <1>2, SMT
<1>4. pw * T < up
  BY <1>3, <1>2, <1>0, SMT
<1>5. pw < B
  <2>1. pw * T < B * T
    <3>1. B * T = T * B
      BY SMT
    <3>2. QED
      BY <1>4, <3>1, <1>0, <1>2, SMT
  <2>2. SUFFICES ASSUME pw >= B PROVE FALSE
    BY <1>1, SMT
  <2>3. pw * T >= B * T
    BY <2>2, <1>1, MulMono
  <2>4. B * T \in Nat
    BY SMT
  <2>5. QED
    BY <2>1, <2>3, <2>4, <1>2, SMT
<1>6. ASSUME (IF up = T * B THEN 0 ELSE up \div T) # pw PROVE pw * T + rest < up
  <2>1. (pw + 1) * T = pw * T + T
    BY <1>1, MulSucc
  <2>2. CASE up = T * B
    <3>1. pw + 1 <= B
      BY <1>5, <1>1, SMT
    <3>2. B * T >= (pw + 1) * T
      <4>1. pw + 1 \in Nat /\ B \in Nat /\ B >= pw + 1
        BY <3>1, <1>1, SMT
      <4>2. QED
        BY <4>1, MulMono
    <3>3. B * T = T * B
      BY SMT
    <3>4. QED
      BY <2>1, <2>2, <3>2, <3>3, <1>2, <1>0, SMT
  <2>3. CASE up # T * B
    <3> DEFINE u == up \div T
    <3>1. up = T * u + (up % T) /\ up % T < T /\ up % T \in Nat /\ u \in Nat
      BY <1>0, DivModFacts
    <3>2. u # pw
      BY <1>6, <2>3
    <3>3. u * T = T * u /\ u * T \in Nat
      BY <3>1, SMT
    <3>4. pw <= u
      <4>1. SUFFICES ASSUME pw >= u + 1 PROVE FALSE
        BY <1>1, <3>1, SMT
      <4>2. pw * T >= (u + 1) * T
        <5>1. u + 1 \in Nat
          BY <3>1, SMT
        <5>2. QED
          BY <4>1, <5>1, <1>1, MulMono
      <4>3. (u + 1) * T = u * T + T
        BY <3>1, MulSucc
      <4>4. QED
        BY <4>2, <4>3, <3>1, <3>3, <1>4, <1>2, SMT
    <3>5. pw + 1 <= u
      BY <3>2, <3>4, <3>1, <1>1, SMT
    <3>6. u * T >= (pw + 1) * T
      <4>1. pw + 1 \in Nat /\ u \in Nat /\ u >= pw + 1
        BY <3>5, <3>1, <1>1, SMT
      <4>2. QED
        BY <4>1, MulMono
    <3>7. pw * T + T <= u * T
      BY <2>1, <3>6
    <3>8. u * T <= up
      BY <3>1, <3>3, <1>0, SMT
    <3>9. pw * T + rest < pw * T + T
      BY <1>2, SMT
    <3>10. pw * T + T \in Nat /\ pw * T + rest \in Nat
      BY <1>2, <1>0, SMT
    <3> HIDE DEF pw, u, up, pt
    <3>11. pw * T + rest < u * T
      BY <3>7, <3>9, <3>10, <3>3, <1>1, <3>1, <1>0, SMT
    <3>12. pw * T + rest < up
      BY <3>11, <3>8, <3>10, <3>3, <1>1, <3>1, <1>0, SMT
    <3>13. QED
      BY <3>12
  <2>4. QED
    BY <2>2, <2>3
<1>7. QED
  BY <1>3, <1>4, <1>5, <1>6

(* purely linear facts with fresh constants (no products in the solver's context) *)
LEMMA LinInside == ASSUME NEW x \in Nat, NEW y \in Nat, NEW f \in Nat, NEW t \in Nat, NEW m \in Nat, NEW s \in Nat,
                          y + t <= m, f < t, s >= m
                   PROVE x + y + f < x + s
  BY SMT
LEMMA LinZero == ASSUME NEW k \in Nat, k < 1 PROVE k = 0
  BY SMT
LEMMA LinUp == ASSUME NEW lo \in Nat, NEW t \in Nat, NEW ra \in Nat, NEW m \in Nat, t >= 1, lo + t - 1 >= m, ra >= t
               PROVE lo + ra - m >= 1 /\ lo + ra = m + (lo + ra - m) /\ lo + ra - m \in Nat
  BY SMT
LEMMA LinGe == ASSUME NEW u \in Nat, NEW t \in Nat, ~(u < t) PROVE u >= t
  BY SMT
LEMMA LinLt == ASSUME NEW f \in Nat, NEW t \in Nat, NEW u \in Nat, f < t, u >= t PROVE f < u
  BY SMT
LEMMA LinWrap == ASSUME NEW a \in Nat, NEW m \in Nat, NEW f \in Nat, NEW u \in Nat, NEW lo \in Nat, NEW s \in Nat,
                        lo < m, f < u, s = m + u
                 PROVE a + lo <= a + m + 0 + f /\ a + m + 0 + f < a + s
  BY SMT

(* The inverted situation (words held back, the interval [lower, lower + range) wraps around 2^S): with Acc the value of the   *)
(* written and held-back words (RangeCarry.tla) and tl = Acc * M + lower the start of the reference interval, the sealed data -  *)
(* the held-back words with or without their carry, the top word pw of the (wrapped) point, the pinning zero words if needed -   *)
(* followed by ANY continuation denotes a number inside the reference interval [tl, tl + range).                                 *)
THEOREM SealInverted ==
    ASSUME NEW T \in Nat, NEW B \in Nat, T >= 1, B >= 1,
           NEW lower \in Nat, NEW range \in Nat, lower < T * B, range >= T, range < T * B, lower + range >= T * B,
           NEW A \in Nat, NEW rest \in Nat, rest < T
    PROVE  LET M == T * B
               wrap == lower + T - 1 >= M                                   \* SealPoint(e) < e.lower: the held words take the carry
               point == IF wrap THEN lower + T - 1 - M ELSE lower + T - 1
               pw == point \div T
               uw == (lower + range - M) \div T
               value == (IF wrap THEN A + 1 ELSE A) * M + pw * T + (IF uw = pw THEN 0 ELSE rest)
               tl == A * M + lower
           IN tl <= value /\ value < tl + range /\ pw < B
<1> DEFINE M == T * B
<1> DEFINE wrap == lower + T - 1 >= M
<1> DEFINE point == IF wrap THEN lower + T - 1 - M ELSE lower + T - 1
<1> DEFINE pw == point \div T
<1> DEFINE up == lower + range - M
<1> DEFINE uw == up \div T
<1> DEFINE fill == IF uw = pw THEN 0 ELSE rest
<1>0. T > 0 /\ M \in Nat /\ M > 0 /\ A * M \in Nat /\ up \in Nat /\ point \in Nat /\ fill \in Nat /\ fill < T
  BY SMT
<1>1. point = T * pw + (point % T) /\ point % T < T /\ point % T \in Nat /\ pw \in Nat
  BY <1>0, DivModFacts
<1>2. pw * T = T * pw /\ pw * T \in Nat /\ pw * T <= point /\ point < pw * T + T
  BY <1>1, SMT
<1>3. CASE ~wrap
  <2>1. point = lower + T - 1 /\ point < M
    BY <1>3, <1>0, SMT
  <2>2. lower <= pw * T
    BY <2>1, <1>2, <1>0, SMT
  <2>3. pw < B
    <3>1. pw * T < B * T
      <4>1. B * T = M
        BY SMT
      <4>2. QED
        BY <4>1, <2>1, <1>2, <1>0, SMT
    <3>2. SUFFICES ASSUME pw >= B PROVE FALSE
      BY <1>1, SMT
    <3>3. pw * T >= B * T
      BY <3>2, <1>1, MulMono
    <3>4. B * T \in Nat
      BY SMT
    <3>5. QED
      BY <3>1, <3>3, <3>4, <1>2, SMT
  <2>4. pw * T + T <= M
    <3>1. pw + 1 <= B
      BY <2>3, <1>1, SMT
    <3>2. B * T >= (pw + 1) * T
      <4>1. pw + 1 \in Nat /\ B >= pw + 1
        BY <3>1, <1>1, SMT
      <4>2. QED
        BY <4>1, MulMono
    <3>3. (pw + 1) * T = pw * T + T /\ B * T = M
      BY <1>1, MulSucc, SMT
    <3>4. QED
      BY <3>2, <3>3
  <2>5. A * M + lower <= A * M + pw * T + fill
    BY <2>2, <1>0, <1>2, SMT
  <2>6. A * M + pw * T + fill < A * M + lower + range
    <3>1. A * M + pw * T + fill < A * M + (lower + range)
      <4> DEFINE xx == A * M
      <4> DEFINE yy == pw * T
      <4> DEFINE ss == lower + range
      <4>1. xx \in Nat /\ yy \in Nat /\ fill \in Nat /\ T \in Nat /\ M \in Nat /\ ss \in Nat /\ yy + T <= M /\ fill < T /\ ss >= M
        BY <2>4, <1>0, <1>2
      <4> HIDE DEF xx, yy, ss, fill, M
      <4>2. xx + yy + fill < xx + ss
        BY <4>1, LinInside
      <4>3. QED
        BY <4>2 DEF xx, yy, ss
    <3>2. QED
      BY <3>1, <1>0, SMT
  <2>7. QED
    BY <1>3, <2>3, <2>5, <2>6
<1>4. CASE wrap
  <2>1. point = lower + T - 1 - M /\ point < T
    BY <1>4, <1>0, SMT
  <2>2. pw = 0
    <3>1. pw < 1
      <4>1. point < 1 * T
        BY <2>1, <1>0, SMT
      <4>2. QED
        BY <4>1, <1>0, DivLt
    <3>2. QED
      BY <3>1, <1>1, LinZero
  <2>3. pw * T = 0
    BY <2>2, <1>0, SMT
  <2>4. (A + 1) * M = A * M + M
    BY <1>0, MulSucc
  <2>5. up >= 1 /\ lower + range = M + up
    BY <1>4, <1>0, LinUp
  <2>6. fill < up
    <3>1. CASE uw = pw
      BY <3>1, <2>5
    <3>2. CASE uw # pw
      <4>1. uw \in Nat
        BY <1>0, DivModFacts
      <4>2. uw >= 1
        BY <3>2, <2>2, <4>1, SMT
      <4>3. up >= T
        <5>0. 1 * T = T
          BY SMT
        <5>1. SUFFICES ASSUME up < 1 * T PROVE FALSE
          BY <5>0, <1>0, LinGe
        <5>2. up \div T < 1
          BY <5>1, <1>0, DivLt
        <5>3. uw = 0
          BY <5>2, <4>1, LinZero
        <5>4. QED
          BY <5>3, <4>2
      <4>4. fill = rest
        BY <3>2
      <4>5. QED
        BY <4>3, <4>4, <1>0, LinLt
    <3>3. QED
      BY <3>1, <3>2
  <2>7. A * M + lower <= (A + 1) * M + pw * T + fill
    BY <2>3, <2>4, <1>0, SMT
  <2>8. (A + 1) * M + pw * T + fill < A * M + lower + range
    BY <2>3, <2>4, <2>5, <2>6, <1>0, SMT
  <2>9. pw < B
    BY <2>2, SMT
  <2>10. QED
    BY <1>4, <2>7, <2>8, <2>9
<1>5. QED
  BY <1>3, <1>4
=============================================================================
