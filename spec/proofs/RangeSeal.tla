----------------------------- MODULE RangeSeal -----------------------------
(* Machine-checked (TLAPS) proof, for ALL widths, of the sealing rule of the  *)
(* range encoder in the normal (no word held back) situation - property C11:  *)
(* whatever words follow the sealed data, the decoder's first point lies      *)
(* inside the final interval [lower, lower + range).                          *)
(*   T = 2^(S-W), M = T * B = 2^S (B = 2^W); the seal is the top word         *)
(*   pw = (lower + T - 1) div T of a point inside the interval; if the top    *)
(*   word of the interval's upper end equals pw the remaining NW-1 words of   *)
(*   the decoder's window are pinned to zero, otherwise they may be anything  *)
(*   (`rest`, any number below T).                                            *)
(* This is the rule whose implementation was wrong for State wider than two   *)
(* Words (finding F11: only one pinning word was written); TLC checks the     *)
(* complete rule incl. the inverted situation and the emitted word counts     *)
(* (MC_Range: SuffixOK), MC_RangeBridge ties SealWords to the formulas here.  *)
EXTENDS AnsStep

THEOREM SealNormal ==
    ASSUME NEW T \in Nat, NEW B \in Nat, T >= 1, B >= 1,
           NEW lower \in Nat, NEW range \in Nat, range >= T, lower + range <= T * B,
           NEW rest \in Nat, rest < T
    PROVE  LET pw == (lower + T - 1) \div T
               uw == IF lower + range = T * B THEN 0 ELSE (lower + range) \div T      \* top word of the upper end, as a W-bit word
           IN /\ lower <= pw * T                                                      \* the pinned point is inside the interval
              /\ pw * T < lower + range
              /\ pw < B                                                                \* and pw is a W-bit word
              /\ uw # pw => pw * T + rest < lower + range                              \* without pinning any continuation stays inside
<1> DEFINE pt == lower + T - 1
<1> DEFINE pw == pt \div T
<1> DEFINE up == lower + range
<1>0. T > 0 /\ pt \in Nat /\ up \in Nat /\ T * B \in Nat
  BY SMT
<1>1. pt = T * pw + (pt % T) /\ pt % T < T /\ pt % T \in Nat /\ pw \in Nat
  BY <1>0, DivModFacts
<1>2. pw * T = T * pw /\ pw * T \in Nat
  BY <1>1, SMT
<1>3. lower <= pw * T /\ pw * T <= lower + T - 1
  BY <1>0, <1>1, <1>2, SMT
<1>4. pw * T < up
  BY <1>3, <1>2, <1>0, SMT
<1>5. pw < B
  <2>1. pw * T < B * T
    <3>1. B * T = T * B
      BY SMT
    <3>2. QED
      BY <1>4, <3>1, <1>0, <1>2, SMT
  <2>2. SUFFICES ASSUME pw >= B PROVE FALSE
    BY <1>1, SMT
  <2>3. pw * T >= B * T
    BY <2>2, <1>1, MulMono
  <2>4. B * T \in Nat
    BY SMT
  <2>5. QED
    BY <2>1, <2>3, <2>4, <1>2, SMT
<1>6. ASSUME (IF up = T * B THEN 0 ELSE up \div T) # pw PROVE pw * T + rest < up
  <2>1. (pw + 1) * T = pw * T + T
    BY <1>1, MulSucc
  <2>2. CASE up = T * B
    <3>1. pw + 1 <= B
      BY <1>5, <1>1, SMT
    <3>2. B * T >= (pw + 1) * T
      <4>1. pw + 1 \in Nat /\ B \in Nat /\ B >= pw + 1
        BY <3>1, <1>1, SMT
      <4>2. QED
        BY <4>1, MulMono
    <3>3. B * T = T * B
      BY SMT
    <3>4. QED
      BY <2>1, <2>2, <3>2, <3>3, <1>2, <1>0, SMT
  <2>3. CASE up # T * B
    <3> DEFINE u == up \div T
    <3>1. up = T * u + (up % T) /\ up % T < T /\ up % T \in Nat /\ u \in Nat
      BY <1>0, DivModFacts
    <3>2. u # pw
      BY <1>6, <2>3
    <3>3. u * T = T * u /\ u * T \in Nat
      BY <3>1, SMT
    <3>4. pw <= u
      <4>1. SUFFICES ASSUME pw >= u + 1 PROVE FALSE
        BY <1>1, <3>1, SMT
      <4>2. pw * T >= (u + 1) * T
        <5>1. u + 1 \in Nat
          BY <3>1, SMT
        <5>2. QED
          BY <4>1, <5>1, <1>1, MulMono
      <4>3. (u + 1) * T = u * T + T
        BY <3>1, MulSucc
      <4>4. QED
        BY <4>2, <4>3, <3>1, <3>3, <1>4, <1>2, SMT
    <3>5. pw + 1 <= u
      BY <3>2, <3>4, <3>1, <1>1, SMT
    <3>6. u * T >= (pw + 1) * T
      <4>1. pw + 1 \in Nat /\ u \in Nat /\ u >= pw + 1
        BY <3>5, <3>1, <1>1, SMT
      <4>2. QED
        BY <4>1, MulMono
    <3>7. pw * T + T <= u * T
      BY <2>1, <3>6
    <3>8. u * T <= up
      BY <3>1, <3>3, <1>0, SMT
    <3>9. pw * T + rest < pw * T + T
      BY <1>2, SMT
    <3>10. pw * T + T \in Nat /\ pw * T + rest \in Nat
      BY <1>2, <1>0, SMT
    <3> HIDE DEF pw, u, up, pt
    <3>11. pw * T + rest < u * T
      BY <3>7, <3>9, <3>10, <3>3, <1>1, <3>1, <1>0, SMT
    <3>12. pw * T + rest < up
      BY <3>11, <3>8, <3>10, <3>3, <1>1, <3>1, <1>0, SMT
    <3>13. QED
      BY <3>12
  <2>4. QED
    BY <2>2, <2>3
<1>7. QED
  BY <1>3, <1>4, <1>5, <1>6
=============================================================================
