----------------------------- MODULE LeakyValid -----------------------------
(* Machine-checked (TLAPS) proof, for ALL precisions, support sizes and       *)
(* cumulative distributions, that the "leaky" fixed-point quantisation used   *)
(* by LeakyQuantizer and by the `..._fast` categorical constructors           *)
(* (FixedPoint.tla: LeakyLeft, FastLeft) yields a VALID model (property C03): *)
(* with n symbols, free weight F = 2^P - n, and an exact cumulative given as  *)
(* numerators x over a common denominator D (0 <= x <= D, nondecreasing in    *)
(* the symbol index), the left cumulative of symbol i is                      *)
(*        Left(x_i, i) = (F * x_i) div D + i.                                 *)
(* Theorem Valid: consecutive symbols get strictly increasing left            *)
(* cumulatives (every symbol has probability >= 1), the first one is 0 when   *)
(* x_0 = 0, and the last one stays below 2^P = F + n, so that the last        *)
(* symbol's probability 2^P - Left is >= 1 as well.  FixedPoint.tla's         *)
(* predicates `Valid(LeakyTable(..))`, `Valid(FastTable(..))` are checked by  *)
(* TLC on every enumerated input (PredictedTablesValid); this proof removes   *)
(* the bounds on P, n and the distribution.                                   *)
EXTENDS AnsStep

Left(F, D, x, i) == (F * x) \div D + i

LEMMA DivMono == ASSUME NEW a \in Nat, NEW b \in Nat, NEW D \in Nat, D > 0, a <= b
                 PROVE a \div D <= b \div D
<1>1. a = D * (a \div D) + (a % D) /\ a % D < D /\ a % D \in Nat /\ a \div D \in Nat
  BY DivModFacts
<1>2. b >= (a \div D) * D
  <2>1. (a \div D) * D = D * (a \div D) /\ (a \div D) * D \in Nat
    BY <1>1, SMT
  <2>2. QED
    BY <1>1, <2>1, SMT
<1>3. QED
  BY <1>1, <1>2, DivGe

THEOREM Valid ==
    ASSUME NEW F \in Nat, NEW D \in Nat, D >= 1,
           NEW x \in Nat, NEW y \in Nat, x <= y, y <= D,         \* cumulative numerators of two consecutive symbols
           NEW i \in Nat
    PROVE  /\ Left(F, D, x, i) + 1 <= Left(F, D, y, i + 1)       \* symbol i has probability >= 1
           /\ Left(F, D, 0, 0) = 0                               \* the first symbol starts at 0
           /\ Left(F, D, y, i) <= F + i                          \* so the last symbol (i = n - 1) starts below F + n = 2^P
<1>0. D > 0 /\ F * x \in Nat /\ F * y \in Nat /\ F * D \in Nat
  BY SMT
<1>1. F * x <= F * y
  <2>1. y * F >= x * F
    BY MulMono
  <2>2. y * F = F * y /\ x * F = F * x
    BY SMT
  <2>3. QED
    BY <2>1, <2>2
<1>2. (F * x) \div D <= (F * y) \div D
  BY <1>0, <1>1, DivMono
<1>3. (F * x) \div D \in Nat /\ (F * y) \div D \in Nat
  BY <1>0, DivModFacts
<1>4. Left(F, D, x, i) + 1 <= Left(F, D, y, i + 1)
  BY <1>2, <1>3, SMT DEF Left
<1>5. Left(F, D, 0, 0) = 0
  <2>1. F * 0 = 0
    BY SMT
  <2>2. 0 \div D = 0
    <3>1. 0 = 0 * D + 0
      BY SMT
    <3>2. (0 * D + 0) \div D = 0
      BY <1>0, DivModUnique
    <3>3. QED
      BY <3>1, <3>2
  <2>3. QED
    BY <2>1, <2>2 DEF Left
<1>6. (F * y) \div D <= F
  <2>1. F * y <= F * D
    <3>1. D * F >= y * F
      BY MulMono
    <3>2. D * F = F * D /\ y * F = F * y
      BY SMT
    <3>3. QED
      BY <3>1, <3>2
  <2>2. (F * y) \div D <= (F * D) \div D
    BY <1>0, <2>1, DivMono
  <2>3. (F * D) \div D = F
    <3>1. F * D = F * D + 0
      BY <1>0, SMT
    <3>2. (F * D + 0) \div D = F
      BY <1>0, DivModUnique
    <3>3. QED
      BY <3>1, <3>2
  <2>4. QED
    BY <2>2, <2>3
<1>7. Left(F, D, y, i) <= F + i
  BY <1>6, <1>3, SMT DEF Left
<1>8. QED
  BY <1>4, <1>5, <1>7
=============================================================================
