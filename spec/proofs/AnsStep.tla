------------------------------ MODULE AnsStep ------------------------------
(* Machine-checked (TLAPS) proof, for ALL widths and precisions, that one    *)
(* complete rANS encoding step of Ans.tla -- WITH the renormalisation        *)
(* (flush of one word) -- keeps the state invariant, cannot overflow, and is *)
(* exactly undone by the decoding step (whose refill decision is shown to    *)
(* coincide with the encoder's flush decision): properties C01 / C04 / C10   *)
(* at the design level without any bound on the widths.                      *)
(*                                                                           *)
(* The widths enter only through three positive numbers                      *)
(*     N = 2^PRECISION,  B = 2^W,  K = 2^(S - W - PRECISION)   (N <= B)      *)
(* with   T = K*N = 2^(S-W)  (normalisation threshold),                      *)
(*        L = K*B = 2^(S-PRECISION)  (flush iff state >= p*L, i.e.           *)
(*                                    (state >> (S-P)) >= p),                *)
(*        M = K*N*B = 2^S  (state range).                                    *)
(* Nothing in the proof uses that they are powers of two.                    *)
EXTENDS AnsCore

T(K, N) == K * N
L(K, B) == K * B
M(K, N, B) == (K * N) * B

LEMMA DivGe == ASSUME NEW x \in Nat, NEW a \in Nat, NEW D \in Nat, D > 0, x >= a * D
               PROVE x \div D >= a
<1>1. x = D * (x \div D) + (x % D) /\ x % D < D /\ x % D \in Nat /\ x \div D \in Nat
  BY DivModFacts
<1>2. SUFFICES ASSUME a >= (x \div D) + 1 PROVE FALSE
  BY <1>1, SMT
<1>3. a * D >= ((x \div D) + 1) * D
  BY <1>1, <1>2, MulMono
<1>4. ((x \div D) + 1) * D = (x \div D) * D + D
  BY <1>1, MulSucc
<1>5. (x \div D) * D = D * (x \div D)
  BY <1>1, SMT
<1>6. QED
  BY <1>1, <1>3, <1>4, <1>5, SMT

LEMMA DivLt == ASSUME NEW x \in Nat, NEW a \in Nat, NEW D \in Nat, D > 0, x < a * D
               PROVE x \div D < a
<1>1. x = D * (x \div D) + (x % D) /\ x % D < D /\ x % D \in Nat /\ x \div D \in Nat
  BY DivModFacts
<1>2. SUFFICES ASSUME x \div D >= a PROVE FALSE
  BY <1>1, SMT
<1>3. (x \div D) * D >= a * D
  BY <1>1, <1>2, MulMono
<1>4. (x \div D) * D = D * (x \div D)
  BY <1>1, SMT
<1>5. a * D \in Nat /\ D * (x \div D) \in Nat
  BY <1>1, SMT
<1>6. x >= D * (x \div D)
  BY <1>1, <1>5, SMT
<1>7. QED
  BY <1>3, <1>4, <1>5, <1>6, SMT

(* The encoder's flush test `(state >> (S-P)) >= p` is `state >= p * L`. *)
LEMMA FlushTest == ASSUME NEW x \in Nat, NEW p \in Nat, NEW D \in Nat, D > 0
                   PROVE (x \div D >= p) <=> (x >= p * D)
<1>1. ASSUME x >= p * D PROVE x \div D >= p
  BY <1>1, DivGe
<1>2. ASSUME ~(x >= p * D) PROVE ~(x \div D >= p)
  <2>1. p * D \in Nat
    BY SMT
  <2>2. x < p * D
    BY <1>2, <2>1, SMT
  <2>3. x \div D < p
    BY <2>2, DivLt
  <2>4. x \div D \in Nat
    BY DivModFacts
  <2>5. QED
    BY <2>3, <2>4, SMT
<1>3. QED
  BY <1>1, <1>2

THEOREM EncodeStep ==
    ASSUME NEW K \in Nat, NEW N \in Nat, NEW B \in Nat, K >= 1, N >= 1, B >= N,
           NEW state \in Nat, NEW nonempty \in BOOLEAN,
           state < M(K, N, B), nonempty => state >= T(K, N),
           NEW c \in Nat, NEW p \in Nat, p >= 1, c + p <= N
    PROVE  LET fl == state >= p * L(K, B)
               s1 == IF fl THEN state \div B ELSE state
               word == state % B
               e == Enc(s1, N, c, p)
           IN /\ e < M(K, N, B)                                      \* no overflow
              /\ (nonempty \/ fl) => e >= T(K, N)                    \* invariant kept
              /\ Quant(e, N) >= c /\ Quant(e, N) < c + p             \* the decoder finds the symbol
              /\ Dec(e, N, c, p) = s1                                \* ... recovers the pre-multiplication state
              /\ ((s1 < T(K, N) /\ (nonempty \/ fl)) <=> fl)         \* ... refills exactly when the encoder flushed
              /\ fl => s1 * B + word = state                         \* ... and the refill restores the state
<1> DEFINE fl == state >= p * L(K, B)
<1> DEFINE s1 == IF fl THEN state \div B ELSE state
<1> DEFINE word == state % B
<1> DEFINE e == Enc(s1, N, c, p)
<1> DEFINE q == s1 \div p
<1> DEFINE r == s1 % p
<1>0. /\ B > 0 /\ N > 0 /\ p > 0 /\ K > 0
      /\ T(K, N) \in Nat /\ L(K, B) \in Nat /\ M(K, N, B) \in Nat
      /\ M(K, N, B) = T(K, N) * B /\ M(K, N, B) = L(K, B) * N
      /\ T(K, N) <= L(K, B) /\ L(K, B) <= p * L(K, B)
  <2>1. B > 0 /\ N > 0 /\ p > 0 /\ K > 0
    BY SMT
  <2>2. K * N \in Nat /\ K * B \in Nat /\ (K * N) * B \in Nat
    BY SMT
  <2>3. (K * N) * B = (K * B) * N
    BY SMT
  <2>4. K * N <= K * B
    <3>1. B * K >= N * K
      BY MulMono
    <3>2. B * K = K * B /\ N * K = K * N
      BY SMT
    <3>3. QED
      BY <3>1, <3>2, <2>2, SMT
  <2>5. K * B <= p * (K * B)
    <3>1. p * (K * B) >= 1 * (K * B)
      BY <2>2, MulMono
    <3>2. 1 * (K * B) = K * B
      BY <2>2, SMT
    <3>3. QED
      BY <3>1, <3>2, <2>2, SMT
  <2>6. QED
    BY <2>1, <2>2, <2>3, <2>4, <2>5 DEF T, L, M
<1>1. state = B * (state \div B) + word /\ word < B /\ word \in Nat /\ state \div B \in Nat
  BY <1>0, DivModFacts
<1>2. s1 \in Nat
  BY <1>1
<1>3. fl => s1 < T(K, N)
  <2>1. ASSUME fl PROVE state \div B < T(K, N)
    BY <1>0, DivLt
  <2>2. QED
    BY <2>1
<1>4. s1 < p * L(K, B)
  <2>1. CASE fl
    BY <2>1, <1>3, <1>0, <1>2, SMT
  <2>2. CASE ~fl
    BY <2>2, <1>0, SMT
  <2>3. QED
    BY <2>1, <2>2
<1>5. r \in Nat /\ r < p /\ q \in Nat /\ s1 = p * q + r
  BY <1>0, <1>2, DivModFacts
<1>6. q < L(K, B)
  <2>1. p * L(K, B) = L(K, B) * p
    BY <1>0, SMT
  <2>2. s1 < L(K, B) * p
    BY <1>4, <2>1
  <2>3. QED
    BY <1>0, <1>2, <2>2, DivLt
<1>7. e = q * N + (c + r) /\ c + r < N /\ c + r \in Nat
  BY <1>5, SMT DEF Enc
<1>8. e < M(K, N, B)
  <2>1. q + 1 <= L(K, B)
    BY <1>5, <1>6, <1>0, SMT
  <2>2. L(K, B) * N >= (q + 1) * N
    <3>1. q + 1 \in Nat /\ L(K, B) \in Nat /\ L(K, B) >= q + 1
      BY <2>1, <1>5, <1>0, SMT
    <3>2. QED
      BY <3>1, MulMono
  <2>3. (q + 1) * N = q * N + N
    BY <1>5, MulSucc
  <2>4. q * N \in Nat
    BY <1>5, SMT
  <2>5. QED
    BY <2>2, <2>3, <2>4, <1>7, <1>0, SMT
<1>9. (nonempty \/ fl) => e >= T(K, N)
  <2>1. ASSUME nonempty \/ fl PROVE q >= K
    <3>1. CASE fl
      <4>1. state >= (p * K) * B
        <5>1. p * (K * B) = (p * K) * B
          BY SMT
        <5>2. QED
          BY <3>1, <5>1 DEF L
      <4>2. p * K \in Nat
        BY SMT
      <4>3. state \div B >= p * K
        BY <4>1, <4>2, <1>0, DivGe
      <4>4. p * K = K * p
        BY SMT
      <4>5. s1 >= K * p
        BY <3>1, <4>3, <4>4
      <4>6. QED
        BY <4>5, <1>0, <1>2, DivGe
    <3>2. CASE ~fl
      <4>1. state >= K * N
        BY <3>2, <2>1 DEF T
      <4>2. K * N >= K * p
        <5>1. N * K >= p * K
          BY MulMono
        <5>2. N * K = K * N /\ p * K = K * p
          BY SMT
        <5>3. QED
          BY <5>1, <5>2
      <4>3. K * p \in Nat /\ K * N \in Nat
        BY SMT
      <4>4. s1 >= K * p
        BY <3>2, <4>1, <4>2, <4>3, SMT
      <4>5. QED
        BY <4>4, <1>0, <1>2, DivGe
    <3>3. QED
      BY <3>1, <3>2
  <2>2. ASSUME q >= K PROVE e >= T(K, N)
    <3>1. q * N >= K * N
      BY <2>2, <1>5, MulMono
    <3>2. q * N \in Nat /\ K * N \in Nat
      BY <1>5, SMT
    <3>3. QED
      BY <3>1, <3>2, <1>7, SMT DEF T
  <2>3. QED
    BY <2>1, <2>2
<1>10. Quant(e, N) >= c /\ Quant(e, N) < c + p /\ Dec(e, N, c, p) = s1
  BY <1>2, PopAfterPush
<1>11. (s1 < T(K, N) /\ (nonempty \/ fl)) <=> fl
  <2>1. ASSUME ~fl, nonempty PROVE ~(s1 < T(K, N))
    BY <2>1, <1>0, SMT
  <2>2. QED
    BY <2>1, <1>3
<1>12. fl => s1 * B + word = state
  <2>1. (state \div B) * B = B * (state \div B)
    BY <1>1, SMT
  <2>2. QED
    BY <2>1, <1>1
<1>13. QED
  BY <1>8, <1>9, <1>10, <1>11, <1>12

(* The decoding step on an ARBITRARY state (bits-back coding, C04): it keeps the invariant and the encoding step undoes it. *)
THEOREM DecodeStep ==
    ASSUME NEW K \in Nat, NEW N \in Nat, NEW B \in Nat, K >= 1, N >= 1, B >= N,
           NEW e \in Nat, NEW nonempty \in BOOLEAN,
           e < M(K, N, B), nonempty => e >= T(K, N),
           NEW c \in Nat, NEW p \in Nat, p >= 1, c + p <= N,
           Quant(e, N) >= c, Quant(e, N) < c + p,
           NEW w \in Nat, w < B                                    \* the word on top of the bulk (if any)
    PROVE  LET s1 == Dec(e, N, c, p)
               refill == s1 < T(K, N) /\ nonempty
               state == IF refill THEN s1 * B + w ELSE s1
               fl == state >= p * L(K, B)                            \* the encoder's flush decision on the decoded state
           IN /\ state < M(K, N, B)                                  \* no overflow
              /\ (nonempty /\ ~refill) => state >= T(K, N)          \* invariant kept while words remain
              /\ refill => state >= T(K, N)
              /\ fl <=> refill                                      \* re-encoding flushes exactly when decoding refilled
              /\ refill => (state % B = w /\ state \div B = s1)     \* ... writes back the same word
              /\ Enc(s1, N, c, p) = e                                \* ... and restores the state
<1> DEFINE s1 == Dec(e, N, c, p)
<1> DEFINE refill == s1 < T(K, N) /\ nonempty
<1> DEFINE state == IF refill THEN s1 * B + w ELSE s1
<1> DEFINE fl == state >= p * L(K, B)
<1> DEFINE d == e \div N
<1> DEFINE m == e % N
<1>0. /\ B > 0 /\ N > 0 /\ p > 0 /\ K > 0
      /\ T(K, N) \in Nat /\ L(K, B) \in Nat /\ M(K, N, B) \in Nat
      /\ M(K, N, B) = T(K, N) * B /\ M(K, N, B) = L(K, B) * N
      /\ T(K, N) <= L(K, B) /\ L(K, B) <= p * L(K, B) /\ p * L(K, B) \in Nat
      /\ p * L(K, B) <= M(K, N, B)
  <2>1. B > 0 /\ N > 0 /\ p > 0 /\ K > 0
    BY SMT
  <2>2. K * N \in Nat /\ K * B \in Nat /\ (K * N) * B \in Nat /\ p * (K * B) \in Nat
    BY SMT
  <2>3. (K * N) * B = (K * B) * N
    BY SMT
  <2>4. K * N <= K * B
    <3>1. B * K >= N * K
      BY MulMono
    <3>2. B * K = K * B /\ N * K = K * N
      BY SMT
    <3>3. QED
      BY <3>1, <3>2, <2>2, SMT
  <2>5. K * B <= p * (K * B)
    <3>1. p * (K * B) >= 1 * (K * B)
      BY <2>2, MulMono
    <3>2. 1 * (K * B) = K * B
      BY <2>2, SMT
    <3>3. QED
      BY <3>1, <3>2, <2>2, SMT
  <2>6. p * (K * B) <= (K * B) * N
    <3>1. N * (K * B) >= p * (K * B)
      BY <2>2, MulMono
    <3>2. N * (K * B) = (K * B) * N
      BY <2>2, SMT
    <3>3. QED
      BY <3>1, <3>2
  <2>7. QED
    BY <2>1, <2>2, <2>3, <2>4, <2>5, <2>6 DEF T, L, M
<1>1. m \in Nat /\ m < N /\ d \in Nat /\ e = N * d + m
  BY <1>0, DivModFacts
<1>2. m - c \in Nat /\ m - c < p
  BY <1>1, SMT DEF Quant
<1>3. s1 = d * p + (m - c) /\ s1 \in Nat
  <2>1. d * p \in Nat
    BY <1>1, SMT
  <2>2. QED
    BY <2>1, <1>2 DEF Dec, Quant
<1>4. d < L(K, B)
  BY <1>0, DivLt
<1>5. s1 < p * L(K, B)
  <2>1. d + 1 <= L(K, B)
    BY <1>1, <1>4, <1>0, SMT
  <2>2. L(K, B) * p >= (d + 1) * p
    <3>1. d + 1 \in Nat /\ L(K, B) \in Nat /\ L(K, B) >= d + 1
      BY <2>1, <1>1, <1>0, SMT
    <3>2. QED
      BY <3>1, MulMono
  <2>3. (d + 1) * p = d * p + p
    BY <1>1, MulSucc
  <2>4. L(K, B) * p = p * L(K, B) /\ d * p \in Nat
    BY <1>0, <1>1, SMT
  <2>5. QED
    BY <2>2, <2>3, <2>4, <1>2, <1>3, <1>0, SMT
<1>6. Enc(s1, N, c, p) = e
  BY PushAfterPop
<1>7. nonempty => s1 >= K * p
  <2>1. ASSUME nonempty PROVE d >= K
    <3>1. e >= K * N
      BY <2>1 DEF T
    <3>2. QED
      BY <3>1, <1>0, DivGe
  <2>2. ASSUME d >= K PROVE d * p >= K * p
    BY <2>2, <1>1, MulMono
  <2>3. d * p \in Nat /\ K * p \in Nat
    BY <1>1, SMT
  <2>4. QED
    BY <2>1, <2>2, <2>3, <1>2, <1>3, SMT
<1>8. refill => /\ state >= p * L(K, B) /\ state < M(K, N, B) /\ state % B = w /\ state \div B = s1
  <2>1. ASSUME refill PROVE state >= p * L(K, B) /\ state < M(K, N, B) /\ state % B = w /\ state \div B = s1
    <3>1. state = s1 * B + w
      BY <2>1
    <3>2. state \div B = s1 /\ state % B = w
      BY <3>1, <1>3, <1>0, DivModUnique
    <3>3. s1 * B >= (K * p) * B
      <4>1. K * p \in Nat /\ s1 >= K * p
        BY <2>1, <1>7, SMT
      <4>2. QED
        BY <4>1, <1>3, MulMono
    <3>4. (K * p) * B = p * (K * B)
      BY SMT
    <3>5. s1 * B \in Nat
      BY <1>3, SMT
    <3>6. state >= p * L(K, B)
      BY <3>1, <3>3, <3>4, <3>5, SMT DEF L
    <3>7. state < M(K, N, B)
      <4>1. s1 + 1 <= T(K, N)
        BY <2>1, <1>3, <1>0, SMT
      <4>2. T(K, N) * B >= (s1 + 1) * B
        <5>1. s1 + 1 \in Nat /\ T(K, N) \in Nat /\ T(K, N) >= s1 + 1
          BY <4>1, <1>3, <1>0, SMT
        <5>2. QED
          BY <5>1, MulMono
      <4>3. (s1 + 1) * B = s1 * B + B
        BY <1>3, MulSucc
      <4>4. T(K, N) * B >= s1 * B + B
        BY <4>2, <4>3
      <4>5. s1 * B + w < s1 * B + B
        BY <3>5, SMT
      <4>6. T(K, N) * B \in Nat /\ s1 * B + B \in Nat /\ s1 * B + w \in Nat
        BY <3>5, <1>0, SMT
      <4>7. s1 * B + w < T(K, N) * B
        BY <4>4, <4>5, <4>6, SMT
      <4>8. QED
        BY <3>1, <4>7, <1>0
    <3>8. QED
      BY <3>2, <3>6, <3>7
  <2>2. QED
    BY <2>1
<1>9. ~refill => state = s1 /\ state < p * L(K, B) /\ state < M(K, N, B)
  BY <1>5, <1>0, <1>3, SMT
<1>10. (nonempty /\ ~refill) => state >= T(K, N)
  BY <1>3, <1>0, SMT
<1>11. refill => state >= T(K, N)
  <2>1. ASSUME refill PROVE state >= T(K, N)
    <3>1. state >= p * L(K, B) /\ state \in Nat
      <4>1. s1 * B \in Nat
        BY <1>3, SMT
      <4>2. QED
        BY <2>1, <1>8, <4>1, SMT
    <3>2. QED
      BY <3>1, <1>0, SMT
  <2>2. QED
    BY <2>1
<1>12. fl <=> refill
  <2>1. ASSUME refill PROVE fl
    BY <2>1, <1>8
  <2>2. ASSUME ~refill PROVE ~fl
    <3>1. state < p * L(K, B) /\ state \in Nat
      BY <2>2, <1>9, <1>3
    <3>2. QED
      BY <3>1, <1>0, SMT
  <2>3. QED
    BY <2>1, <2>2
<1>13. QED
  BY <1>6, <1>8, <1>9, <1>10, <1>11, <1>12
=============================================================================
