---------------------------- MODULE RangeMessage ----------------------------
(* Machine-checked (TLAPS) message-level theorem for the range DEcoder of    *)
(* Range.tla (properties C02 / C10), for ALL widths, precisions and message  *)
(* lengths: DecoderStep (RangeCore.tla) is lifted to the machine that        *)
(* decodes symbol after symbol, renormalising by one word whenever the       *)
(* interval width drops below T = 2^(S-W).  The inductive invariant          *)
(*       T <= range   /\   off < range                                       *)
(* (off = (point - lower) mod 2^S) holds in every reachable state, whatever  *)
(* symbols are decoded and whatever words are read - in particular the       *)
(* interval width is restored to at least T by ONE word of renormalisation   *)
(* (so that `range >> PRECISION` is never zero and a single `if`, not a      *)
(* loop, suffices in src/stream/queue.rs), the subtraction `off - scale*c`   *)
(* never underflows and the decoder's point never leaves its interval.       *)
(* Together with EncoderSound (every point of the interval the encoder       *)
(* selected is decoded to the encoded symbol and lands at the same relative  *)
(* position) this is the induction step of C02 for unbounded messages.       *)
(* N = 2^PRECISION, B = 2^W, K = 2^(S-W-PRECISION), T = K*N.                 *)
EXTENDS RangeCore

CONSTANTS K, N, B
ASSUME Widths == K \in Nat /\ N \in Nat /\ B \in Nat /\ K >= 1 /\ N >= 1 /\ B >= N
Thr == K * N

VARIABLES range, off
vars == <<range, off>>

DecInv == range \in Nat /\ off \in Nat /\ range >= Thr /\ off < range
Init == DecInv                                     \* any valid decoder state (a freshly seeked or constructed decoder included)
Step(c, p, w) ==
    /\ QuantileOf(off, range, N) >= c /\ QuantileOf(off, range, N) < c + p     \* the model maps the quantile to slot (c, p)
    /\ LET r1 == NewRange(range, N, p)
           o1 == NewOff(off, range, N, c)
       IN IF r1 < Thr THEN range' = r1 * B /\ off' = o1 * B + w                 \* renormalise: read one word
          ELSE range' = r1 /\ off' = o1
Next == \E c \in Nat, p \in Nat, w \in Nat : p >= 1 /\ c + p <= N /\ w < B /\ Step(c, p, w)
Spec == Init /\ [][Next]_vars

LEMMA LinA == ASSUME NEW a \in Nat, NEW b \in Nat, NEW d \in Nat, a >= b, b >= d PROVE a >= d
  OBVIOUS

THEOREM StepKeeps ==
    ASSUME NEW rg \in Nat, NEW of \in Nat, rg >= Thr, of < rg,
           NEW c \in Nat, NEW p \in Nat, p >= 1, c + p <= N, NEW w \in Nat, w < B,
           QuantileOf(of, rg, N) >= c, QuantileOf(of, rg, N) < c + p
    PROVE  LET r1 == NewRange(rg, N, p)
               o1 == NewOff(of, rg, N, c)
           IN /\ r1 \in Nat /\ o1 \in Nat /\ r1 >= 1 /\ o1 < r1
              /\ r1 * B \in Nat /\ o1 * B + w \in Nat
              /\ r1 * B >= Thr                                   \* one word of renormalisation always suffices
              /\ o1 * B + w < r1 * B
<1> DEFINE sc == Scale(rg, N)
<1> DEFINE r1 == NewRange(rg, N, p)
<1> DEFINE o1 == NewOff(of, rg, N, c)
<1>0. N > 0 /\ B > 0 /\ K > 0 /\ Thr \in Nat /\ K * B \in Nat
  BY Widths, SMT DEF Thr
<1>1. rg >= N
  <2>1. K * N >= 1 * N
    BY Widths, MulMono
  <2>2. 1 * N = N
    BY Widths, SMT
  <2>3. QED
    BY <2>1, <2>2, <1>0, Widths, LinA DEF Thr
<1>2. /\ r1 >= 1 /\ sc * c <= of /\ o1 < r1 /\ o1 * B + w < r1 * B
  BY <1>0, <1>1, Widths, DecoderStep
<1>3. sc \in Nat /\ sc >= K
  <2>1. sc \in Nat
    BY <1>0, Widths, DivModFacts DEF Scale
  <2>2. rg >= K * N
    BY DEF Thr
  <2>3. QED
    BY <2>1, <2>2, <1>0, Widths, DivGe DEF Scale
<1>4. r1 \in Nat /\ sc * c \in Nat /\ o1 \in Nat
  <2>1. sc * p \in Nat /\ sc * c \in Nat
    BY <1>3, SMT
  <2>2. o1 = of - sc * c /\ r1 = sc * p
    BY DEF NewOff, NewRange
  <2>3. QED
    BY <2>1, <2>2, <1>2, SMT
<1>5. r1 >= K
  <2>1. sc * p >= K * p
    BY <1>3, Widths, MulMono
  <2>2. p * K >= 1 * K
    BY Widths, MulMono
  <2>3. p * K = K * p /\ 1 * K = K /\ K * p \in Nat
    BY Widths, SMT
  <2>4. r1 = sc * p
    BY DEF NewRange
  <2>5. QED
    BY <2>1, <2>2, <2>3, <2>4, <1>4, Widths, LinA
<1>6. r1 * B >= Thr /\ r1 * B \in Nat
  <2>1. r1 * B >= K * B
    BY <1>4, <1>5, Widths, MulMono
  <2>2. B * K >= N * K
    BY Widths, MulMono
  <2>3. B * K = K * B /\ N * K = K * N
    BY Widths, SMT
  <2>4. r1 * B \in Nat
    BY <1>4, Widths, SMT
  <2>5. QED
    BY <2>1, <2>2, <2>3, <2>4, <1>0, LinA DEF Thr
<1>7. o1 * B + w \in Nat
  <2>1. o1 * B \in Nat
    BY <1>4, Widths, SMT
  <2>2. QED
    BY <2>1, SMT
<1>8. QED
  BY <1>2, <1>4, <1>6, <1>7

THEOREM DecoderMessage == Spec => []DecInv
<1>1. Init => DecInv
  BY DEF Init
<1>2. DecInv /\ [Next]_vars => DecInv'
  <2> SUFFICES ASSUME DecInv, [Next]_vars PROVE DecInv'
    OBVIOUS
  <2>1. CASE UNCHANGED vars
    BY <2>1 DEF DecInv, vars
  <2>2. ASSUME NEW c \in Nat, NEW p \in Nat, NEW w \in Nat, p >= 1, c + p <= N, w < B, Step(c, p, w)
        PROVE DecInv'
    <3> DEFINE r1 == NewRange(range, N, p)
    <3> DEFINE o1 == NewOff(off, range, N, c)
    <3>1. range \in Nat /\ off \in Nat /\ range >= Thr /\ off < range
      BY DEF DecInv
    <3>2. /\ r1 \in Nat /\ o1 \in Nat /\ r1 >= 1 /\ o1 < r1
          /\ r1 * B \in Nat /\ o1 * B + w \in Nat
          /\ r1 * B >= Thr
          /\ o1 * B + w < r1 * B
      BY <2>2, <3>1, StepKeeps DEF Step
    <3>3. CASE r1 < Thr
      <4>1. range' = r1 * B /\ off' = o1 * B + w
        BY <3>3, <2>2 DEF Step
      <4>2. QED
        BY <4>1, <3>2 DEF DecInv
    <3>4. CASE ~(r1 < Thr)
      <4>1. range' = r1 /\ off' = o1
        BY <3>4, <2>2 DEF Step
      <4>2. r1 >= Thr
        BY <3>4, <3>2, Widths, SMT DEF Thr
      <4>3. QED
        BY <4>1, <4>2, <3>2 DEF DecInv
    <3>5. QED
      BY <3>3, <3>4
  <2>3. QED
    BY <2>1, <2>2 DEF Next
<1>3. QED
  BY <1>1, <1>2, PTL DEF Spec

-----------------------------------------------------------------------------
(* The interval width on the ENcoder's side evolves by the same rule (it is  *)
(* the same number in encoder and decoder); here without any reference to a  *)
(* decoder's point: for messages of any length it stays within               *)
(*      T <= range <= T * B = 2^S,                                           *)
(* i.e. it always fits the state type, never becomes too small for another   *)
(* symbol, and one word of renormalisation suffices (C02 / C12).             *)
LEMMA LinB == ASSUME NEW a \in Nat, NEW b \in Nat, NEW d \in Nat, NEW m \in Nat, a + d <= m, d > 0, b = a PROVE b < m /\ b <= m
  OBVIOUS
LEMMA LinC == ASSUME NEW a \in Nat, NEW b \in Nat, NEW d \in Nat, a <= b, b <= d PROVE a <= d
  OBVIOUS

THEOREM RangeKeeps ==
    ASSUME NEW rg \in Nat, rg >= Thr, rg <= Thr * B, NEW p \in Nat, p >= 1, p <= N
    PROVE  LET r1 == NewRange(rg, N, p)
           IN /\ r1 \in Nat /\ r1 >= 1 /\ r1 <= rg
              /\ r1 * B \in Nat /\ r1 * B >= Thr
              /\ r1 < Thr => r1 * B < Thr * B
<1> DEFINE sc == Scale(rg, N)
<1> DEFINE r1 == NewRange(rg, N, p)
<1>0. N > 0 /\ B > 0 /\ K > 0 /\ Thr \in Nat /\ K * B \in Nat /\ Thr * B \in Nat
  BY Widths, SMT DEF Thr
<1>1. sc \in Nat /\ sc >= K /\ rg = N * sc + (rg % N) /\ rg % N \in Nat
  <2>1. sc \in Nat /\ rg = N * sc + (rg % N) /\ rg % N \in Nat
    BY <1>0, Widths, DivModFacts DEF Scale
  <2>2. rg >= K * N
    BY DEF Thr
  <2>3. QED
    BY <2>1, <2>2, <1>0, Widths, DivGe DEF Scale
<1>2. r1 = sc * p /\ r1 \in Nat
  <2>1. sc * p \in Nat
    BY <1>1, SMT
  <2>2. QED
    BY <2>1 DEF NewRange
<1>3. r1 >= K /\ r1 >= 1
  <2>1. sc * p >= K * p
    BY <1>1, Widths, MulMono
  <2>2. p * K >= 1 * K
    BY Widths, MulMono
  <2>3. p * K = K * p /\ 1 * K = K /\ K * p \in Nat
    BY Widths, SMT
  <2>4. r1 >= K
    BY <2>1, <2>2, <2>3, <1>2, Widths, LinA
  <2>5. QED
    BY <2>4, <1>2, Widths, LinA
<1>4. r1 <= rg
  <2>1. N * sc >= p * sc
    BY <1>1, Widths, MulMono
  <2>2. p * sc = sc * p /\ N * sc \in Nat
    BY <1>1, Widths, SMT
  <2>3. N * sc <= rg
    BY <1>1, <2>2, SMT
  <2>4. QED
    BY <2>1, <2>2, <2>3, <1>2, LinC
<1>5. r1 * B >= Thr /\ r1 * B \in Nat
  <2>1. r1 * B >= K * B
    BY <1>2, <1>3, Widths, MulMono
  <2>2. B * K >= N * K
    BY Widths, MulMono
  <2>3. B * K = K * B /\ N * K = K * N
    BY Widths, SMT
  <2>4. r1 * B \in Nat
    BY <1>2, Widths, SMT
  <2>5. QED
    BY <2>1, <2>2, <2>3, <2>4, <1>0, LinA DEF Thr
<1>6. ASSUME r1 < Thr PROVE r1 * B < Thr * B
  <2>1. r1 + 1 \in Nat /\ Thr >= r1 + 1
    BY <1>6, <1>2, <1>0, SMT
  <2>2. Thr * B >= (r1 + 1) * B
    BY <2>1, <1>0, Widths, MulMono
  <2>3. (r1 + 1) * B = r1 * B + B
    BY <1>2, Widths, MulSucc
  <2>4. r1 * B + B <= Thr * B
    BY <2>2, <2>3
  <2>5. QED
    BY <2>4, <1>5, <1>0, Widths, LinB
<1>7. QED
  BY <1>2, <1>3, <1>4, <1>5, <1>6

InitE == range \in Nat /\ range >= Thr /\ range <= Thr * B        \* a fresh encoder has range = 2^S = T * B
StepE(p) == LET r1 == NewRange(range, N, p) IN range' = (IF r1 < Thr THEN r1 * B ELSE r1)
NextE == \E p \in Nat : p >= 1 /\ p <= N /\ StepE(p)
SpecE == InitE /\ [][NextE]_range
EncInv == range \in Nat /\ range >= Thr /\ range <= Thr * B

THEOREM EncoderMessage == SpecE => []EncInv
<1>1. InitE => EncInv
  BY DEF InitE, EncInv
<1>2. EncInv /\ [NextE]_range => EncInv'
  <2> SUFFICES ASSUME EncInv, [NextE]_range PROVE EncInv'
    OBVIOUS
  <2>1. CASE UNCHANGED range
    BY <2>1 DEF EncInv
  <2>2. ASSUME NEW p \in Nat, p >= 1, p <= N, StepE(p) PROVE EncInv'
    <3> DEFINE r1 == NewRange(range, N, p)
    <3>1. range \in Nat /\ range >= Thr /\ range <= Thr * B
      BY DEF EncInv
    <3>2. /\ r1 \in Nat /\ r1 >= 1 /\ r1 <= range
          /\ r1 * B \in Nat /\ r1 * B >= Thr
          /\ r1 < Thr => r1 * B < Thr * B
      BY <2>2, <3>1, RangeKeeps
    <3>3. Thr \in Nat /\ Thr * B \in Nat
      BY Widths, SMT DEF Thr
    <3>4. CASE r1 < Thr
      <4>1. range' = r1 * B
        BY <3>4, <2>2 DEF StepE
      <4>2. r1 * B <= Thr * B
        BY <3>4, <3>2, <3>3, SMT
      <4>3. QED
        BY <4>1, <4>2, <3>2 DEF EncInv
    <3>5. CASE ~(r1 < Thr)
      <4>1. range' = r1
        BY <3>5, <2>2 DEF StepE
      <4>2. r1 >= Thr /\ r1 <= Thr * B
        BY <3>5, <3>1, <3>2, <3>3, LinC
      <4>3. QED
        BY <4>1, <4>2, <3>2 DEF EncInv
    <3>6. QED
      BY <3>4, <3>5
  <2>3. QED
    BY <2>1, <2>2 DEF NextE
<1>3. QED
  BY <1>1, <1>2, PTL DEF SpecE
=============================================================================
