----------------------------- MODULE RangeCarry -----------------------------
(* Machine-checked (TLAPS) proof, for ALL widths, precisions and message      *)
(* lengths, that the range ENCODER of Range.tla - which never revisits a      *)
(* word it has written, holding words back while a carry is still possible -  *)
(* emits exactly the digits of an arbitrary-precision, carry-propagating       *)
(* reference coder (property C06; `RefAgree` in MC_Range).                     *)
(*                                                                             *)
(* Numbers instead of sequences: V is the value of the words written so far    *)
(* (`bulk`, base B = 2^W, most significant first); while n > 0 words are held  *)
(* back, they are <<w, B-1, ..., B-1>> and Q stands for B^(n-1), so that       *)
(*     Acc = V * (Q*B) + w*Q + (Q - 1)        (value of bulk \o HeldNoCarry)   *)
(* and a carry turns them into <<w+1, 0, ..., 0>>, i.e. Acc + 1.  The          *)
(* reference interval starts at tl (an unbounded integer in units that shrink  *)
(* by a factor B at every renormalisation).  Invariant proved inductive:       *)
(*     tl = Acc * M + lower     and     normal situation => lower + range <= M *)
(* M = T*B = 2^S, T = 2^(S-W).  d = scale*c is the advance of the interval     *)
(* start and r1 = scale*p its new width (RangeCore.tla); only d + r1 <= range  *)
(* is used.  MC_Range.CarryBridge (TLC) ties REnc / HeldCarry / HeldNoCarry of *)
(* Range.tla to the numeric step below.                                        *)
EXTENDS AnsStep

(* two purely linear facts, stated with fresh constants so that the SMT solver sees no products *)
LEMMA Sandwich == ASSUME NEW x \in Nat, NEW b \in Nat, b >= 1, x >= b - 1, x < b PROVE x = b - 1
  BY SMT
LEMMA CarryBound == ASSUME NEW lo \in Nat, NEW dd \in Nat, NEW rr \in Nat, NEW ra \in Nat, NEW MM \in Nat, NEW nn \in Nat,
                           lo + dd = nn + MM, dd + rr <= ra, ra < MM, lo < MM
                    PROVE nn + rr < MM
  BY SMT

Acc(V, n, w, Q, B) == IF n = 0 THEN V ELSE V * (Q * B) + w * Q + (Q - 1)

LEMMA RenormAlgebra ==
    ASSUME NEW A \in Nat, NEW T \in Nat, NEW B \in Nat, T >= 1, B >= 1, NEW nl \in Nat, nl < T * B
    PROVE  LET lw == nl \div T
               rem == nl % T
           IN /\ (A * (T * B) + nl) * B = (A * B + lw) * (T * B) + rem * B
              /\ rem * B < T * B /\ lw < B /\ lw \in Nat /\ rem \in Nat
              /\ (nl * B) % (T * B) = rem * B
<1> DEFINE lw == nl \div T
<1> DEFINE rem == nl % T
<1>0. T > 0 /\ B > 0 /\ T * B \in Nat /\ T * B > 0
  BY SMT
<1>1. nl = T * lw + rem /\ rem < T /\ rem \in Nat /\ lw \in Nat
  BY <1>0, DivModFacts
<1>2. lw < B
  <2>1. nl < B * T
    BY <1>0, SMT
  <2>2. QED
    BY <2>1, <1>0, DivLt
<1>3. rem * B < T * B
  <2>1. rem + 1 <= T
    BY <1>1, SMT
  <2>2. T * B >= (rem + 1) * B
    <3>1. rem + 1 \in Nat /\ T >= rem + 1
      BY <2>1, <1>1, SMT
    <3>2. QED
      BY <3>1, MulMono
  <2>3. (rem + 1) * B = rem * B + B
    BY <1>1, MulSucc
  <2>4. rem * B \in Nat
    BY <1>1, SMT
  <2>5. QED
    BY <2>2, <2>3, <2>4, <1>0, SMT
<1>4. nl * B = lw * (T * B) + rem * B
  <2>1. nl * B = (T * lw + rem) * B
    BY <1>1
  <2>2. (T * lw + rem) * B = lw * (T * B) + rem * B
    BY <1>1, SMT
  <2>3. QED
    BY <2>1, <2>2
<1>5. (A * (T * B) + nl) * B = (A * B + lw) * (T * B) + rem * B
  <2>1. (A * (T * B) + nl) * B = (A * (T * B)) * B + nl * B
    BY <1>0, SMT
  <2>2. (A * (T * B)) * B = (A * B) * (T * B)
    BY SMT
  <2>3. (A * B + lw) * (T * B) = (A * B) * (T * B) + lw * (T * B)
    BY <1>1, <1>0, SMT
  <2>4. QED
    BY <2>1, <2>2, <2>3, <1>4
<1>6. (nl * B) % (T * B) = rem * B
  <2>1. rem * B \in Nat
    BY <1>1, SMT
  <2>2. (lw * (T * B) + rem * B) % (T * B) = rem * B
    BY <1>0, <1>1, <1>3, <2>1, DivModUnique
  <2>3. QED
    BY <2>2, <1>4
<1>7. QED
  BY <1>1, <1>2, <1>3, <1>5, <1>6

(* while the interval still wraps after a renormalising step, the word that leaves the state is all ones *)
LEMMA HeldWordIsMax ==
    ASSUME NEW T \in Nat, NEW B \in Nat, T >= 1, B >= 1, NEW nl \in Nat, nl < T * B,
           NEW r1 \in Nat, r1 < T, nl + r1 >= T * B
    PROVE  nl \div T = B - 1
<1>0. T > 0 /\ T * B \in Nat
  BY SMT
<1>1. B >= 1 /\ B - 1 \in Nat /\ (B - 1) * T + T = T * B
  <2>1. ((B - 1) + 1) * T = (B - 1) * T + T
    BY MulSucc
  <2>2. ((B - 1) + 1) * T = T * B
    BY SMT
  <2>3. QED
    BY <2>1, <2>2
<1>2. (B - 1) * T \in Nat /\ nl >= (B - 1) * T
  <2>1. (B - 1) * T \in Nat
    BY <1>1, SMT
  <2>2. QED
    BY <2>1, <1>1, <1>0, SMT
<1>3. nl \div T >= B - 1
  BY <1>2, <1>1, <1>0, DivGe
<1>4. nl \div T < B
  <2>1. nl < B * T
    BY <1>0, SMT
  <2>2. QED
    BY <2>1, <1>0, DivLt
<1>5. nl \div T \in Nat
  BY <1>0, DivModFacts
<1>6. QED
  <2> DEFINE x == nl \div T
  <2>1. x \in Nat /\ x >= B - 1 /\ x < B /\ B - 1 \in Nat /\ B \in Nat
    BY <1>3, <1>4, <1>5, <1>1
  <2> HIDE DEF x
  <2>2. x = B - 1
    BY <2>1, Sandwich
  <2>3. QED
    BY <2>2 DEF x

(* the held-back words grow by one all-ones word *)
LEMMA HoldOneMore ==
    ASSUME NEW V \in Nat, NEW w \in Nat, NEW Q \in Nat, Q >= 1, NEW B \in Nat, B >= 1
    PROVE  V * ((Q * B) * B) + w * (Q * B) + (Q * B - 1) = (V * (Q * B) + w * Q + (Q - 1)) * B + (B - 1)
<1>1. (V * (Q * B) + w * Q + (Q - 1)) * B = (V * (Q * B)) * B + (w * Q) * B + (Q - 1) * B
  BY SMT
<1>2. (V * (Q * B)) * B = V * ((Q * B) * B) /\ (w * Q) * B = w * (Q * B)
  BY SMT
<1>3. (Q - 1) * B + B = Q * B
  <2>1. ((Q - 1) + 1) * B = (Q - 1) * B + B
    BY MulSucc
  <2>2. QED
    BY <2>1, SMT
<1>4. Q * B \in Nat /\ Q * B >= 1 /\ (Q - 1) * B \in Nat /\ V * ((Q * B) * B) \in Nat /\ w * (Q * B) \in Nat
  BY SMT
<1>5. (V * (Q * B) + w * Q + (Q - 1)) * B + (B - 1) = V * ((Q * B) * B) + w * (Q * B) + ((Q - 1) * B + (B - 1))
  BY <1>1, <1>2, <1>4, SMT
<1>6. (Q - 1) * B + (B - 1) = Q * B - 1
  BY <1>3, <1>4, SMT
<1>7. QED
  BY <1>5, <1>6

THEOREM CarryStep ==
    ASSUME NEW T \in Nat, NEW B \in Nat, T >= 1, B >= 1,
           NEW V \in Nat, NEW n \in Nat, NEW w \in Nat, NEW Q \in Nat, Q >= 1,
           NEW lower \in Nat, NEW range \in Nat, lower < T * B, range < T * B,
           n = 0 => lower + range <= T * B,                               \* invariant of the normal situation
           NEW tl \in Nat, tl = Acc(V, n, w, Q, B) * (T * B) + lower,       \* RefAgree
           NEW d \in Nat, NEW r1 \in Nat, r1 >= 1, d + r1 <= range           \* the symbol's sub-interval [d, d + r1) of [0, range)
    PROVE  LET M == T * B
               nl == (lower + d) % M
               carry == lower + d >= M                                      \* REnc: nl < lower
               resolves == n > 0 /\ nl + r1 < M                             \* REnc: Wrap(nl + r1) > nl
               V1 == IF resolves THEN (IF carry THEN Acc(V, n, w, Q, B) + 1 ELSE Acc(V, n, w, Q, B)) ELSE V
               n1 == IF resolves THEN 0 ELSE n
               renorm == r1 < T
               lw == nl \div T
               l2 == IF renorm THEN (nl * B) % M ELSE nl
               r2 == IF renorm THEN r1 * B ELSE r1
               normalAfter == l2 + r2 < M
               \* successor state (V2, n2, w2, Q2)
               V2 == IF renorm /\ n1 = 0 /\ normalAfter THEN V1 * B + lw ELSE V1
               n2 == IF ~renorm THEN n1 ELSE IF n1 > 0 THEN n1 + 1 ELSE IF normalAfter THEN 0 ELSE 1
               w2 == IF renorm /\ n1 = 0 /\ ~normalAfter THEN lw ELSE w
               Q2 == IF ~renorm THEN Q ELSE IF n1 > 0 THEN Q * B ELSE 1
               \* reference coder
               tl2 == IF renorm THEN (tl + d) * B ELSE tl + d
           IN /\ tl2 = Acc(V2, n2, w2, Q2, B) * M + l2                      \* RefAgree is preserved
              /\ n2 = 0 => l2 + r2 <= M                                      \* and so is the invariant of the normal situation
              /\ l2 < M /\ Q2 >= 1
<1> DEFINE M == T * B
<1> DEFINE A == Acc(V, n, w, Q, B)
<1> DEFINE nl == (lower + d) % M
<1> DEFINE carry == lower + d >= M
<1> DEFINE resolves == n > 0 /\ nl + r1 < M
<1> DEFINE V1 == IF resolves THEN (IF carry THEN A + 1 ELSE A) ELSE V
<1> DEFINE n1 == IF resolves THEN 0 ELSE n
<1> DEFINE renorm == r1 < T
<1> DEFINE lw == nl \div T
<1> DEFINE l2 == IF renorm THEN (nl * B) % M ELSE nl
<1> DEFINE r2 == IF renorm THEN r1 * B ELSE r1
<1> DEFINE normalAfter == l2 + r2 < M
<1> DEFINE V2 == IF renorm /\ n1 = 0 /\ normalAfter THEN V1 * B + lw ELSE V1
<1> DEFINE n2 == IF ~renorm THEN n1 ELSE IF n1 > 0 THEN n1 + 1 ELSE IF normalAfter THEN 0 ELSE 1
<1> DEFINE w2 == IF renorm /\ n1 = 0 /\ ~normalAfter THEN lw ELSE w
<1> DEFINE Q2 == IF ~renorm THEN Q ELSE IF n1 > 0 THEN Q * B ELSE 1
<1> DEFINE tl2 == IF renorm THEN (tl + d) * B ELSE tl + d
<1>0. M \in Nat /\ M > 0 /\ A \in Nat /\ Q * B \in Nat /\ Q * B >= 1
  <2>1. T * B \in Nat /\ T * B > 0 /\ Q * B \in Nat /\ Q * B >= 1
    BY SMT
  <2>2. V * (Q * B) \in Nat /\ w * Q \in Nat /\ Q - 1 \in Nat
    BY <2>1, SMT
  <2>3. QED
    BY <2>1, <2>2 DEF Acc
<1>1. nl \in Nat /\ nl < M /\ (carry => lower + d = nl + M) /\ (~carry => lower + d = nl)
  <2>1. lower + d \in Nat /\ lower + d < M + M
    BY <1>0, SMT
  <2>2. CASE ~carry
    <3>1. lower + d = 0 * M + (lower + d) /\ lower + d < M
      BY <2>2, <1>0, SMT
    <3>2. (0 * M + (lower + d)) % M = lower + d
      BY <3>1, <2>1, <1>0, DivModUnique
    <3>3. QED
      BY <2>2, <3>1, <3>2, <2>1
  <2>3. CASE carry
    <3>0. 1 * M = M
      BY <1>0, SMT
    <3>1. (lower + d) - M \in Nat /\ (lower + d) - M < M /\ lower + d = 1 * M + ((lower + d) - M)
      BY <2>3, <2>1, <1>0, <3>0, SMT
    <3>2. (1 * M + ((lower + d) - M)) % M = (lower + d) - M
      <4> DEFINE rr == (lower + d) - M
      <4>1. rr \in Nat /\ rr < M /\ 1 \in Nat /\ M \in Nat /\ M > 0
        BY <3>1, <1>0
      <4> HIDE DEF rr
      <4>2. (1 * M + rr) \div M = 1 /\ (1 * M + rr) % M = rr
        BY <4>1, DivModUnique
      <4>3. QED
        BY <4>2 DEF rr
    <3>3. nl = (lower + d) - M
      BY <3>1, <3>2
    <3>4. QED
      BY <2>3, <3>1, <3>3
  <2>4. QED
    BY <2>2, <2>3
<1>2. carry => resolves
  <2>1. ASSUME carry PROVE n > 0 /\ nl + r1 < M
    <3>1. n > 0
      <4>1. SUFFICES ASSUME n = 0 PROVE FALSE
        BY SMT
      <4>2. lower + range <= M
        BY <4>1
      <4>3. QED
        BY <2>1, <4>2, <1>0, SMT
    <3>2. nl + r1 < M
      <4>1. lower + d = nl + M /\ nl \in Nat
        BY <2>1, <1>1
      <4>2. QED
        BY <4>1, <1>0, CarryBound
    <3>3. QED
      BY <3>1, <3>2
  <2>2. QED
    BY <2>1
<1> DEFINE A1 == Acc(V1, n1, w, Q, B)
<1>3. tl + d = A1 * M + nl /\ A1 \in Nat /\ V1 \in Nat
  <2>1. CASE resolves /\ carry
    <3>1. A1 = A + 1 /\ V1 = A + 1
      BY <2>1 DEF Acc
    <3>2. (A + 1) * M = A * M + M
      BY <1>0, MulSucc
    <3>3. A * M \in Nat
      BY <1>0, SMT
    <3>4. QED
      BY <2>1, <3>1, <3>2, <3>3, <1>1, <1>0, SMT
  <2>2. CASE resolves /\ ~carry
    <3>1. A1 = A /\ V1 = A
      BY <2>2 DEF Acc
    <3>2. QED
      BY <2>2, <3>1, <1>1, <1>0
  <2>3. CASE ~resolves
    <3>1. A1 = A /\ V1 = V /\ ~carry
      BY <2>3, <1>2
    <3>2. QED
      BY <3>1, <1>1, <1>0
  <2>4. QED
    BY <2>1, <2>2, <2>3
<1>4. (n1 = 0 => nl + r1 <= M) /\ (n1 > 0 => nl + r1 >= M)
  <2>1. ASSUME n1 = 0 PROVE nl + r1 <= M
    <3>1. CASE resolves
      BY <3>1, <1>1, <1>0, SMT
    <3>2. CASE ~resolves
      <4>1. n = 0 /\ ~carry
        BY <3>2, <2>1, <1>2
      <4>2. QED
        BY <4>1, <1>1, <1>0, SMT
    <3>3. QED
      BY <3>1, <3>2
  <2>2. ASSUME n1 > 0 PROVE nl + r1 >= M
    BY <2>2, <1>1, <1>0, SMT
  <2>3. QED
    BY <2>1, <2>2
<1>5. CASE ~renorm
  <2>1. l2 = nl /\ r2 = r1 /\ V2 = V1 /\ n2 = n1 /\ w2 = w /\ Q2 = Q /\ tl2 = tl + d
    BY <1>5
  <2>2. Acc(V2, n2, w2, Q2, B) = A1
    BY <2>1
  <2>3. QED
    BY <2>1, <2>2, <1>3, <1>4, <1>1, <1>0
<1>6. CASE renorm
  <2>1. /\ (A1 * M + nl) * B = (A1 * B + lw) * M + (nl % T) * B
        /\ (nl % T) * B < M /\ lw < B /\ lw \in Nat /\ nl % T \in Nat
        /\ (nl * B) % M = (nl % T) * B
    BY <1>1, <1>3, RenormAlgebra
  <2>2. l2 = (nl % T) * B /\ r2 = r1 * B /\ tl2 = (A1 * B + lw) * M + l2 /\ l2 < M /\ l2 \in Nat
    BY <1>6, <2>1, <1>3, SMT
  <2>3. CASE n1 > 0
    <3>1. nl \div T = B - 1
      BY <1>6, <2>3, <1>4, <1>1, HeldWordIsMax
    <3>2. V2 = V1 /\ n2 = n1 + 1 /\ w2 = w /\ Q2 = Q * B
      BY <1>6, <2>3
    <3>3. A1 = V1 * (Q * B) + w * Q + (Q - 1)
      BY <2>3 DEF Acc
    <3>4. Acc(V2, n2, w2, Q2, B) = V1 * ((Q * B) * B) + w * (Q * B) + (Q * B - 1)
      BY <3>2, <2>3, SMT DEF Acc
    <3>5. Acc(V2, n2, w2, Q2, B) = A1 * B + lw
      BY <3>1, <3>3, <3>4, <1>3, HoldOneMore
    <3>6. QED
      BY <3>5, <3>2, <2>2, <2>3, <1>0, SMT
  <2>4. CASE n1 = 0 /\ normalAfter
    <3>1. V2 = V1 * B + lw /\ n2 = 0 /\ Q2 = 1
      BY <1>6, <2>4
    <3>2. A1 = V1
      BY <2>4 DEF Acc
    <3>3. Acc(V2, n2, w2, Q2, B) = A1 * B + lw
      BY <3>1, <3>2 DEF Acc
    <3>4. QED
      BY <3>3, <3>1, <2>2, <2>4, <1>0, SMT
  <2>5. CASE n1 = 0 /\ ~normalAfter
    <3>1. V2 = V1 /\ n2 = 1 /\ w2 = lw /\ Q2 = 1
      BY <1>6, <2>5
    <3>2. A1 = V1
      BY <2>5 DEF Acc
    <3>3. Acc(V2, n2, w2, Q2, B) = V1 * (1 * B) + lw * 1 + (1 - 1)
      BY <3>1 DEF Acc
    <3>4. V1 * (1 * B) + lw * 1 + (1 - 1) = A1 * B + lw
      BY <3>2, <2>1, <1>3, SMT
    <3>5. QED
      BY <3>3, <3>4, <3>1, <2>2, <1>0, SMT
  <2>6. QED
    BY <2>3, <2>4, <2>5, <1>3, SMT
<1>7. QED
  BY <1>5, <1>6
=============================================================================
