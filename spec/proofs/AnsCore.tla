------------------------------ MODULE AnsCore ------------------------------
(* Machine-checked (TLAPS) proof, for ALL widths and precisions, of the      *)
(* arithmetic core of properties C01 / C04: one rANS coding step without     *)
(* renormalisation is exactly invertible.  N stands for 2^PRECISION; the     *)
(* operators are those of Ans.tla (AnsEnc / AnsDec) with the flush / refill  *)
(* branch removed.  TLC checks the complete step (with renormalisation) at   *)
(* small widths; this proof removes the width bound for the core.            *)
EXTENDS Naturals, TLAPS

Enc(s, N, c, p) == (s \div p) * N + c + (s % p)
Quant(e, N) == e % N
Dec(e, N, c, p) == (e \div N) * p + (Quant(e, N) - c)

LEMMA MulMono == ASSUME NEW a \in Nat, NEW b \in Nat, NEW N \in Nat, a >= b PROVE a * N >= b * N
  BY SMT
LEMMA MulSucc == ASSUME NEW k \in Nat, NEW N \in Nat PROVE (k + 1) * N = k * N + N
  BY SMT
LEMMA DivModFacts == ASSUME NEW x \in Nat, NEW N \in Nat, N > 0
                     PROVE x = N * (x \div N) + (x % N) /\ x % N < N /\ x % N \in Nat /\ x \div N \in Nat
  BY SMT

LEMMA DivModUnique ==
    ASSUME NEW q \in Nat, NEW r \in Nat, NEW N \in Nat, N > 0, r < N
    PROVE  (q * N + r) \div N = q /\ (q * N + r) % N = r
<1> DEFINE x == q * N + r
<1> DEFINE d == x \div N
<1> DEFINE m == x % N
<1>0. x \in Nat /\ q * N \in Nat
  BY SMT
<1>1. x = N * d + m /\ m < N /\ m \in Nat /\ d \in Nat
  BY <1>0, DivModFacts
<1>2. d = q
  <2>1. CASE d >= q + 1
    <3>1. d * N >= (q + 1) * N
      BY <2>1, <1>1, MulMono
    <3>2. (q + 1) * N = q * N + N
      BY MulSucc
    <3>3. N * d = d * N
      BY <1>1, SMT
    <3>4. x >= q * N + N
      BY <3>1, <3>2, <3>3, <1>0, <1>1, SMT
    <3>5. x < q * N + N
      BY <1>0, SMT
    <3>6. QED
      BY <3>4, <3>5, <1>0, SMT
  <2>2. CASE q >= d + 1
    <3>1. q * N >= (d + 1) * N
      BY <2>2, <1>1, MulMono
    <3>2. (d + 1) * N = d * N + N
      BY <1>1, MulSucc
    <3>3. N * d = d * N
      BY <1>1, SMT
    <3>4. QED
      BY <3>1, <3>2, <3>3, <1>0, <1>1, SMT
  <2>3. QED
    BY <2>1, <2>2, <1>1, SMT
<1>3. m = r
  <2>1. N * d = q * N
    BY <1>1, <1>2, SMT
  <2>2. QED
    BY <2>1, <1>0, <1>1, SMT
<1>4. QED
  BY <1>2, <1>3

THEOREM PopAfterPush ==
    ASSUME NEW s \in Nat, NEW N \in Nat, NEW c \in Nat, NEW p \in Nat,
           p >= 1, c + p <= N
    PROVE  /\ Quant(Enc(s, N, c, p), N) >= c
           /\ Quant(Enc(s, N, c, p), N) < c + p
           /\ Dec(Enc(s, N, c, p), N, c, p) = s
<1> DEFINE q == s \div p
<1> DEFINE r == s % p
<1>0. p > 0
  OBVIOUS
<1>1. r \in Nat /\ r < p /\ q \in Nat /\ s = p * q + r
  BY <1>0, DivModFacts
<1>2. c + r \in Nat /\ c + r < N /\ N > 0
  BY <1>1, SMT
<1>3. Enc(s, N, c, p) = q * N + (c + r)
  BY <1>1, SMT DEF Enc
<1>4. (q * N + (c + r)) \div N = q /\ (q * N + (c + r)) % N = c + r
  BY <1>1, <1>2, DivModUnique
<1>5. Quant(Enc(s, N, c, p), N) = c + r /\ Enc(s, N, c, p) \div N = q
  BY <1>3, <1>4 DEF Quant
<1>6. Dec(Enc(s, N, c, p), N, c, p) = q * p + r
  BY <1>5, <1>1, SMT DEF Dec
<1>7. q * p = p * q
  BY <1>1, SMT
<1>8. QED
  BY <1>1, <1>2, <1>5, <1>6, <1>7, SMT

THEOREM PushAfterPop ==
    ASSUME NEW e \in Nat, NEW N \in Nat, NEW c \in Nat, NEW p \in Nat,
           p >= 1, c + p <= N, Quant(e, N) >= c, Quant(e, N) < c + p
    PROVE  Enc(Dec(e, N, c, p), N, c, p) = e
<1> DEFINE d == e \div N
<1> DEFINE m == e % N
<1>0. N > 0 /\ p > 0
  BY SMT
<1>1. m \in Nat /\ m < N /\ d \in Nat /\ e = N * d + m
  BY <1>0, DivModFacts
<1>2. m - c \in Nat /\ m - c < p
  BY <1>1, SMT DEF Quant
<1>3. Dec(e, N, c, p) = d * p + (m - c)
  BY DEF Dec, Quant
<1>4. (d * p + (m - c)) \div p = d /\ (d * p + (m - c)) % p = m - c
  BY <1>0, <1>1, <1>2, DivModUnique
<1>5. Enc(Dec(e, N, c, p), N, c, p) = d * N + c + (m - c)
  BY <1>3, <1>4 DEF Enc
<1>6. d * N = N * d
  BY <1>1, SMT
<1>7. QED
  BY <1>1, <1>2, <1>5, <1>6, SMT
=============================================================================
