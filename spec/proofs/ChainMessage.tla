---------------------------- MODULE ChainMessage ----------------------------
(* Machine-checked (TLAPS) END-TO-END theorem for the remainders side of the  *)
(* chain coder (property C13), for ALL widths, precisions and message         *)
(* lengths.  RemaindersStep (ChainStep.tla) is lifted from numbers to whole   *)
(* remainders configurations (head + bulk of flushed words, as in Chain.tla / *)
(* src/stream/chain.rs) and to a behaviour that DEcodes an unbounded sequence *)
(* of symbols (each pulling an arbitrary quantile q of its slot off the       *)
(* compressed side, which is pure bit slicing and covered by TLC):            *)
(*   RemStep   one decoding step keeps the head invariant, and the encoding   *)
(*             step applied to its result returns EXACTLY the previous        *)
(*             configuration (head and bulk) and the quantile that was pulled;*)
(*   Message   in every reachable state, encoding the symbols back in reverse *)
(*             order walks through every earlier configuration down to the    *)
(*             initial one and reproduces every quantile (`hist`, `qs` are    *)
(*             ghost records; the invariant is inductive).                    *)
(*   RemStepRev, MessageRev   the other direction: encoding onto ANY valid     *)
(*             configuration and decoding again restores it (second half).    *)
(* Th = 2^(S-W-P), B = 2^W as in ChainStep.                                   *)
EXTENDS ChainStep, Sequences

CONSTANTS Th, B, cf0
Cfgs == [head : Nat, bulk : Seq(Nat)]
CfgInv(cf) == cf \in Cfgs /\ cf.head >= Th /\ cf.head < Th * B
ASSUME Widths == Th \in Nat /\ B \in Nat /\ Th >= 1 /\ B >= 1
ASSUME Start == CfgInv(cf0)

(* a symbol's slot <<c, p>> together with the quantile q pulled from the compressed side *)
Syms == {x \in Nat \X Nat \X Nat : x[2] >= 1 /\ x[2] <= B /\ x[3] >= x[1] /\ x[3] < x[1] + x[2]}

DecR(cf, c, p, q) ==
    LET hr1 == cf.head * p + (q - c)
        flush == hr1 >= Th * B
    IN IF flush THEN [head |-> hr1 \div B, bulk |-> Append(cf.bulk, hr1 % B)]
       ELSE [head |-> hr1, bulk |-> cf.bulk]

EncR(cf, c, p) ==
    LET refill == cf.head < p * Th
        hr0 == IF refill THEN cf.head * B + cf.bulk[Len(cf.bulk)] ELSE cf.head
        b0 == IF refill THEN SubSeq(cf.bulk, 1, Len(cf.bulk) - 1) ELSE cf.bulk
    IN [cf |-> [head |-> hr0 \div p, bulk |-> b0], q |-> c + (hr0 % p)]

LEMMA AppendFront == ASSUME NEW s \in Seq(Nat), NEW w \in Nat
                     PROVE /\ Append(s, w) \in Seq(Nat)
                           /\ Append(s, w)[Len(Append(s, w))] = w
                           /\ SubSeq(Append(s, w), 1, Len(Append(s, w)) - 1) = s
  OBVIOUS

THEOREM RemStep ==
    ASSUME NEW cf, CfgInv(cf), NEW c \in Nat, NEW p \in Nat, p >= 1, p <= B, NEW q \in Nat, q >= c, q < c + p
    PROVE  /\ CfgInv(DecR(cf, c, p, q))
           /\ EncR(DecR(cf, c, p, q), c, p) = [cf |-> cf, q |-> q]
<1> DEFINE hr == cf.head
<1> DEFINE hr1 == hr * p + (q - c)
<1> DEFINE flush == hr1 >= Th * B
<1> DEFINE word == hr1 % B
<1> DEFINE hr2 == IF flush THEN hr1 \div B ELSE hr1
<1> DEFINE b2 == IF flush THEN Append(cf.bulk, word) ELSE cf.bulk
<1> DEFINE refill == hr2 < p * Th
<1> DEFINE hr0 == IF refill THEN hr2 * B + word ELSE hr2
<1>0. /\ hr \in Nat /\ cf.bulk \in Seq(Nat) /\ cf = [head |-> hr, bulk |-> cf.bulk]
      /\ hr >= Th /\ hr < Th * B
  BY DEF CfgInv, Cfgs
<1>1. /\ hr2 >= Th /\ hr2 < Th * B
      /\ refill <=> flush
      /\ hr0 = hr1
      /\ c + (hr0 % p) = q
      /\ hr0 \div p = hr
  BY <1>0, Widths, RemaindersStep
<1>2. B > 0 /\ hr1 \in Nat /\ word \in Nat /\ hr2 \in Nat
  <2>1. B > 0 /\ q - c \in Nat
    BY Widths, SMT
  <2>2. hr * p \in Nat
    BY <1>0, SMT
  <2>3. hr1 \in Nat
    BY <2>1, <2>2, SMT
  <2>4. word \in Nat /\ hr1 \div B \in Nat
    BY <2>1, <2>3, Widths, DivModFacts
  <2>5. QED
    BY <2>1, <2>3, <2>4
<1>3. DecR(cf, c, p, q) = [head |-> hr2, bulk |-> b2]
  BY DEF DecR
<1>4. b2 \in Seq(Nat)
  BY <1>0, <1>2, AppendFront
<1>5. CfgInv(DecR(cf, c, p, q))
  BY <1>1, <1>2, <1>3, <1>4 DEF CfgInv, Cfgs
<1>6. EncR([head |-> hr2, bulk |-> b2], c, p)
        = [cf |-> [head |-> (IF refill THEN hr2 * B + b2[Len(b2)] ELSE hr2) \div p,
                   bulk |-> IF refill THEN SubSeq(b2, 1, Len(b2) - 1) ELSE b2],
           q |-> c + ((IF refill THEN hr2 * B + b2[Len(b2)] ELSE hr2) % p)]
  BY DEF EncR
<1>7. CASE flush
  <2>1. b2 = Append(cf.bulk, word) /\ refill
    BY <1>7, <1>1
  <2>2. b2[Len(b2)] = word /\ SubSeq(b2, 1, Len(b2) - 1) = cf.bulk
    BY <2>1, <1>0, <1>2, AppendFront
  <2>3. (IF refill THEN hr2 * B + b2[Len(b2)] ELSE hr2) = hr0
    BY <2>1, <2>2
  <2>4. EncR([head |-> hr2, bulk |-> b2], c, p) = [cf |-> [head |-> hr0 \div p, bulk |-> cf.bulk], q |-> c + (hr0 % p)]
    BY <2>1, <2>2, <2>3, <1>6
  <2>5. [head |-> hr0 \div p, bulk |-> cf.bulk] = cf /\ c + (hr0 % p) = q
    BY <1>0, <1>1
  <2>6. QED
    BY <2>4, <2>5, <1>3, <1>5
<1>8. CASE ~flush
  <2>1. b2 = cf.bulk /\ ~refill
    BY <1>8, <1>1
  <2>2. (IF refill THEN hr2 * B + b2[Len(b2)] ELSE hr2) = hr0
    BY <2>1
  <2>3. EncR([head |-> hr2, bulk |-> b2], c, p) = [cf |-> [head |-> hr0 \div p, bulk |-> cf.bulk], q |-> c + (hr0 % p)]
    BY <2>1, <2>2, <1>6
  <2>4. [head |-> hr0 \div p, bulk |-> cf.bulk] = cf /\ c + (hr0 % p) = q
    BY <1>0, <1>1
  <2>5. QED
    BY <2>3, <2>4, <1>3, <1>5
<1>9. QED
  BY <1>5, <1>7, <1>8

-----------------------------------------------------------------------------
(* The machine that decodes a whole message, one symbol per step. *)
VARIABLES cf, hist, syms
vars == <<cf, hist, syms>>

Init == cf = cf0 /\ hist = <<>> /\ syms = <<>>
Pull(c, p, q) == /\ cf' = DecR(cf, c, p, q)
                 /\ hist' = Append(hist, cf)
                 /\ syms' = Append(syms, <<c, p, q>>)
Next == \E x \in Syms : Pull(x[1], x[2], x[3])
Spec == Init /\ [][Next]_vars

After(i) == IF i = Len(hist) THEN cf ELSE hist[i + 1]          \* the configuration after step i
Inv == /\ CfgInv(cf)
       /\ hist \in Seq(Cfgs) /\ syms \in Seq(Syms) /\ Len(hist) = Len(syms)
       /\ (hist = <<>> => cf = cf0) /\ (hist # <<>> => hist[1] = cf0)
       /\ \A i \in 1..Len(hist) : /\ CfgInv(hist[i])
                                   /\ EncR(After(i), syms[i][1], syms[i][2]) = [cf |-> hist[i], q |-> syms[i][3]]

THEOREM Message == Spec => []Inv
<1>1. Init => Inv
  BY Start DEF Init, Inv, CfgInv
<1>2. Inv /\ [Next]_vars => Inv'
  <2> SUFFICES ASSUME Inv, [Next]_vars PROVE Inv'
    OBVIOUS
  <2>1. CASE UNCHANGED vars
    BY <2>1 DEF Inv, vars, After
  <2>2. ASSUME NEW x \in Syms, Pull(x[1], x[2], x[3]) PROVE Inv'
    <3> DEFINE c == x[1]
    <3> DEFINE p == x[2]
    <3> DEFINE q == x[3]
    <3> DEFINE n == Len(hist)
    <3>0. c \in Nat /\ p \in Nat /\ q \in Nat /\ p >= 1 /\ p <= B /\ q >= c /\ q < c + p /\ x = <<c, p, q>>
      BY DEF Syms
    <3>1. CfgInv(cf) /\ cf \in Cfgs /\ hist \in Seq(Cfgs) /\ syms \in Seq(Syms) /\ Len(syms) = n /\ n \in Nat
      BY DEF Inv, CfgInv
    <3>2. CfgInv(DecR(cf, c, p, q)) /\ EncR(DecR(cf, c, p, q), c, p) = [cf |-> cf, q |-> q]
      BY <3>0, <3>1, RemStep
    <3>3. /\ cf' = DecR(cf, c, p, q) /\ hist' = Append(hist, cf) /\ syms' = Append(syms, x)
      BY <2>2, <3>0 DEF Pull
    <3>4. /\ hist' \in Seq(Cfgs) /\ syms' \in Seq(Syms) /\ Len(hist') = n + 1 /\ Len(syms') = n + 1
          /\ hist'[n + 1] = cf /\ syms'[n + 1] = x
          /\ \A i \in 1..n : hist'[i] = hist[i] /\ syms'[i] = syms[i]
      BY <3>1, <3>3
    <3>5. (hist' # <<>>) /\ hist'[1] = cf0
      <4>1. CASE n = 0
        BY <4>1, <3>1, <3>4 DEF Inv
      <4>2. CASE n > 0
        BY <4>2, <3>1, <3>4 DEF Inv
      <4>3. QED
        BY <4>1, <4>2, <3>1
    <3>6. ASSUME NEW i \in 1..(n + 1)
          PROVE /\ CfgInv(hist'[i])
                /\ EncR(IF i = n + 1 THEN cf' ELSE hist'[i + 1], syms'[i][1], syms'[i][2]) = [cf |-> hist'[i], q |-> syms'[i][3]]
      <4>1. CASE i = n + 1
        BY <4>1, <3>0, <3>1, <3>2, <3>3, <3>4
      <4>2. CASE i = n
        <5>1. i \in 1..n /\ After(i) = cf /\ hist'[i + 1] = cf /\ i # n + 1
          BY <4>2, <3>1, <3>4 DEF After
        <5>2. CfgInv(hist[i]) /\ EncR(After(i), syms[i][1], syms[i][2]) = [cf |-> hist[i], q |-> syms[i][3]]
          BY <5>1 DEF Inv
        <5>3. QED
          BY <5>1, <5>2, <3>4
      <4>3. CASE i < n
        <5>1. i \in 1..n /\ i + 1 \in 1..n /\ After(i) = hist[i + 1] /\ i # n + 1
          BY <4>3, <3>1 DEF After
        <5>2. CfgInv(hist[i]) /\ EncR(After(i), syms[i][1], syms[i][2]) = [cf |-> hist[i], q |-> syms[i][3]]
          BY <5>1 DEF Inv
        <5>3. hist'[i + 1] = hist[i + 1] /\ hist'[i] = hist[i] /\ syms'[i] = syms[i]
          BY <5>1, <3>4
        <5>4. QED
          BY <5>1, <5>2, <5>3
      <4>4. QED
        BY <4>1, <4>2, <4>3, <3>1
    <3>7. QED
      BY <3>2, <3>3, <3>4, <3>5, <3>6 DEF Inv, After
  <2>3. QED
    BY <2>1, <2>2 DEF Next
<1>3. QED
  BY <1>1, <1>2, PTL DEF Spec

-----------------------------------------------------------------------------
(* The other direction (the chain coder used as an ENcoder): encoding a       *)
(* symbol onto any valid remainders configuration whose bulk holds words      *)
(* (< B) - unless that fails with OutOfRemainders - and decoding it again     *)
(* restores exactly that configuration (RemStepRev), for messages of any      *)
(* length (MessageRev).                                                       *)
CfgInvW(x) == CfgInv(x) /\ \A i \in 1..Len(x.bulk) : x.bulk[i] < B
CanEnc(x, p) == (x.head < p * Th) => (x.bulk # <<>>)              \* not OutOfRemainders

LEMMA FrontAppend == ASSUME NEW s \in Seq(Nat), s # <<>>
                     PROVE /\ SubSeq(s, 1, Len(s) - 1) \in Seq(Nat)
                           /\ Append(SubSeq(s, 1, Len(s) - 1), s[Len(s)]) = s
                           /\ s[Len(s)] \in Nat /\ Len(s) \in 1..Len(s)
                           /\ Len(SubSeq(s, 1, Len(s) - 1)) = Len(s) - 1
                           /\ \A i \in 1..(Len(s) - 1) : SubSeq(s, 1, Len(s) - 1)[i] = s[i]
  OBVIOUS

THEOREM RemStepRev ==
    ASSUME NEW x, CfgInvW(x), NEW c \in Nat, NEW p \in Nat, p >= 1, p <= B, CanEnc(x, p)
    PROVE  LET r == EncR(x, c, p)
           IN /\ CfgInvW(r.cf)
              /\ r.q \in Nat /\ r.q >= c /\ r.q < c + p
              /\ DecR(r.cf, c, p, r.q) = x
<1> DEFINE hr == x.head
<1> DEFINE ne == x.bulk # <<>>
<1> DEFINE w == IF ne THEN x.bulk[Len(x.bulk)] ELSE 0
<1> DEFINE refill == hr < p * Th
<1> DEFINE hr0 == IF refill THEN hr * B + w ELSE hr
<1> DEFINE q == c + (hr0 % p)
<1> DEFINE hr1 == hr0 \div p
<1> DEFINE hd == hr1 * p + (q - c)
<1> DEFINE flush == hd >= Th * B
<1> DEFINE b0 == IF refill THEN SubSeq(x.bulk, 1, Len(x.bulk) - 1) ELSE x.bulk
<1>0. /\ hr \in Nat /\ x.bulk \in Seq(Nat) /\ x = [head |-> hr, bulk |-> x.bulk]
      /\ hr >= Th /\ hr < Th * B /\ (refill => ne)
      /\ \A i \in 1..Len(x.bulk) : x.bulk[i] < B
  BY DEF CfgInvW, CfgInv, Cfgs, CanEnc
<1>1. w \in Nat /\ w < B /\ B > 0 /\ p > 0
  <2>1. B > 0 /\ p > 0
    BY Widths, SMT
  <2>2. CASE ne
    BY <2>1, <2>2, <1>0, FrontAppend
  <2>3. CASE ~ne
    BY <2>1, <2>3
  <2>4. QED
    BY <2>2, <2>3
<1>2. /\ hr1 >= Th /\ hr1 < Th * B
      /\ q >= c /\ q < c + p
      /\ hd = hr0
      /\ flush <=> refill
      /\ refill => (hd % B = w /\ hd \div B = hr)
      /\ ~refill => hd = hr
  BY <1>0, <1>1, Widths, RemaindersStepRev
<1>3. hr0 \in Nat /\ hr1 \in Nat /\ q \in Nat
  <2>1. hr * B \in Nat
    BY <1>0, Widths, SMT
  <2>2. hr0 \in Nat
    BY <2>1, <1>0, <1>1, SMT
  <2>3. hr1 \in Nat /\ hr0 % p \in Nat
    BY <2>2, <1>1, DivModFacts
  <2>4. QED
    BY <2>2, <2>3, SMT
<1>4. EncR(x, c, p) = [cf |-> [head |-> hr1, bulk |-> b0], q |-> q]
  <2>1. refill => x.bulk[Len(x.bulk)] = w
    BY <1>0
  <2>2. QED
    BY <2>1 DEF EncR
<1>5. /\ b0 \in Seq(Nat) /\ \A i \in 1..Len(b0) : b0[i] < B
      /\ refill => Append(b0, w) = x.bulk
  <2>1. CASE refill
    BY <2>1, <1>0, FrontAppend
  <2>2. CASE ~refill
    BY <2>2, <1>0
  <2>3. QED
    BY <2>1, <2>2
<1>6. CfgInvW([head |-> hr1, bulk |-> b0])
  BY <1>2, <1>3, <1>5 DEF CfgInvW, CfgInv, Cfgs
<1>7. DecR([head |-> hr1, bulk |-> b0], c, p, q)
        = IF flush THEN [head |-> hd \div B, bulk |-> Append(b0, hd % B)] ELSE [head |-> hd, bulk |-> b0]
  BY DEF DecR
<1>8. DecR([head |-> hr1, bulk |-> b0], c, p, q) = x
  <2>1. CASE refill
    <3>1. flush /\ hd \div B = hr /\ hd % B = w /\ Append(b0, w) = x.bulk
      BY <2>1, <1>2, <1>5
    <3>2. QED
      BY <3>1, <1>7, <1>0
  <2>2. CASE ~refill
    <3>1. ~flush /\ hd = hr /\ b0 = x.bulk
      BY <2>2, <1>2
    <3>2. QED
      BY <3>1, <1>7, <1>0
  <2>3. QED
    BY <2>1, <2>2
<1>9. QED
  BY <1>2, <1>3, <1>4, <1>6, <1>8

(* The machine that encodes a whole message onto the remainders, one symbol per step. *)
VARIABLE qs                                                       \* ghost: the quantiles handed to the compressed side
varsR == <<cf, hist, syms, qs>>
InitR == Init /\ qs = <<>>
PushR(c, p) == /\ CanEnc(cf, p)
               /\ cf' = EncR(cf, c, p).cf
               /\ qs' = Append(qs, EncR(cf, c, p).q)
               /\ hist' = Append(hist, cf)
               /\ syms' = Append(syms, <<c, p, c>>)
NextR == \E y \in Syms : PushR(y[1], y[2])
SpecR == InitR /\ [][NextR]_varsR
ASSUME StartW == CfgInvW(cf0)

InvR == /\ CfgInvW(cf)
        /\ hist \in Seq(Cfgs) /\ syms \in Seq(Syms) /\ qs \in Seq(Nat) /\ Len(hist) = Len(syms) /\ Len(qs) = Len(syms)
        /\ (hist = <<>> => cf = cf0) /\ (hist # <<>> => hist[1] = cf0)
        /\ \A i \in 1..Len(hist) : DecR(After(i), syms[i][1], syms[i][2], qs[i]) = hist[i]

THEOREM MessageRev == SpecR => []InvR
<1>1. InitR => InvR
  BY StartW DEF InitR, Init, InvR, CfgInvW, CfgInv
<1>2. InvR /\ [NextR]_varsR => InvR'
  <2> SUFFICES ASSUME InvR, [NextR]_varsR PROVE InvR'
    OBVIOUS
  <2>1. CASE UNCHANGED varsR
    BY <2>1 DEF InvR, varsR, After
  <2>2. ASSUME NEW y \in Syms, PushR(y[1], y[2]) PROVE InvR'
    <3> DEFINE c == y[1]
    <3> DEFINE p == y[2]
    <3> DEFINE n == Len(hist)
    <3> DEFINE r == EncR(cf, c, p)
    <3> DEFINE sy == <<c, p, c>>
    <3>0. c \in Nat /\ p \in Nat /\ p >= 1 /\ p <= B /\ sy \in Syms
      BY DEF Syms
    <3>1. CfgInvW(cf) /\ cf \in Cfgs /\ hist \in Seq(Cfgs) /\ syms \in Seq(Syms) /\ qs \in Seq(Nat)
          /\ Len(syms) = n /\ Len(qs) = n /\ n \in Nat
      BY DEF InvR, CfgInvW, CfgInv
    <3>2. CfgInvW(r.cf) /\ r.q \in Nat /\ DecR(r.cf, c, p, r.q) = cf
      BY <2>2, <3>0, <3>1, RemStepRev DEF PushR
    <3>3. /\ cf' = r.cf /\ hist' = Append(hist, cf) /\ syms' = Append(syms, sy) /\ qs' = Append(qs, r.q)
      BY <2>2 DEF PushR
    <3>4. /\ hist' \in Seq(Cfgs) /\ syms' \in Seq(Syms) /\ qs' \in Seq(Nat)
          /\ Len(hist') = n + 1 /\ Len(syms') = n + 1 /\ Len(qs') = n + 1
          /\ hist'[n + 1] = cf /\ syms'[n + 1] = sy /\ qs'[n + 1] = r.q
          /\ \A i \in 1..n : hist'[i] = hist[i] /\ syms'[i] = syms[i] /\ qs'[i] = qs[i]
      BY <3>0, <3>1, <3>2, <3>3
    <3>5. (hist' # <<>>) /\ hist'[1] = cf0
      <4>1. CASE n = 0
        BY <4>1, <3>1, <3>4 DEF InvR
      <4>2. CASE n > 0
        BY <4>2, <3>1, <3>4 DEF InvR
      <4>3. QED
        BY <4>1, <4>2, <3>1
    <3>6. ASSUME NEW i \in 1..(n + 1)
          PROVE DecR(IF i = n + 1 THEN cf' ELSE hist'[i + 1], syms'[i][1], syms'[i][2], qs'[i]) = hist'[i]
      <4>1. CASE i = n + 1
        BY <4>1, <3>0, <3>1, <3>2, <3>3, <3>4
      <4>2. CASE i = n
        <5>1. i \in 1..n /\ After(i) = cf /\ hist'[i + 1] = cf /\ i # n + 1
          BY <4>2, <3>1, <3>4 DEF After
        <5>2. DecR(After(i), syms[i][1], syms[i][2], qs[i]) = hist[i]
          BY <5>1 DEF InvR
        <5>3. QED
          BY <5>1, <5>2, <3>4
      <4>3. CASE i < n
        <5>1. i \in 1..n /\ i + 1 \in 1..n /\ After(i) = hist[i + 1] /\ i # n + 1
          BY <4>3, <3>1 DEF After
        <5>2. DecR(After(i), syms[i][1], syms[i][2], qs[i]) = hist[i]
          BY <5>1 DEF InvR
        <5>3. hist'[i + 1] = hist[i + 1] /\ hist'[i] = hist[i] /\ syms'[i] = syms[i] /\ qs'[i] = qs[i]
          BY <5>1, <3>4
        <5>4. QED
          BY <5>1, <5>2, <5>3
      <4>4. QED
        BY <4>1, <4>2, <4>3, <3>1
    <3>7. QED
      BY <3>2, <3>3, <3>4, <3>5, <3>6 DEF InvR, After
  <2>3. QED
    BY <2>1, <2>2 DEF NextR
<1>3. QED
  BY <1>1, <1>2, PTL DEF SpecR

-----------------------------------------------------------------------------
(* The remainders bulk is append-only while decoding and pop-only while      *)
(* encoding: a flushed word is never modified, at most one word is written   *)
(* or removed per symbol.                                                    *)
THEOREM BulkDiscipline ==
    ASSUME NEW x \in Cfgs, NEW c \in Nat, NEW p \in Nat, NEW q \in Nat
    PROVE  /\ Len(DecR(x, c, p, q).bulk) \in {Len(x.bulk), Len(x.bulk) + 1}
           /\ \A i \in 1..Len(x.bulk) : DecR(x, c, p, q).bulk[i] = x.bulk[i]
           /\ Len(EncR(x, c, p).cf.bulk) \in {Len(x.bulk), Len(x.bulk) - 1}
           /\ \A i \in 1..Len(EncR(x, c, p).cf.bulk) : EncR(x, c, p).cf.bulk[i] = x.bulk[i]
<1>1. x.bulk \in Seq(Nat)
  BY DEF Cfgs
<1>2. /\ Len(DecR(x, c, p, q).bulk) \in {Len(x.bulk), Len(x.bulk) + 1}
      /\ \A i \in 1..Len(x.bulk) : DecR(x, c, p, q).bulk[i] = x.bulk[i]
  BY <1>1 DEF DecR
<1> DEFINE eb == EncR(x, c, p).cf.bulk
<1> DEFINE fr == SubSeq(x.bulk, 1, Len(x.bulk) - 1)
<1>3. eb = x.bulk \/ eb = fr
  BY DEF EncR
<1>4. CASE eb = x.bulk
  BY <1>4, <1>1, <1>2
<1>5. CASE eb = fr /\ x.bulk # <<>>
  <2>1. Len(fr) = Len(x.bulk) - 1 /\ \A i \in 1..(Len(x.bulk) - 1) : fr[i] = x.bulk[i]
    BY <1>1, <1>5, FrontAppend
  <2>2. Len(eb) = Len(x.bulk) - 1 /\ \A i \in 1..Len(eb) : eb[i] = x.bulk[i]
    BY <2>1, <1>5
  <2>3. QED
    BY <2>2, <1>2
<1>6. CASE eb = fr /\ x.bulk = <<>>
  <2>1. fr = <<>> /\ Len(x.bulk) = 0
    BY <1>6, <1>1
  <2>2. eb = x.bulk
    BY <2>1, <1>6
  <2>3. QED
    BY <2>2, <1>1, <1>2
<1>7. QED
  BY <1>3, <1>4, <1>5, <1>6
=============================================================================
