CONSTANTS W = 2 S = 4 MaxInit = 3 MaxBulk = 2
SPECIFICATION Spec
CONSTRAINT Bound
INVARIANTS TypeInv StateInv LawPopAfterPush LawPushAfterPop LawDecodeTotal LawImportExport LawSizes LawStepBound LawBinary Emit
CHECK_DEADLOCK FALSE
