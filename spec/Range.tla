------------------------------- MODULE Range -------------------------------
(* Range coder of src/stream/queue.rs (`RangeEncoder`, `RangeDecoder`).      *)
(*   W = Word::BITS, S = State::BITS (S a multiple of W, S >= 2W)            *)
(* Encoder  = [lower, range, sitN, sitW, bulk]  (sitN = 0: Normal;           *)
(*            sitN > 0: Inverted(sitN, sitW), i.e. sitN words are held back  *)
(*            because a later carry may still increment them)                *)
(* Decoder  = [lower, range, point, pos, data]  (pos = number of words read) *)
EXTENDS Bits

CONSTANTS W, S
ASSUME S >= 2 * W /\ W >= 1 /\ S % W = 0

M == Pow2(S)
K == S - W
NW == S \div W
WMax == Pow2(W) - 1
Precisions == 1..W

Enc(lo, ra, n, w, bk) == [lower |-> lo, range |-> ra, sitN |-> n, sitW |-> w, bulk |-> bk]
EncNew == Enc(0, M - 1, 0, 0, <<>>)

EncTypeOK(e) == /\ e.lower \in 0..(M - 1) /\ e.range \in 1..(M - 1)
                /\ e.sitN \in Nat /\ e.sitW \in 0..WMax /\ e.bulk \in Seq(0..WMax)
\* range invariant (*) of the implementation, and what "inverted" means
EncInv(e) == /\ e.range >= Pow2(K)
             /\ (e.sitN = 0 => e.lower + e.range <= M)         \* normal: the interval does not wrap ...
             /\ (e.sitN > 0 => e.lower + e.range >= M)         \* inverted: it reaches or crosses the top
             /\ (e.sitN > 0 => e.sitW < WMax)                  \* so that `sitW + 1` cannot overflow

(***************************************************************************)
(* encode_symbol, in the implementation's three stages                      *)
(***************************************************************************)
HeldNoCarry(e) == IF e.sitN = 0 THEN <<>> ELSE <<e.sitW>> \o Rep(WMax, e.sitN - 1)
HeldCarry(e) == IF e.sitN = 0 THEN <<>> ELSE <<e.sitW + 1>> \o Rep(0, e.sitN - 1)

REnc(e, P, c, p) ==
    LET scale == Shr(e.range, P)
        r1 == scale * p
        nl == Wrap(e.lower + scale * c, S)
        \* stage 2: an inverted situation is resolved as soon as the interval no longer wraps
        resolves == e.sitN > 0 /\ Wrap(nl + r1, S) > nl
        carry == nl < e.lower
        b1 == IF resolves THEN e.bulk \o (IF carry THEN HeldCarry(e) ELSE HeldNoCarry(e)) ELSE e.bulk
        n1 == IF resolves THEN 0 ELSE e.sitN
        \* stage 3: renormalisation
        renorm == r1 < Pow2(K)
        r2 == IF renorm THEN r1 * Pow2(W) ELSE r1
        lw == Shr(nl, K)
        l2 == IF renorm THEN Wrap(nl * Pow2(W), S) ELSE nl
        normalAfter == Wrap(l2 + r2, S) > l2
    IN IF ~renorm THEN Enc(l2, r2, n1, e.sitW, b1)
       ELSE IF n1 > 0 THEN Enc(l2, r2, n1 + 1, e.sitW, b1)            \* inverted -> inverted
       ELSE IF normalAfter THEN Enc(l2, r2, 0, e.sitW, Append(b1, lw)) \* normal -> normal
       ELSE Enc(l2, r2, 1, lw, b1)                                      \* normal -> inverted

\* classification of a step, for coverage (vacuity) accounting
StepClass(e, P, c, p) ==
    LET scale == Shr(e.range, P)
        r1 == scale * p
        nl == Wrap(e.lower + scale * c, S)
        resolves == e.sitN > 0 /\ Wrap(nl + r1, S) > nl
        carry == nl < e.lower
        renorm == r1 < Pow2(K)
        n == REnc(e, P, c, p)
    IN IF resolves THEN (IF carry THEN "resolve_carry" ELSE "resolve_nocarry")
       ELSE IF e.sitN > 0 /\ renorm THEN "inverted_inverted"
       ELSE IF e.sitN > 0 THEN "inverted_stay"
       ELSE IF renorm /\ n.sitN > 0 THEN "normal_inverted"
       ELSE IF renorm THEN "normal_normal" ELSE "no_renorm"

(***************************************************************************)
(* seal / into_compressed / get_compressed / num_words                      *)
(***************************************************************************)
IsFresh(e) == e.range = M - 1                      \* nothing encoded yet: seals to nothing
SealPoint(e) == Wrap(e.lower + Pow2(K) - 1, S)
SealWords(e) ==
    IF IsFresh(e) THEN <<>> ELSE
    LET point == SealPoint(e)
        held == IF point < e.lower THEN HeldCarry(e) ELSE HeldNoCarry(e)
        pw == Shr(point, K)
        uw == Shr(Wrap(e.lower + e.range, S), K)
    IN held \o <<pw>> \o (IF uw = pw THEN Rep(0, NW - 1) ELSE <<>>)
Sealed(e) == e.bulk \o SealWords(e)
NumWords(e) == Len(e.bulk) + Len(SealWords(e))
IsEmpty(e) == IsFresh(e) /\ e.bulk = <<>>
EncPos(e) == Len(e.bulk) + e.sitN                   \* Pos::pos().0
EncClear(e) == EncNew                                \* RangeEncoder::clear(): a fresh encoder, in particular no held-back words

(***************************************************************************)
(* decoder                                                                   *)
(***************************************************************************)
Dec(lo, ra, pt, ps, d) == [lower |-> lo, range |-> ra, point |-> pt, pos |-> ps, data |-> d]
WordAt(d, i) == IF i <= Len(d) THEN d[i] ELSE 0
RECURSIVE ReadPointRec(_, _, _, _)
ReadPointRec(d, pos, n, acc) == IF n = 0 THEN acc ELSE ReadPointRec(d, pos + 1, n - 1, acc * Pow2(W) + WordAt(d, pos + 1))
\* read_point from word index `pos` (0-based count of consumed words): missing words read as zero
ReadPoint(d, pos) == ReadPointRec(d, pos, NW, 0)
Min(a, b) == IF a < b THEN a ELSE b
DecNew(d) == Dec(0, M - 1, ReadPoint(d, 0), Min(NW, Len(d)), d)
DecSeek(dc, pos, lo, ra) == Dec(lo, ra, ReadPoint(dc.data, pos), Min(pos + NW, Len(dc.data)), dc.data)   \* only if pos <= Len(data)

DecTypeOK(dc) == dc.lower \in 0..(M - 1) /\ dc.range \in 1..(M - 1) /\ dc.point \in 0..(M - 1) /\ dc.pos \in 0..Len(dc.data)
DecInv(dc) == Wrap(dc.point + M - dc.lower, S) < dc.range /\ dc.range >= Pow2(K)

DQuantile(dc, P) == Wrap(dc.point + M - dc.lower, S) \div Shr(dc.range, P)
DInvalid(dc, P) == DQuantile(dc, P) >= Pow2(P)        \* -> Err(InvalidData), decoder unchanged
DHits(dc, P, c, p) == ~DInvalid(dc, P) /\ DQuantile(dc, P) >= c /\ DQuantile(dc, P) < c + p
RDec(dc, P, c, p) ==
    LET scale == Shr(dc.range, P)
        l1 == Wrap(dc.lower + scale * c, S)
        r1 == scale * p
        renorm == r1 < Pow2(K)
    IN IF renorm THEN Dec(Wrap(l1 * Pow2(W), S), r1 * Pow2(W),
                          Wrap(dc.point * Pow2(W), S) + WordAt(dc.data, dc.pos + 1),
                          Min(dc.pos + 1, Len(dc.data)), dc.data)
       ELSE Dec(l1, r1, dc.point, dc.pos, dc.data)
\* maybe_exhausted: all words consumed and point within reach of lower
MaybeExhausted(dc) == dc.pos = Len(dc.data) /\ (dc.range = M - 1 \/ Wrap(dc.point + M - dc.lower, S) < 2 * Pow2(K) - 1)

\* decode a whole history hist = << <<P,c,p>>, ... >>; TRUE iff every symbol comes back
RECURSIVE DecodesRec(_, _)
DecodesRec(dc, h) ==
    IF h = <<>> THEN TRUE
    ELSE LET P == h[1][1] c == h[1][2] p == h[1][3]
         IN IF DHits(dc, P, c, p) THEN DecodesRec(RDec(dc, P, c, p), Tail(h)) ELSE FALSE
Decodes(words, h) == DecodesRec(DecNew(words), h)
RECURSIVE DecAfterRec(_, _)
DecAfterRec(dc, h) == IF h = <<>> THEN dc ELSE DecAfterRec(RDec(dc, h[1][1], h[1][2], h[1][3]), Tail(h))
DecAfter(words, h) == DecAfterRec(DecNew(words), h)

(***************************************************************************)
(* Independent arbitrary-precision reference (C06): the message interval    *)
(* is [tl, tl + tr) in units of 2^-(S + W k); no held-back words, true      *)
(* carries.  ref = [tl, tr, k]                                              *)
(***************************************************************************)
RefNew == [tl |-> 0, tr |-> M - 1, k |-> 0]
RefEnc(r, P, c, p) ==
    LET scale == Shr(r.tr, P)
        tl1 == r.tl + scale * c
        tr1 == scale * p
    IN IF tr1 < Pow2(K) THEN [tl |-> tl1 * Pow2(W), tr |-> tr1 * Pow2(W), k |-> r.k + 1]
       ELSE [tl |-> tl1, tr |-> tr1, k |-> r.k]
RefSeal(r) ==
    IF r.tr = M - 1 /\ r.k = 0 THEN <<>> ELSE
    LET v == r.tl + Pow2(K) - 1                         \* a point inside the interval
        top == Shr(v, K)                                \* its first k+1 words
        utop == Shr(r.tl + r.tr, K)
    IN Rev(ChunksLEn(top, W, r.k + 1)) \o (IF utop % Pow2(W) = top % Pow2(W) THEN Rep(0, NW - 1) ELSE <<>>)
=============================================================================
