-------------------------- MODULE MC_BigChainEquiv --------------------------
(* BigChain.tla agrees with Chain.tla on every operator, in every coder state  *)
(* (all heads satisfying the invariant of some precision, word stacks of at    *)
(* most MaxStack words) and for every constructor input of at most MaxData     *)
(* words, at small widths with limbs of LB bits.                               *)
EXTENDS Naturals, Sequences, TLC
CONSTANTS W, S, LB, MaxStack, MaxData
A == INSTANCE Chain
B == INSTANCE BigChain

VARIABLES cd, prec, stage
vars == <<cd, prec, stage>>
Precs == 1..W
Init == cd = A!Coder(<<>>, <<>>, 1, 1) /\ prec = 1 /\ stage = 0
Next == \/ stage = 0 /\ stage' = 1 /\ \E P \in { x \in Precs : S - W - x >= 0 } : \E hr \in A!Thresh(P)..(A!Pow2(S - P) - 1) :
               prec' = P /\ cd' = A!Coder(<<>>, <<>>, 1, hr)
        \/ stage = 1 /\ stage' = 2 /\ prec' = prec
              /\ \E hc \in 1..(A!Pow2(W) - 1) : \E c \in A!WordSeqs(W, MaxStack) : \E r \in A!WordSeqs(W, MaxStack) :
                    cd' = A!Coder(c, r, hc, cd.hr)
Spec == Init /\ [][Next]_vars

F(n) == B!FromNat(n)
FSeq(ws) == [i \in 1..Len(ws) |-> F(ws[i])]
FC(x) == IF A!Failed(x) THEN B!FAIL ELSE B!Coder(FSeq(x.comp), FSeq(x.rem), F(x.hc), F(x.hr))
FPS(x) == IF A!Failed(x) THEN B!FAIL ELSE [prefix |-> FSeq(x.prefix), suffix |-> FSeq(x.suffix)]
bc == FC(cd)

Queries == stage = 2 =>
    /\ B!Inv(bc, prec) = A!Inv(cd, prec)
    /\ B!IsWhole(bc) = A!IsWhole(cd)
    /\ B!IntoRemainders(bc) = FPS(A!IntoRemainders(cd))
    /\ B!IntoCompressed(bc) = FPS(A!IntoCompressed(cd))
    /\ B!IntoBinary(bc) = FPS(A!IntoBinary(cd))
    /\ B!Failed(B!Pull(bc, prec)) = A!Failed(A!Pull(cd, prec))
    /\ (~A!Failed(A!Pull(cd, prec)) => B!Pull(bc, prec) = [q |-> F(A!Pull(cd, prec).q), comp |-> FSeq(A!Pull(cd, prec).comp), hc |-> F(A!Pull(cd, prec).hc)])
Steps == stage = 2 => \A cp \in A!Slots(prec) :
    /\ B!Hits(bc, prec, F(cp[1]), F(cp[2])) = A!Hits(cd, prec, cp[1], cp[2])
    /\ (A!Hits(cd, prec, cp[1], cp[2]) => B!ChainDec(bc, prec, F(cp[1]), F(cp[2])) = FC(A!ChainDec(cd, prec, cp[1], cp[2])))
    /\ B!ChainEnc(bc, prec, F(cp[1]), F(cp[2])) = FC(A!ChainEnc(cd, prec, cp[1], cp[2]))
Changes == stage = 2 => \A NP \in { x \in Precs : S - W - x >= 0 } : B!ChangeP(bc, prec, NP) = FC(A!ChangeP(cd, prec, NP))
Ctors == stage = 0 => \A d \in A!WordSeqs(W, MaxData) : \A P \in { x \in Precs : S - W - x >= 0 } :
    /\ B!FromBinary(FSeq(d), P) = FC(A!FromBinary(d, P))
    /\ B!FromCompressed(FSeq(d), P) = FC(A!FromCompressed(d, P))
    /\ B!FromRemainders(FSeq(d), P) = FC(A!FromRemainders(d, P))
=============================================================================
