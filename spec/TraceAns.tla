------------------------------ MODULE TraceAns ------------------------------
(* Exact trace validation (impl -> spec) of recorded AnsCoder executions.    *)
(* The trace (ndjson, one event per public call, logged after it returned)   *)
(* is read from the file named by the environment variable TRACE.  Every     *)
(* event carries its arguments and the complete coder state afterwards, so   *)
(* validation is linear.  W and S must be small enough for TLC's integers    *)
(* (u8/u16 and the tiny verification widths).                                *)
EXTENDS Ans, TLC, Json, IOUtils

Rec == ndJsonDeserialize(IOEnv.TRACE)
VARIABLES cd, l
vars == <<cd, l>>

Init == cd = Empty /\ l = 1
Ev == Rec[l]
Logged(e) == Coder(e.state, e.bulk)
Step ==
    /\ l <= Len(Rec)
    /\ l' = l + 1
    /\ LET e == Ev IN
       CASE e.ev = "new" -> cd' = Empty /\ Logged(e) = Empty
         [] e.ev = "from_compressed" -> CanImport(e.words) /\ cd' = Import(e.words) /\ Logged(e) = cd'
         [] e.ev = "from_compressed_refused" -> ~CanImport(e.words) /\ cd' = cd
         [] e.ev = "from_binary" -> cd' = FromBinary(e.words) /\ Logged(e) = cd'
         [] e.ev = "enc" -> cd' = AnsEnc(cd, e.P, e.c, e.p) /\ Logged(e) = cd'
         [] e.ev = "enc_impossible" -> cd' = cd /\ Logged(e) = cd
         [] e.ev = "dec" -> Hits(cd, e.P, e.c, e.p) /\ cd' = AnsDec(cd, e.P, e.c, e.p) /\ Logged(e) = cd'
         [] e.ev = "export" -> cd' = cd /\ e.words = Export(cd) /\ e.num_words = NumWords(cd) /\ e.num_bits = NumBits(cd)
                               /\ e.is_empty = IsEmpty(cd) /\ e.num_valid_bits = NumValidBits(cd) /\ Logged(e) = cd
         [] e.ev = "export_binary" -> cd' = cd /\ (IF IsBinary(cd) THEN e.ok /\ e.words = ExportBinary(cd) ELSE ~e.ok) /\ Logged(e) = cd
         [] e.ev = "reimport" -> cd' = Import(Export(cd)) /\ Logged(e) = cd'
         [] OTHER -> FALSE
Spec == Init /\ [][Step]_vars

\* the implementation's executions keep the state invariant whenever they started from normalised data
StateInv == TypeOK(cd)
Accepted == IF TLCGet("stats").diameter - 1 = Len(Rec) THEN TRUE
            ELSE Print(<<"REJECTED at event", TLCGet("stats").diameter, Rec[TLCGet("stats").diameter]>>, FALSE)
=============================================================================
