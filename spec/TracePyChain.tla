---------------------------- MODULE TracePyChain ----------------------------
(* Exact trace validation of the PYTHON front end's chain coder               *)
(* (`constriction.stream.chain.ChainCoder`, src/pybindings/stream/chain.rs)   *)
(* against BigChain.tla at W = 32, S = 64, PRECISION = 24 with model tables   *)
(* predicted by PyModels.tla.  Observed after every call: get_remainders()    *)
(* (which determines both word stacks and both heads) and, where they         *)
(* succeed, get_data() and get_data(unseal=True).                             *)
EXTENDS BigChain, TLC, Json, IOUtils
PM == INSTANCE PyModels
P == PM!PyP

Rec == ndJsonDeserialize(IOEnv.TRACE)
VARIABLES cd, l
vars == <<cd, l>>
Init == cd = Coder(<<>>, <<>>, One, One) /\ l = 1

\* <<ok, coder>>: decode the recorded symbols in order / encode them (coding order) unless the coder runs out
RECURSIVE DecAll(_, _)
DecAll(c, items) == IF items = <<>> THEN <<TRUE, c>>
                    ELSE IF ~PM!InSupport(items[1][1], items[1][2]) THEN <<FALSE, c>>
                    ELSE LET sl == PM!Slot(items[1][1], items[1][2])
                             cc == FromNat(sl[1])
                             pp == FromNat(sl[2])
                         IN IF Hits(c, P, cc, pp) THEN DecAll(ChainDec(c, P, cc, pp), Tail(items)) ELSE <<FALSE, c>>
RECURSIVE EncAll(_, _)
EncAll(c, items) == IF items = <<>> THEN <<TRUE, c>>
                    ELSE LET sl == PM!Slot(items[1][1], items[1][2])
                             n == ChainEnc(c, P, FromNat(sl[1]), FromNat(sl[2]))
                         IN IF Failed(n) THEN <<FALSE, c>> ELSE EncAll(n, Tail(items))
Observed(x, e) ==
    /\ e.rem_prefix = IntoRemainders(x).prefix /\ e.rem_suffix = IntoRemainders(x).suffix
    /\ (IF Failed(IntoCompressed(x)) THEN ~e.data_ok ELSE e.data_ok /\ e.data_prefix = IntoCompressed(x).prefix /\ e.data_suffix = IntoCompressed(x).suffix)
    /\ (IF Failed(IntoBinary(x)) THEN ~e.unseal_ok ELSE e.unseal_ok /\ e.unseal_prefix = IntoBinary(x).prefix /\ e.unseal_suffix = IntoBinary(x).suffix)
Ctor(e) == IF e.how = "binary" THEN FromBinary(e.data, P) ELSE IF e.how = "compressed" THEN FromCompressed(e.data, P) ELSE FromRemainders(e.data, P)
Step ==
    /\ l <= Len(Rec)
    /\ l' = l + 1
    /\ LET e == Rec[l] IN
       CASE e.ev = "ctor" -> ~Failed(Ctor(e)) /\ cd' = Ctor(e) /\ Observed(cd', e)
         [] e.ev = "ctor_refused" -> Failed(Ctor(e)) /\ cd' = cd
         [] e.ev = "dec" -> DecAll(cd, e.items)[1] /\ cd' = DecAll(cd, e.items)[2] /\ Observed(cd', e)
         \* a single-symbol decode that reports out-of-data: the specification runs out as well and nothing changes
         [] e.ev = "dec_out_of_data" -> Failed(Pull(cd, P)) /\ cd' = cd /\ Observed(cd, e)
         [] e.ev = "enc" -> EncAll(cd, e.items)[1] /\ cd' = EncAll(cd, e.items)[2] /\ Observed(cd', e)
         [] e.ev = "enc_out_of_remainders" -> ~EncAll(cd, e.items)[1] /\ Len(e.items) = 1 /\ cd' = cd /\ Observed(cd, e)
         [] e.ev = "clone" -> cd' = cd /\ Observed(cd, e)
         [] OTHER -> FALSE
Spec == Init /\ [][Step]_vars
StateInv == IsBig(cd.hc) /\ IsBig(cd.hr) /\ BitLenB(cd.hc) <= W
Accepted == IF TLCGet("stats").diameter - 1 = Len(Rec) THEN TRUE
            ELSE Print(<<"REJECTED at event", TLCGet("stats").diameter, Rec[TLCGet("stats").diameter]>>, FALSE)
=============================================================================
