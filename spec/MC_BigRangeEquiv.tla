------------------------- MODULE MC_BigRangeEquiv -------------------------
(* BigRange.tla agrees with Range.tla on every operator in every encoder    *)
(* state (all lower / range / situations, bulk <= 1 word) and every decoder  *)
(* state over all data of at most MaxData words, at small widths with limbs  *)
(* of LB bits.                                                               *)
EXTENDS Naturals, Sequences, TLC

CONSTANTS W, S, LB, MaxData, MaxSitN
A == INSTANCE Range
B == INSTANCE BigRange

VARIABLES kind, e, d
vars == <<kind, e, d>>
AllEnc == { A!Enc(lo, ra, n, w, bk) : lo \in 0..(A!M - 1), ra \in 1..(A!M - 1), n \in 0..MaxSitN, w \in 0..A!WMax, bk \in A!WordSeqs(W, 1) }
\* all states are successors of one initial state, so that TLC's workers evaluate the laws in parallel
\* (two stages: first `lower`, then the rest)
Init == kind = "init" /\ e = A!EncNew /\ d = A!DecNew(<<>>)
Next == \/ kind = "init" /\ kind' = "lower" /\ \E lo \in 0..(A!M - 1) : e' = A!Enc(lo, A!M - 1, 0, 0, <<>>) /\ d' = d
        \/ kind = "lower" /\ kind' = "enc" /\ e' \in { x \in AllEnc : x.lower = e.lower /\ A!EncInv(x) /\ (x.sitN = 0 => x.sitW = 0) } /\ d' = d
        \/ kind = "lower" /\ kind' = "dec" /\ e' = e
              /\ \E data \in A!WordSeqs(W, MaxData) : \E pos \in 0..Len(data) : \E ra \in A!Pow2(A!K)..(A!M - 1) :
                   d' = A!DecSeek(A!DecNew(data), pos, e.lower, ra)
Spec == Init /\ [][Next]_vars

F(n) == B!FromNat(n)
FSeq(ws) == [i \in 1..Len(ws) |-> F(ws[i])]
FEnc(x) == B!Enc(F(x.lower), F(x.range), x.sitN, F(x.sitW), FSeq(x.bulk))
FDec(x) == B!Dec(F(x.lower), F(x.range), F(x.point), x.pos, FSeq(x.data))
be == FEnc(e)
bd == FDec(d)

EncQueries == kind = "enc" =>
    /\ B!EncInv(be) /\ B!EncTypeOK(be)
    /\ B!SealWords(be) = FSeq(A!SealWords(e))
    /\ B!Sealed(be) = FSeq(A!Sealed(e))
    /\ B!NumWords(be) = A!NumWords(e)
    /\ B!IsEmpty(be) = A!IsEmpty(e)
    /\ B!EncPos(be) = A!EncPos(e)
    /\ B!DecNew(B!Sealed(be)) = FDec(A!DecNew(A!Sealed(e)))
EncSteps == kind = "enc" => \A P \in A!Precisions : \A cp \in A!Slots(P) :
    B!REnc(be, P, F(cp[1]), F(cp[2])) = FEnc(A!REnc(e, P, cp[1], cp[2]))
DecAll == kind = "dec" =>
    /\ B!DecInv(bd) = A!DecInv(d)
    /\ B!MaybeExhausted(bd) = A!MaybeExhausted(d)
    /\ \A P \in A!Precisions :
         /\ B!DInvalid(bd, P) = A!DInvalid(d, P)
         /\ B!DQuantile(bd, P) = F(A!DQuantile(d, P))
         /\ \A cp \in A!Slots(P) :
              /\ B!DHits(bd, P, F(cp[1]), F(cp[2])) = A!DHits(d, P, cp[1], cp[2])
              /\ (A!DHits(d, P, cp[1], cp[2]) => B!RDec(bd, P, F(cp[1]), F(cp[2])) = FDec(A!RDec(d, P, cp[1], cp[2])))
    /\ \A pos \in 0..Len(d.data) : B!DecSeek(bd, pos, bd.lower, bd.range) = FDec(A!DecSeek(d, pos, d.lower, d.range))
=============================================================================
