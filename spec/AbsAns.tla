------------------------------- MODULE AbsAns -------------------------------
(* Format-agnostic trace validation of AnsCoder executions at ANY width      *)
(* (C01, C04, C08, C18): the coder is an abstract stack over an opaque base. *)
(*   stack : frames <<model id, symbol>> pushed and not yet popped           *)
(*   debt  : frames popped from BELOW the base (decoding arbitrary data);     *)
(*           pushing the same frame back cancels it (bits-back)               *)
(*   seen  : abstract state -> the words an export returned in that state     *)
(* Words are compared for equality only (lists of 16-bit limbs).             *)
EXTENDS Naturals, Sequences, TLC, Json, IOUtils

Rec == ndJsonDeserialize(IOEnv.TRACE)
VARIABLES stack, debt, seen, base, l, confirmed     \* confirmed: exports that re-visited a recorded state and agreed
vars == <<stack, debt, seen, base, l, confirmed>>
Last(s) == s[Len(s)]
Front(s) == SubSeq(s, 1, Len(s) - 1)

Init == stack = <<>> /\ debt = <<>> /\ seen = <<>> /\ base = 0 /\ l = 1 /\ confirmed = 0
Key == <<base, debt, stack>>
Lookup(k) == LET hits == { i \in 1..Len(seen) : seen[i][1] = k } IN IF hits = {} THEN <<>> ELSE <<seen[CHOOSE i \in hits : TRUE][2]>>
Step ==
    /\ l <= Len(Rec)
    /\ l' = l + 1
    /\ LET e == Rec[l] IN
       CASE e.ev = "base" -> stack' = <<>> /\ debt' = <<>> /\ base' = e.id /\ UNCHANGED <<seen, confirmed>>            \* new coder / import of fresh words
         [] e.ev = "enc" ->                                                                               \* push
              /\ IF stack = <<>> /\ debt # <<>> /\ Last(debt) = <<e.model, e.sym>>
                 THEN debt' = Front(debt) /\ stack' = stack
                 ELSE stack' = Append(stack, <<e.model, e.sym>>) /\ debt' = debt
              /\ UNCHANGED <<seen, base, confirmed>>
         [] e.ev = "enc_failed" -> UNCHANGED <<stack, debt, seen, base, confirmed>>                                  \* impossible symbol / full backend
         [] e.ev = "dec" ->                                                                               \* pop
              /\ IF stack # <<>>
                 THEN e.model = Last(stack)[1] /\ e.sym = Last(stack)[2] /\ stack' = Front(stack) /\ debt' = debt
                 ELSE debt' = Append(debt, <<e.model, e.sym>>) /\ stack' = stack
              /\ UNCHANGED <<seen, base, confirmed>>
         [] e.ev = "export" ->                                                                            \* any inspection or export: same state, same words
              /\ e.num_words = Len(e.words) /\ e.num_bits = e.wbits * Len(e.words) /\ (e.is_empty <=> e.words = <<>>)
              /\ LET k == <<base, debt, stack, e.how>> prev == Lookup(<<base, debt, stack, e.how>>) IN
                 IF prev = <<>> THEN seen' = Append(seen, <<k, e.words>>) /\ confirmed' = confirmed
                 ELSE prev[1] = e.words /\ seen' = seen /\ confirmed' = confirmed + 1
              /\ UNCHANGED <<stack, debt, base>>
         [] e.ev = "noop" -> UNCHANGED <<stack, debt, seen, base, confirmed>>                                         \* clone swap, re-import, guards
         [] OTHER -> FALSE
Spec == Init /\ [][Step]_vars
\* (prints the number of confirmations for the vacuity check of the orchestrator)
Report == (l = Len(Rec) + 1) => PrintT(<<"CONFIRMED", confirmed>>)
Accepted == IF TLCGet("stats").diameter - 1 = Len(Rec) THEN TRUE
            ELSE Print(<<"REJECTED at event", TLCGet("stats").diameter, Rec[TLCGet("stats").diameter]>>, FALSE)
=============================================================================
