----------------------------- MODULE MC_Backend -----------------------------
EXTENDS Backend, Json
CONSTANTS MaxLen
VARIABLE st
Vals == {1, 2, 3}
Init == \E k \in {"vec", "cursor", "rev"} : \E b \in UNION { [1..n -> Vals] : n \in 1..MaxLen } \cup {<<>>} : \E p \in 0..Len(b) :
            (k = "vec" => p = Len(b)) /\ st = St(k, b, p)
Next == \/ st' = ReadStack(st).st
        \/ HasQueue(st) /\ st' = ReadQueue(st).st
        \/ \E w \in {7, 8} : (st.kind = "vec" => Len(st.buf) < MaxLen) /\ st' = Write(st, w).st
        \/ \E p \in 0..Len(st.buf) : st' = Seek(st, p).st
        \/ st.kind # "vec" /\ st' = IntoReversed(st)
Spec == Init /\ [][Next]_st

TypeInv == TypeOK(st)
LawRemaining == RemainingExact(st)
LawSpace == SpaceExact(st)
LawWriteRead == WriteReadBack(st)
LawSeek == SeekContract(st)
LawExtend == ExtendContract(st)
LawReverse == ReverseNoop(st)

\* adapters: every source sequence of at most MaxLen + 1 entries over words and NONE
LawIterSticky == (st.kind = "vec" /\ st.buf = <<>>) => \A s \in WordSeqs(2, MaxLen + 1) : IterSticky(IterSt(s, FALSE))
EmitAdapters == (st.kind = "vec" /\ st.buf = <<>>) => PrintT(<<"CASE", ToJson(
    [k |-> "adapters", sources |-> { [src |-> s, reads |-> IterReads(IterSt(s, FALSE), Len(s) + 2)] : s \in WordSeqs(2, MaxLen + 1) }])>>)
Res(r) == [res |-> r.res, buf |-> r.st.buf, pos |-> r.st.pos]
Emit == EmitAdapters /\ PrintT(<<"CASE", ToJson(
    [k |-> "backend", kind |-> st.kind, buf |-> st.buf, pos |-> st.pos,
     rs |-> Res(ReadStack(st)),
     rq |-> IF HasQueue(st) THEN <<Res(ReadQueue(st))>> ELSE <<>>,
     w |-> Res(Write(st, 7)),
     ext |-> [n \in 1..3 |-> Res(Extend(st, SubSeq(<<7, 8, 7>>, 1, n)))],
     seek |-> [p \in 1..(Len(st.buf) + 3) |-> Res(Seek(st, p - 1))],
     remS |-> RemainingStack(st), remQ |-> IF HasQueue(st) THEN RemainingQueue(st) ELSE 0,
     space |-> IF Bounded(st) THEN SpaceLeft(st) ELSE 0,
     rev |-> IF st.kind # "vec" THEN <<[kind |-> IntoReversed(st).kind, buf |-> IntoReversed(st).buf, pos |-> IntoReversed(st).pos]>> ELSE <<>>])>>)
=============================================================================
