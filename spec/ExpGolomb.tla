----------------------------- MODULE ExpGolomb -----------------------------
(* Exp-Golomb code of src/symbol/exp_golomb.rs for B-bit unsigned integers:  *)
(* bitlen(n+1) - 1 zeros followed by n+1 in binary (most significant first).  *)
(* n + 1 is taken in the naturals, so the maximum value needs no special case *)
(* in the specification (the implementation wraps and special-cases it).      *)
EXTENDS Bits

RECURSIVE Binary(_)
Binary(x) == IF x = 0 THEN <<>> ELSE Binary(x \div 2) \o <<x % 2>>          \* most significant first
Codeword(n) == Rep(0, BitLen(n + 1) - 1) \o Binary(n + 1)

\* decoder: count zeros up to the first one (L), read L more bits
RECURSIVE LeadingZeros(_)
LeadingZeros(bits) == IF bits = <<>> \/ bits[1] = 1 THEN 0 ELSE 1 + LeadingZeros(Tail(bits))
RECURSIVE FromBinary(_, _)
FromBinary(bits, acc) == IF bits = <<>> THEN acc ELSE FromBinary(Tail(bits), 2 * acc + bits[1])
Decode(bits) == LET L == LeadingZeros(bits) IN FromBinary(SubSeq(bits, L + 1, 2 * L + 1), 0) - 1
RoundTrip(n) == Decode(Codeword(n)) = n /\ Len(Codeword(n)) = 2 * BitLen(n + 1) - 1
\* near the maximum of a B-bit type (B too large for TLC's integers): n = 2^B - 1 - d, 0 <= d < 256
NearMaxCodeword(B, d) == IF d = 0 THEN Rep(0, B) \o <<1>> \o Rep(0, B)
                         ELSE Rep(0, B - 1) \o Rep(1, B - 8) \o Rev(ChunksLEn(256 - d, 1, 8))
=============================================================================
