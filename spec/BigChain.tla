------------------------------ MODULE BigChain ------------------------------
(* The chain coder of Chain.tla (src/stream/chain.rs) over arbitrary-         *)
(* precision naturals (Big.tla), operator for operator, for exact validation  *)
(* of executions at the real widths (u32/u64 default preset, ...).  Words and *)
(* both heads are Big numbers; W, S and precisions are ordinary integers.     *)
(* MC_BigChainEquiv checks agreement with Chain.tla at small widths.          *)
EXTENDS Big

CONSTANTS W, S
ASSUME S >= 2 * W /\ W >= 1

Last(s) == s[Len(s)]
Front(s) == SubSeq(s, 1, Len(s) - 1)

Coder(c, r, hc, hr) == [comp |-> c, rem |-> r, hc |-> hc, hr |-> hr]
FAIL == [fail |-> TRUE]
Failed(x) == "fail" \in DOMAIN x
Thresh(P) == Pow2B(S - W - P)
Inv(cd, P) == Ge(cd.hc, One) /\ BitLenB(cd.hc) <= W /\ Ge(cd.hr, Thresh(P)) /\ BitLenB(cd.hr) <= S - P
IsWhole(cd) == cd.hc = One

RECURSIVE FillHead(_, _, _)
FillHead(hr, src, P) == IF Ge(hr, Thresh(P)) THEN [hr |-> hr, src |-> src]
                        ELSE IF src = <<>> THEN FAIL
                        ELSE FillHead(Add(ShlBits(hr, W), Last(src)), Front(src), P)
HeadsNew(src, pushOne, P) ==
    IF pushOne THEN FillHead(One, src, P)
    ELSE IF src = <<>> THEN FAIL ELSE IF Last(src) = Zero THEN FAIL
    ELSE FillHead(Last(src), Front(src), P)
FromBinary(d, P) == LET h == HeadsNew(d, TRUE, P) IN IF Failed(h) THEN FAIL ELSE Coder(h.src, <<>>, One, h.hr)
FromCompressed(d, P) == LET h == HeadsNew(d, FALSE, P) IN IF Failed(h) THEN FAIL ELSE Coder(h.src, <<>>, One, h.hr)
FromRemainders(r, P) ==
    IF r = <<>> THEN FAIL ELSE IF Last(r) = Zero THEN FAIL
    ELSE LET h == HeadsNew(Front(r), FALSE, P) IN IF Failed(h) THEN FAIL ELSE Coder(<<>>, h.src, Last(r), h.hr)

IntoRemainders(cd) == [prefix |-> cd.comp, suffix |-> cd.rem \o ChunksB(cd.hr, W) \o <<cd.hc>>]
IntoCompressed(cd) == IF ~IsWhole(cd) THEN FAIL ELSE [prefix |-> cd.rem, suffix |-> cd.comp \o ChunksB(cd.hr, W)]
IntoBinary(cd) == IF ~IsWhole(cd) \/ (BitLenB(cd.hr) - 1) % W # 0 THEN FAIL
                  ELSE [prefix |-> cd.rem, suffix |-> cd.comp \o ChunksBn(Sub(cd.hr, Pow2B(BitLenB(cd.hr) - 1)), W, (BitLenB(cd.hr) - 1) \div W)]

Pull(cd, P) ==
    IF P = W \/ Lt(cd.hc, Pow2B(P)) THEN
        IF cd.comp = <<>> THEN FAIL
        ELSE LET w == Last(cd.comp)
             IN [q |-> LowBitsB(w, P), comp |-> Front(cd.comp),
                 hc |-> IF P = W THEN cd.hc ELSE Add(ShlBits(cd.hc, W - P), ShrBits(w, P))]
    ELSE [q |-> LowBitsB(cd.hc, P), comp |-> cd.comp, hc |-> ShrBits(cd.hc, P)]
ChainDec(cd, P, c, p) ==
    LET u == Pull(cd, P)
        hr1 == Add(Mul(cd.hr, p), Sub(u.q, c))
        flush == Ge(hr1, Pow2B(S - P))
    IN Coder(u.comp, IF flush THEN Append(cd.rem, LowBitsB(hr1, W)) ELSE cd.rem, u.hc, IF flush THEN ShrBits(hr1, W) ELSE hr1)
Hits(cd, P, c, p) == ~Failed(Pull(cd, P)) /\ Ge(Pull(cd, P).q, c) /\ Lt(Pull(cd, P).q, Add(c, p))

NeedsRefill(cd, P, p) == Lt(cd.hr, Mul(p, Thresh(P)))
ChainEnc(cd, P, c, p) ==
    IF NeedsRefill(cd, P, p) /\ cd.rem = <<>> THEN FAIL
    ELSE LET hr0 == IF NeedsRefill(cd, P, p) THEN Add(ShlBits(cd.hr, W), Last(cd.rem)) ELSE cd.hr
             rem0 == IF NeedsRefill(cd, P, p) THEN Front(cd.rem) ELSE cd.rem
             qr == DivMod(hr0, p)
             q == Add(c, qr[2])
             hr1 == qr[1]
         IN IF P # W /\ Lt(cd.hc, Pow2B(W - P)) THEN Coder(cd.comp, rem0, Add(ShlBits(cd.hc, P), q), hr1)
            ELSE LET word == IF P = W THEN q ELSE Add(LowBitsB(ShlBits(cd.hc, P), W), q)
                     hc1 == IF P = W THEN cd.hc ELSE ShrBits(cd.hc, W - P)
                 IN Coder(Append(cd.comp, word), rem0, hc1, hr1)

IncreaseP(cd, NP) == IF Ge(cd.hr, Pow2B(S - NP)) THEN Coder(cd.comp, Append(cd.rem, LowBitsB(cd.hr, W)), cd.hc, ShrBits(cd.hr, W)) ELSE cd
DecreaseP(cd, NP) == IF Lt(cd.hr, Pow2B(S - NP - W)) THEN (IF cd.rem = <<>> THEN FAIL ELSE Coder(cd.comp, Front(cd.rem), cd.hc, Add(ShlBits(cd.hr, W), Last(cd.rem)))) ELSE cd
ChangeP(cd, P, NP) == IF NP > P THEN IncreaseP(cd, NP) ELSE DecreaseP(cd, NP)
=============================================================================
