------------------------------ MODULE Backend ------------------------------
(* Word sources and sinks of src/backends.rs.                                *)
(* A backend state is [kind, buf, pos]:                                      *)
(*   "vec"    Vec / SmallVec: stack semantics, pos = Len(buf) always         *)
(*   "cursor" Cursor<Word, Buf>:   0 <= pos <= Len(buf)                       *)
(*   "rev"    Reverse<Cursor<Word, Buf>> (inner cursor state shown)           *)
(* Every operation returns [res |-> result, st |-> successor state].         *)
EXTENDS Bits, TLC

EOF_ == 100           \* Ok(None)   (results are numbers: TLC cannot compare strings with words)
FULL == 101           \* Err(OutOfSpace)
REFUSED == 102        \* seek: Err(())
OK == 103

St(k, b, p) == [kind |-> k, buf |-> b, pos |-> p]
R(res, st) == [res |-> res, st |-> st]
TypeOK(st) == st.kind \in {"vec", "cursor", "rev"} /\ st.pos \in 0..Len(st.buf) /\ (st.kind = "vec" => st.pos = Len(st.buf))

SetAt(b, i, w) == [b EXCEPT ![i] = w]          \* 1-based

\* inner cursor primitives
CurReadStack(st) == IF st.pos = 0 THEN R(EOF_, st) ELSE R(st.buf[st.pos], St(st.kind, st.buf, st.pos - 1))
CurReadQueue(st) == IF st.pos = Len(st.buf) THEN R(EOF_, st) ELSE R(st.buf[st.pos + 1], St(st.kind, st.buf, st.pos + 1))

ReadStack(st) == CASE st.kind = "vec" -> IF st.buf = <<>> THEN R(EOF_, st) ELSE R(Last(st.buf), St("vec", Front(st.buf), Len(st.buf) - 1))
                   [] st.kind = "cursor" -> CurReadStack(st)
                   [] st.kind = "rev" -> CurReadQueue(st)
ReadQueue(st) == CASE st.kind = "cursor" -> CurReadQueue(st)          \* Vec has no queue semantics
                   [] st.kind = "rev" -> CurReadStack(st)
Write(st, w) == CASE st.kind = "vec" -> R(OK, St("vec", Append(st.buf, w), Len(st.buf) + 1))
                  [] st.kind = "cursor" -> IF st.pos = Len(st.buf) THEN R(FULL, st) ELSE R(OK, St("cursor", SetAt(st.buf, st.pos + 1, w), st.pos + 1))
                  [] st.kind = "rev" -> IF st.pos = 0 THEN R(FULL, st) ELSE R(OK, St("rev", SetAt(st.buf, st.pos, w), st.pos - 1))
\* WriteWords::extend_from_iter: documented as repeated `write` that stops at the first error (the words before it are written)
RECURSIVE Extend(_, _)
Extend(st, ws) == IF ws = <<>> THEN R(OK, st)
                  ELSE LET w1 == Write(st, ws[1]) IN IF w1.res = OK THEN Extend(w1.st, Tail(ws)) ELSE R(FULL, st)
Seek(st, p) == IF p > Len(st.buf) THEN R(REFUSED, st)
               ELSE IF st.kind = "vec" THEN R(OK, St("vec", SubSeq(st.buf, 1, p), p))      \* seeking a Vec truncates it
               ELSE R(OK, St(st.kind, st.buf, p))
Pos(st) == st.pos
RemainingStack(st) == IF st.kind = "rev" THEN Len(st.buf) - st.pos ELSE st.pos
RemainingQueue(st) == IF st.kind = "rev" THEN st.pos ELSE Len(st.buf) - st.pos
SpaceLeft(st) == IF st.kind = "rev" THEN st.pos ELSE Len(st.buf) - st.pos           \* cursors only
\* Cursor::into_reversed / Reverse<Cursor>::into_reversed
IntoReversed(st) == St(IF st.kind = "cursor" THEN "rev" ELSE "cursor", Rev(st.buf), Len(st.buf) - st.pos)

(***************************************************************************)
(* Contract (C17), as properties of the specification                       *)
(***************************************************************************)
HasQueue(st) == st.kind # "vec"
Bounded(st) == st.kind # "vec"
RECURSIVE ReadsS(_, _)
ReadsS(st, n) == IF n = 0 THEN st ELSE ReadsS(ReadStack(st).st, n - 1)
RECURSIVE ReadsQ(_, _)
ReadsQ(st, n) == IF n = 0 THEN st ELSE ReadsQ(ReadQueue(st).st, n - 1)
RECURSIVE Writes(_, _)
Writes(st, n) == IF n = 0 THEN st ELSE Writes(Write(st, 9).st, n - 1)
\* the reported number of remaining words equals the number of reads that succeed; EOF is sticky
RemainingExact(st) ==
    /\ \A i \in 0..(RemainingStack(st) - 1) : ReadStack(ReadsS(st, i)).res # EOF_
    /\ LET e == ReadsS(st, RemainingStack(st)) IN ReadStack(e).res = EOF_ /\ ReadStack(e).st = e /\ RemainingStack(e) = 0
    /\ HasQueue(st) =>
        /\ \A i \in 0..(RemainingQueue(st) - 1) : ReadQueue(ReadsQ(st, i)).res # EOF_
        /\ LET e == ReadsQ(st, RemainingQueue(st)) IN ReadQueue(e).res = EOF_ /\ ReadQueue(e).st = e /\ RemainingQueue(e) = 0
SpaceExact(st) == Bounded(st) =>
    /\ \A i \in 0..(SpaceLeft(st) - 1) : Write(Writes(st, i), 9).res = OK
    /\ LET f == Writes(st, SpaceLeft(st)) IN Write(f, 9).res = FULL /\ Write(f, 9).st = f /\ SpaceLeft(f) = 0
\* stack reads return written words in reverse order, queue reads (after seeking back) in order
WriteReadBack(st) == \A a, b \in {7, 8} :
    LET w1 == Write(st, a) w2 == Write(w1.st, b)
    IN (w1.res = OK /\ w2.res = OK) =>
        /\ ReadStack(w2.st).res = b /\ ReadStack(ReadStack(w2.st).st).res = a /\ ReadStack(ReadStack(w2.st).st).st.pos = st.pos
        /\ (st.kind = "cursor" => LET s == Seek(w2.st, Pos(st)).st IN ReadQueue(s).res = a /\ ReadQueue(ReadQueue(s).st).res = b)
\* a bulk write reports OutOfSpace exactly when it does not fit, and then the part that fits has been written
ExtendContract(st) == \A n \in 0..3 :
    LET ws == SubSeq(<<7, 8, 7>>, 1, n) r == Extend(st, ws)
    IN /\ (r.res = OK) <=> (~Bounded(st) \/ n <= SpaceLeft(st))
       /\ Bounded(st) => SpaceLeft(r.st) = (IF n <= SpaceLeft(st) THEN SpaceLeft(st) - n ELSE 0)
SeekContract(st) ==
    /\ Seek(st, Pos(st)) = R(OK, st)
    /\ \A p \in 0..Len(st.buf) : Seek(st, p).res = OK /\ Pos(Seek(st, p).st) = p
    /\ \A p \in (Len(st.buf) + 1)..(Len(st.buf) + 2) : Seek(st, p) = R(REFUSED, st)
\* reversing a cursor in place is observationally a no-op for the reads and writes that follow
Ops == {"rs", "rq", "w7", "w8"}
Apply(st, op) == CASE op = "rs" -> ReadStack(st) [] op = "rq" -> ReadQueue(st) [] op = "w7" -> Write(st, 7) [] op = "w8" -> Write(st, 8)
\* on the reversed backend stack and queue semantics keep their meaning (the type swaps the implementation)
Mirror(a, b) == a.kind # b.kind /\ b = IntoReversed(a)
ReverseNoop(st) == st.kind # "vec" =>
    LET r == IntoReversed(st) IN
    /\ IntoReversed(r) = st
    /\ SpaceLeft(r) = SpaceLeft(st) /\ RemainingStack(r) = RemainingStack(st) /\ RemainingQueue(r) = RemainingQueue(st)
    /\ \A o1, o2, o3 \in Ops :
        LET a1 == Apply(st, o1) b1 == Apply(r, o1)
            a2 == Apply(a1.st, o2) b2 == Apply(b1.st, o2)
            a3 == Apply(a2.st, o3) b3 == Apply(b2.st, o3)
        IN a1.res = b1.res /\ a2.res = b2.res /\ a3.res = b3.res /\ Mirror(a3.st, b3.st)

(***************************************************************************)
(* Iterator and callback adapters.                                           *)
(* An iterator source is a sequence over words and NONE (= 0): a source that *)
(* is not fused may yield NONE and later yield words again.  The adapter     *)
(* must make end-of-data sticky: [src, done].                                *)
(***************************************************************************)
NONE == 0
IterSt(s, d) == [src |-> s, done |-> d]
IterRead(st) == IF st.done \/ st.src = <<>> THEN [res |-> EOF_, st |-> IterSt(st.src, TRUE)]
                ELSE IF st.src[1] = NONE THEN [res |-> EOF_, st |-> IterSt(Tail(st.src), TRUE)]
                ELSE [res |-> st.src[1], st |-> IterSt(Tail(st.src), FALSE)]
RECURSIVE IterReads(_, _)
IterReads(st, n) == IF n = 0 THEN <<>> ELSE <<IterRead(st).res>> \o IterReads(IterRead(st).st, n - 1)
IterSticky(st) == LET rs == IterReads(st, Len(st.src) + 2) IN \A i, j \in 1..Len(rs) : (i < j /\ rs[i] = EOF_) => rs[j] = EOF_
\* callback sink with a capacity: writes beyond it fail and store nothing
CbWrite(sink, cap, w) == IF Len(sink) < cap THEN [res |-> OK, sink |-> Append(sink, w)] ELSE [res |-> FULL, sink |-> sink]
=============================================================================
