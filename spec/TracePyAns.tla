----------------------------- MODULE TracePyAns -----------------------------
(* Exact trace validation of the PYTHON front end's stack coder              *)
(* (`constriction.stream.stack.AnsCoder`, src/pybindings/stream/stack.rs):   *)
(* every recorded call is replayed on BigAns.tla at W = 32, S = 64 with      *)
(* model tables predicted by PyModels.tla, and every value the Python API    *)
(* returns (state and position from pos(), compressed words, sizes, decoded  *)
(* symbols) must be what the specification prescribes.  One Python call      *)
(* that codes several symbols is a sequence of specification steps (folded). *)
(* Numbers wider than 31 bits are limb sequences (Big.tla).                  *)
EXTENDS BigAns, TLC, Json, IOUtils
PM == INSTANCE PyModels

Rec == ndJsonDeserialize(IOEnv.TRACE)
VARIABLES cd, l
vars == <<cd, l>>
Init == cd = Empty /\ l = 1

\* items: sequence of <<model, symbol>> in coding order
RECURSIVE EncAll(_, _)
EncAll(c, items) == IF items = <<>> THEN c
                    ELSE LET sl == PM!Slot(items[1][1], items[1][2])
                         IN EncAll(AnsEnc(c, PM!PyP, FromNat(sl[1]), FromNat(sl[2])), Tail(items))
RECURSIVE DecAll(_, _)              \* <<TRUE, coder>> iff every recorded symbol is the one the specification decodes
DecAll(c, items) == IF items = <<>> THEN <<TRUE, c>>
                    ELSE IF ~PM!InSupport(items[1][1], items[1][2]) THEN <<FALSE, c>>
                    ELSE LET sl == PM!Slot(items[1][1], items[1][2])
                             cc == FromNat(sl[1])
                             pp == FromNat(sl[2])
                         IN IF Hits(c, PM!PyP, cc, pp) THEN DecAll(AnsDec(c, PM!PyP, cc, pp), Tail(items)) ELSE <<FALSE, c>>
AllInSupport(items) == \A i \in 1..Len(items) : PM!InSupport(items[i][1], items[i][2])

\* what the Python API lets us observe after every call: pos() = (len(bulk), state), get_compressed(), sizes
Observed(x, e) == /\ x.state = e.state /\ Len(x.bulk) = e.pos
                  /\ e.words = Export(x)
                  /\ e.num_words = NumWords(x) /\ e.num_bits = NumBits(x) /\ e.num_valid_bits = NumValidBits(x) /\ e.is_empty = IsEmpty(x)
Step ==
    /\ l <= Len(Rec)
    /\ l' = l + 1
    /\ LET e == Rec[l] IN
       CASE e.ev = "new" -> cd' = Empty /\ Observed(cd', e)
         [] e.ev = "clear" -> cd' = Empty /\ Observed(cd', e)
         [] e.ev = "from_compressed" -> CanImport(e.data) /\ cd' = Import(e.data) /\ Observed(cd', e)
         [] e.ev = "from_compressed_refused" -> ~CanImport(e.data) /\ cd' = cd
         [] e.ev = "from_binary" -> cd' = FromBinary(e.data) /\ Observed(cd', e)
         [] e.ev = "enc" -> AllInSupport(e.items) /\ cd' = EncAll(cd, e.items) /\ Observed(cd', e)
         [] e.ev = "enc_refused" -> ~AllInSupport(e.items) /\ cd' = cd /\ Observed(cd, e)        \* a single impossible symbol: nothing changes
         \* an array call that meets an impossible symbol: what was coded before it stays, the call reports the error
         \* (the library stops at the error; a call that encodes nothing at all on error would satisfy the property as well)
         [] e.ev = "enc_partial" -> AllInSupport(e.items) /\ ~PM!InSupport(e.bad[1], e.bad[2]) /\ (cd' = EncAll(cd, e.items) \/ cd' = cd) /\ Observed(cd', e)
         [] e.ev = "dec" -> DecAll(cd, e.items)[1] /\ cd' = DecAll(cd, e.items)[2] /\ Observed(cd', e)
         [] e.ev = "unseal" -> cd' = cd /\ (IF IsBinary(cd) THEN e.ok /\ e.data = ExportBinary(cd) ELSE ~e.ok) /\ Observed(cd, e)
         [] e.ev = "clone" -> cd' = cd /\ Observed(cd, e)                                      \* the clone is observed and becomes the coder
         [] e.ev = "seek" -> e.target <= Len(cd.bulk) /\ cd' = Coder(e.target_state, SubSeq(cd.bulk, 1, e.target)) /\ Observed(cd', e)
         [] e.ev = "seek_refused" -> e.target > Len(cd.bulk) /\ cd' = cd /\ Observed(cd, e)
         [] OTHER -> FALSE
Spec == Init /\ [][Step]_vars
StateInv == BitLenB(cd.state) <= S /\ IsBig(cd.state)
Accepted == IF TLCGet("stats").diameter - 1 = Len(Rec) THEN TRUE
            ELSE Print(<<"REJECTED at event", TLCGet("stats").diameter, Rec[TLCGet("stats").diameter]>>, FALSE)
=============================================================================
