-------------------------------- MODULE Chain --------------------------------
(* Experimental chain coder of src/stream/chain.rs (`ChainCoder`).            *)
(*   W = Word::BITS, S = State::BITS; the precision P is an argument of every *)
(*   step because it can be changed between symbols.                          *)
(* A coder is [comp, rem, hc, hr]: two word stacks (top = last element), the  *)
(* compressed head hc (a bit buffer below a leading 1 marker, 1 <= hc < 2^W)  *)
(* and the remainders head hr.                                                *)
EXTENDS Bits

CONSTANTS W, S
ASSUME S >= 2 * W /\ W >= 1

Coder(c, r, hc, hr) == [comp |-> c, rem |-> r, hc |-> hc, hr |-> hr]
FAIL == [fail |-> TRUE]
Failed(x) == "fail" \in DOMAIN x
Thresh(P) == Pow2(S - W - P)
Inv(cd, P) == cd.hc >= 1 /\ cd.hc < Pow2(W) /\ cd.hr >= Thresh(P) /\ cd.hr < Pow2(S - P)
IsWhole(cd) == cd.hc = 1

\* ChainCoderHeads::new: fill the remainders head from a word stack until it reaches the threshold
RECURSIVE FillHead(_, _, _)
FillHead(hr, src, P) == IF hr >= Thresh(P) THEN [hr |-> hr, src |-> src]
                        ELSE IF src = <<>> THEN FAIL
                        ELSE FillHead(hr * Pow2(W) + Last(src), Front(src), P)
HeadsNew(src, pushOne, P) ==
    IF pushOne THEN FillHead(1, src, P)
    ELSE IF src = <<>> THEN FAIL ELSE IF Last(src) = 0 THEN FAIL
    ELSE FillHead(Last(src), Front(src), P)
FromBinary(d, P) == LET h == HeadsNew(d, TRUE, P) IN IF Failed(h) THEN FAIL ELSE Coder(h.src, <<>>, 1, h.hr)
FromCompressed(d, P) == LET h == HeadsNew(d, FALSE, P) IN IF Failed(h) THEN FAIL ELSE Coder(h.src, <<>>, 1, h.hr)
FromRemainders(r, P) ==
    IF r = <<>> THEN FAIL ELSE IF Last(r) = 0 THEN FAIL
    ELSE LET h == HeadsNew(Front(r), FALSE, P) IN IF Failed(h) THEN FAIL ELSE Coder(<<>>, h.src, Last(r), h.hr)

\* flushing a head completely (least significant word first)
IntoRemainders(cd) == [prefix |-> cd.comp, suffix |-> cd.rem \o ChunksLE(cd.hr, W) \o <<cd.hc>>]
IntoCompressed(cd) == IF ~IsWhole(cd) THEN FAIL ELSE [prefix |-> cd.rem, suffix |-> cd.comp \o ChunksLE(cd.hr, W)]
IntoBinary(cd) == IF ~IsWhole(cd) \/ (BitLen(cd.hr) - 1) % W # 0 THEN FAIL
                  ELSE [prefix |-> cd.rem, suffix |-> cd.comp \o ChunksLEn(cd.hr - Pow2(BitLen(cd.hr) - 1), W, (BitLen(cd.hr) - 1) \div W)]

(***************************************************************************)
(* decode: the quantile is pulled from the compressed side WITHOUT looking   *)
(* at the model (C14); then the remainder is pushed onto the remainders side *)
(***************************************************************************)
Pull(cd, P) ==
    IF P = W \/ cd.hc < Pow2(P) THEN
        IF cd.comp = <<>> THEN FAIL                                  \* OutOfCompressedData, coder unchanged
        ELSE LET w == Last(cd.comp)
             IN [q |-> w % Pow2(P), comp |-> Front(cd.comp),
                 hc |-> IF P = W THEN cd.hc ELSE cd.hc * Pow2(W - P) + Shr(w, P)]
    ELSE [q |-> cd.hc % Pow2(P), comp |-> cd.comp, hc |-> Shr(cd.hc, P)]
ChainDec(cd, P, c, p) ==                          \* slot (c, p) must contain the pulled quantile
    LET u == Pull(cd, P)
        hr1 == cd.hr * p + (u.q - c)
        flush == hr1 >= Pow2(S - P)
    IN Coder(u.comp, IF flush THEN Append(cd.rem, hr1 % Pow2(W)) ELSE cd.rem, u.hc, IF flush THEN Shr(hr1, W) ELSE hr1)
Hits(cd, P, c, p) == ~Failed(Pull(cd, P)) /\ Pull(cd, P).q >= c /\ Pull(cd, P).q < c + p

(***************************************************************************)
(* encode                                                                    *)
(***************************************************************************)
NeedsRefill(cd, P, p) == cd.hr < p * Thresh(P)
ChainEnc(cd, P, c, p) ==
    IF NeedsRefill(cd, P, p) /\ cd.rem = <<>> THEN FAIL                \* OutOfRemainders, coder unchanged
    ELSE LET hr0 == IF NeedsRefill(cd, P, p) THEN cd.hr * Pow2(W) + Last(cd.rem) ELSE cd.hr
             rem0 == IF NeedsRefill(cd, P, p) THEN Front(cd.rem) ELSE cd.rem
             q == c + (hr0 % p)
             hr1 == hr0 \div p
         IN IF P # W /\ cd.hc < Pow2(W - P) THEN Coder(cd.comp, rem0, cd.hc * Pow2(P) + q, hr1)
            ELSE LET word == IF P = W THEN q ELSE Wrap(cd.hc * Pow2(P), W) + q
                     hc1 == IF P = W THEN cd.hc ELSE Shr(cd.hc, W - P)
                 IN Coder(Append(cd.comp, word), rem0, hc1, hr1)

(***************************************************************************)
(* precision changes                                                         *)
(***************************************************************************)
IncreaseP(cd, NP) == IF cd.hr >= Pow2(S - NP) THEN Coder(cd.comp, Append(cd.rem, cd.hr % Pow2(W)), cd.hc, Shr(cd.hr, W)) ELSE cd
DecreaseP(cd, NP) == IF cd.hr < Pow2(S - NP - W) THEN (IF cd.rem = <<>> THEN FAIL ELSE Coder(cd.comp, Front(cd.rem), cd.hc, cd.hr * Pow2(W) + Last(cd.rem))) ELSE cd
ChangeP(cd, P, NP) == IF NP > P THEN IncreaseP(cd, NP) ELSE DecreaseP(cd, NP)

(***************************************************************************)
(* histories: hist = << <<P, c, p>>, ... >> in decoding order                *)
(***************************************************************************)
RECURSIVE EncodeBack(_, _)
EncodeBack(cd, h) == IF h = <<>> THEN cd
                     ELSE LET e == ChainEnc(cd, Last(h)[1], Last(h)[2], Last(h)[3])
                          IN IF Failed(e) THEN FAIL ELSE EncodeBack(e, Front(h))
\* the sequence of quantiles a coder will pull, whatever the models (pure bit reader)
RECURSIVE QStream(_, _, _)
QStream(cd, P, n) == IF n = 0 THEN <<>> ELSE LET u == Pull(cd, P) IN
                     IF Failed(u) THEN <<>> ELSE <<u.q>> \o QStream([cd EXCEPT !.comp = u.comp, !.hc = u.hc], P, n - 1)
=============================================================================
