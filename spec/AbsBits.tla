------------------------------- MODULE AbsBits -------------------------------
(* Format-agnostic trace validation of the bit-level stack coder at real       *)
(* word sizes (C16, C08, C18): the coder is an abstract stack of bits.         *)
EXTENDS Naturals, Sequences, TLC, Json, IOUtils
Rec == ndJsonDeserialize(IOEnv.TRACE)
VARIABLES bits, l
vars == <<bits, l>>
Init == bits = <<>> /\ l = 1
Step ==
    /\ l <= Len(Rec)
    /\ l' = l + 1
    /\ LET e == Rec[l] IN
       CASE e.ev = "new" -> bits' = <<>>
         [] e.ev = "w" -> bits' = Append(bits, e.b)
         [] e.ev = "r" -> IF bits = <<>> THEN e.b = 2 /\ bits' = bits
                          ELSE e.b = bits[Len(bits)] /\ bits' = SubSeq(bits, 1, Len(bits) - 1)
         [] e.ev = "len" -> e.n = Len(bits) /\ (e.empty <=> bits = <<>>) /\ bits' = bits
         [] e.ev = "inspect" -> e.same /\ e.n = Len(bits) /\ bits' = bits     \* guard / iter / re-import: same content, same view twice
         [] OTHER -> FALSE
Spec == Init /\ [][Step]_vars
Accepted == IF TLCGet("stats").diameter - 1 = Len(Rec) THEN TRUE
            ELSE Print(<<"REJECTED at event", TLCGet("stats").diameter, Rec[TLCGet("stats").diameter]>>, FALSE)
=============================================================================
