----------------------------- MODULE MC_Symbol -----------------------------
(* Enumeration of Huffman weight vectors and Exp-Golomb values.              *)
EXTENDS Naturals, Sequences, TLC, Json
CONSTANTS Kind, MaxLen, MaxW      \* "huffman": vectors of length 1..MaxLen over 0..MaxW;  "expgolomb": values 0..MaxW, B = MaxLen
H == INSTANCE Huffman
G == INSTANCE ExpGolomb
VARIABLE seq
Init == seq = <<>>
\* integer weights that an f32 represents exactly and whose sums are rounded by f32 addition (24-bit significand): the
\* float constructors of both trees must merge in the same order although e.g. (2^24 - 1) + 2^24 rounds onto 2^25
F32Set == {1, 3, 16777215, 16777216, 16777218, 33554432, 33554436}
Next == IF Kind = "huffman_f32" THEN \E x \in F32Set : Len(seq) < MaxLen /\ seq' = Append(seq, x)
        ELSE IF Kind = "huffman" THEN \E x \in 0..MaxW : Len(seq) < MaxLen /\ seq' = Append(seq, x)
        ELSE \E x \in 0..MaxW : seq = <<>> /\ seq' = <<x>>
Spec == Init /\ [][Next]_seq

HuffmanLaws == (Kind = "huffman" /\ seq # <<>>) =>
    LET cb == H!Codebook(seq) IN H!PrefixFree(cb) /\ H!Kraft(cb) /\ H!Optimal(seq) /\ H!DecodesBack(seq)
HuffmanF32Laws == (Kind = "huffman_f32" /\ seq # <<>>) =>
    LET cb == H!CodebookM(seq, 24) IN H!PrefixFree(cb) /\ H!Kraft(cb) /\ H!DecodesBackM(seq, 24) /\ \A i \in 1..Len(seq) : H!Representable(seq[i], 24)
GolombLaws == (Kind = "expgolomb" /\ seq # <<>>) => G!RoundTrip(seq[1])
\* prefix-freeness of the Exp-Golomb code over the enumerated range
GolombPrefixFree == (Kind = "expgolomb" /\ seq = <<>>) =>
    \A a, b \in 0..(IF MaxW > 40 THEN 40 ELSE MaxW) : a # b => ~H!IsPrefix(G!Codeword(a), G!Codeword(b))

Emit == /\ (Kind = "huffman_f32" /\ seq # <<>>) => PrintT(<<"CASE", ToJson([k |-> "huffman_f32", weights |-> seq, codebook |-> H!CodebookM(seq, 24),
                                                                                   exact_differs |-> H!CodebookM(seq, 24) # H!Codebook(seq)])>>)
        /\ (Kind = "huffman" /\ seq # <<>>) => PrintT(<<"CASE", ToJson([k |-> "huffman", weights |-> seq, codebook |-> H!Codebook(seq)])>>)
        /\ (Kind = "expgolomb" /\ seq # <<>>) => PrintT(<<"CASE", ToJson([k |-> "expgolomb", B |-> MaxLen, n |-> seq[1], codeword |-> G!Codeword(seq[1])])>>)
        /\ (Kind = "expgolomb" /\ seq = <<>>) => PrintT(<<"CASE", ToJson([k |-> "expgolomb_max",
               cases |-> [B \in {8, 16, 32, 64, 128} |-> [d \in 1..20 |-> [d |-> d - 1, codeword |-> G!NearMaxCodeword(B, d - 1)]]]])>>)
=============================================================================
