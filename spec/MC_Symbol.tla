----------------------------- MODULE MC_Symbol -----------------------------
(* Enumeration of Huffman weight vectors and Exp-Golomb values.              *)
EXTENDS Naturals, Sequences, TLC, Json
CONSTANTS Kind, MaxLen, MaxW      \* "huffman": vectors of length 1..MaxLen over 0..MaxW;  "expgolomb": values 0..MaxW, B = MaxLen
H == INSTANCE Huffman
G == INSTANCE ExpGolomb
VARIABLE seq
Init == seq = <<>>
Next == IF Kind = "huffman" THEN \E x \in 0..MaxW : Len(seq) < MaxLen /\ seq' = Append(seq, x)
        ELSE \E x \in 0..MaxW : seq = <<>> /\ seq' = <<x>>
Spec == Init /\ [][Next]_seq

HuffmanLaws == (Kind = "huffman" /\ seq # <<>>) =>
    LET cb == H!Codebook(seq) IN H!PrefixFree(cb) /\ H!Kraft(cb) /\ H!Optimal(seq) /\ H!DecodesBack(seq)
GolombLaws == (Kind = "expgolomb" /\ seq # <<>>) => G!RoundTrip(seq[1])
\* prefix-freeness of the Exp-Golomb code over the enumerated range
GolombPrefixFree == (Kind = "expgolomb" /\ seq = <<>>) =>
    \A a, b \in 0..(IF MaxW > 40 THEN 40 ELSE MaxW) : a # b => ~H!IsPrefix(G!Codeword(a), G!Codeword(b))

Emit == /\ (Kind = "huffman" /\ seq # <<>>) => PrintT(<<"CASE", ToJson([k |-> "huffman", weights |-> seq, codebook |-> H!Codebook(seq)])>>)
        /\ (Kind = "expgolomb" /\ seq # <<>>) => PrintT(<<"CASE", ToJson([k |-> "expgolomb", B |-> MaxLen, n |-> seq[1], codeword |-> G!Codeword(seq[1])])>>)
        /\ (Kind = "expgolomb" /\ seq = <<>>) => PrintT(<<"CASE", ToJson([k |-> "expgolomb_max",
               cases |-> [B \in {8, 16, 32, 64, 128} |-> [d \in 1..20 |-> [d |-> d - 1, codeword |-> G!NearMaxCodeword(B, d - 1)]]]])>>)
=============================================================================
