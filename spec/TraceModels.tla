----------------------------- MODULE TraceModels -----------------------------
(* impl -> spec: recorded views of entropy models built from ARBITRARY floats *)
(* (float tables, quantised continuous/discrete distributions) are checked    *)
(* against the contract of FixedPoint.tla.  TLC cannot predict float rounding,*)
(* but it can decide whether whatever came out is a valid, exactly invertible *)
(* model and whether all recorded representations agree.                      *)
EXTENDS FixedPoint, TLC, Json, IOUtils

Rec == ndJsonDeserialize(IOEnv.TRACE)
VARIABLE l
Init == l = 1
Next == l <= Len(Rec) /\ l' = l + 1
Spec == Init /\ [][Next]_l

Cur == Rec[IF l <= Len(Rec) THEN l ELSE Len(Rec)]
RowOf(tab, sym) == tab[IndexOf(tab, sym)]
\* every recorded encoder view agrees with the table; symbols outside the support have no probability
EncOK(r) == \A i \in 1..Len(r.enc) : LET x == r.enc[i] IN
    IF x[1] \in Support(r.rows) THEN Len(x) = 3 /\ x[2] = RowOf(r.rows, x[1])[2] /\ x[3] = RowOf(r.rows, x[1])[3]
    ELSE Len(x) = 1
\* every recorded quantile lookup returns the table entry that contains the quantile
DecOK(r) == \A i \in 1..Len(r.dec) : LET x == r.dec[i] IN
    /\ x[2] \in Support(r.rows) /\ <<x[2], x[3], x[4]>> = RowOf(r.rows, x[2])
    /\ x[3] <= x[1] /\ x[1] < x[3] + x[4]
\* other representations of the same model recorded alongside (C05)
AltOK(r) == \A i \in 1..Len(r.alt) : r.alt[i].rows = r.rows
RecordOK(r) == r.panic = "" /\ Valid(r.rows, r.P) /\ EncOK(r) /\ DecOK(r) /\ AltOK(r)
AllOK == l <= Len(Rec) => (RecordOK(Cur) \/ Print(<<"BAD RECORD", l, Cur.name, Cur.panic>>, FALSE))
Accepted == TLCGet("stats").diameter - 1 = Len(Rec)
=============================================================================
