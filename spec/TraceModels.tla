----------------------------- MODULE TraceModels -----------------------------
(* impl -> spec: recorded views of entropy models built from ARBITRARY floats *)
(* (float tables, quantised continuous/discrete distributions) are checked    *)
(* against the contract of FixedPoint.tla.  TLC cannot predict float rounding,*)
(* but it can decide whether whatever came out is a valid, exactly invertible *)
(* model and whether all recorded representations agree.                      *)
(* Numbers are recorded as pairs <<hi, lo>> in base 2^16 so that PRECISION 32 *)
(* (cumulatives up to 2^32) stays inside TLC's integers; the contract below   *)
(* is FixedPoint!Valid / RoundTrip transcribed to that representation.        *)
EXTENDS Naturals, Sequences, TLC, Json, IOUtils

Rec == ndJsonDeserialize(IOEnv.TRACE)
VARIABLE l
Init == l = 1
Next == l <= Len(Rec) /\ l' = l + 1
Spec == Init /\ [][Next]_l
Cur == Rec[IF l <= Len(Rec) THEN l ELSE Len(Rec)]

Base == 65536
Zero == <<0, 0>>
Add(a, b) == LET lo == a[2] + b[2] IN <<a[1] + b[1] + lo \div Base, lo % Base>>
Less(a, b) == a[1] < b[1] \/ (a[1] = b[1] /\ a[2] < b[2])
Leq(a, b) == a = b \/ Less(a, b)
Pow2P(P) == IF P >= 16 THEN <<2^(P - 16), 0>> ELSE <<0, 2^P>>
WellFormed(x) == x[1] >= 0 /\ x[2] >= 0 /\ x[2] < Base

\* FixedPoint!Valid on rows <<symbol, cum, prob>>
Valid(rows, P) ==
    /\ Len(rows) >= 2
    /\ rows[1][2] = Zero
    /\ \A i \in 1..Len(rows) : rows[i][3] # Zero /\ WellFormed(rows[i][2]) /\ WellFormed(rows[i][3])
    /\ \A i \in 1..(Len(rows) - 1) : rows[i + 1][2] = Add(rows[i][2], rows[i][3])
    /\ Add(rows[Len(rows)][2], rows[Len(rows)][3]) = Pow2P(P)
    /\ \A i, j \in 1..Len(rows) : i # j => rows[i][1] # rows[j][1]
Support(rows) == { rows[i][1] : i \in 1..Len(rows) }
RowOf(rows, sym) == rows[CHOOSE i \in 1..Len(rows) : rows[i][1] = sym]
\* every recorded encoder view agrees with the table; symbols outside the support have no probability
EncOK(r) == \A i \in 1..Len(r.enc) : LET x == r.enc[i] IN
    IF x[1] \in Support(r.rows) THEN Len(x) = 3 /\ x[2] = RowOf(r.rows, x[1])[2] /\ x[3] = RowOf(r.rows, x[1])[3]
    ELSE Len(x) = 1
\* every recorded quantile lookup returns the table entry that contains the quantile
DecOK(r) == \A i \in 1..Len(r.dec) : LET x == r.dec[i] IN
    /\ x[2] \in Support(r.rows) /\ <<x[2], x[3], x[4]>> = RowOf(r.rows, x[2])
    /\ Leq(x[3], x[1]) /\ Less(x[1], Add(x[3], x[4]))
\* other representations of the same model recorded alongside (C05)
AltOK(r) == \A i \in 1..Len(r.alt) : r.alt[i].rows = r.rows
RecordOK(r) == r.panic = "" /\ Valid(r.rows, r.P) /\ EncOK(r) /\ DecOK(r) /\ AltOK(r)
AllOK == l <= Len(Rec) => (RecordOK(Cur) \/ Print(<<"BAD RECORD", l, Cur.name, Cur.panic>>, FALSE))
Accepted == TLCGet("stats").diameter - 1 = Len(Rec)
=============================================================================
