------------------------------ MODULE Huffman ------------------------------
(* Huffman codebooks of src/symbol/huffman.rs.  Both trees run the same      *)
(* merge loop: pop the two smallest (weight, index) pairs from a min-heap,   *)
(* the first one becomes child 0 (bit 0), the second child 1 (bit 1), push   *)
(* (sum, next node index).  Ties are broken by the index.                    *)
EXTENDS Bits, FiniteSets, TLC

Less(a, b) == a[1] < b[1] \/ (a[1] = b[1] /\ a[2] < b[2])
MinOf(heap) == CHOOSE x \in heap : \A y \in heap : x = y \/ Less(x, y)

\* Weight addition.  The integer constructors add exactly (m = 0).  The float constructors add in the caller's float
\* type: for integer-valued weights that is the exact sum rounded to a significand of m bits, ties to even (IEEE-754
\* round-to-nearest-even; m = 24 for f32).  Both trees must round identically, or they describe different codes.
RoundTo(n, m) == LET bl == BitLen(n) IN
                 IF bl <= m THEN n
                 ELSE LET sh == bl - m
                          q == n \div Pow2(sh)
                          r == n % Pow2(sh)
                          half == Pow2(sh - 1)
                          up == r > half \/ (r = half /\ q % 2 = 1)
                      IN (q + (IF up THEN 1 ELSE 0)) * Pow2(sh)
Sum(x, y, m) == IF m = 0 THEN x + y ELSE RoundTo(x + y, m)
Representable(n, m) == m = 0 \/ RoundTo(n, m) = n

\* par: function from node index to <<parent index, bit>>
RECURSIVE BuildM(_, _, _, _)
BuildM(heap, par, next, m) ==
    IF Cardinality(heap) < 2 THEN par
    ELSE LET a == MinOf(heap)
             b == MinOf(heap \ {a})
         IN BuildM((heap \ {a, b}) \cup {<<Sum(a[1], b[1], m), next>>}, par @@ (a[2] :> <<next, 0>>) @@ (b[2] :> <<next, 1>>), next + 1, m)
Empty == [x \in {} |-> <<0, 0>>]
TreeM(w, m) == BuildM({ <<w[i], i - 1>> : i \in 1..Len(w) }, Empty, Len(w), m)     \* symbols are 0..n-1
Tree(w) == TreeM(w, 0)

\* bits from the leaf up to the root (the "suffix" order the encoder tree emits natively)
RECURSIVE Suffix(_, _)
Suffix(par, node) == IF node \in DOMAIN par THEN <<par[node][2]>> \o Suffix(par, par[node][1]) ELSE <<>>
Codeword(w, sym) == Rev(Suffix(Tree(w), sym))                             \* prefix order (root to leaf)
Codebook(w) == [i \in 1..Len(w) |-> Codeword(w, i - 1)]
CodebookM(w, m) == [i \in 1..Len(w) |-> Rev(Suffix(TreeM(w, m), i - 1))]

IsPrefix(a, b) == Len(a) <= Len(b) /\ SubSeq(b, 1, Len(a)) = a
PrefixFree(cb) == \A i, j \in 1..Len(cb) : i # j => ~IsPrefix(cb[i], cb[j])
MaxLen(cb) == CHOOSE m \in 0..Len(cb) : (\A i \in 1..Len(cb) : Len(cb[i]) <= m) /\ (\E i \in 1..Len(cb) : Len(cb[i]) = m)
RECURSIVE KraftSum(_, _, _)
KraftSum(cb, i, m) == IF i > Len(cb) THEN 0 ELSE Pow2(m - Len(cb[i])) + KraftSum(cb, i + 1, m)
Kraft(cb) == Len(cb) >= 2 => KraftSum(cb, 1, MaxLen(cb)) = Pow2(MaxLen(cb))
RECURSIVE Cost(_, _, _)
Cost(w, cb, i) == IF i > Len(w) THEN 0 ELSE w[i] * Len(cb[i]) + Cost(w, cb, i + 1)

\* minimal total weighted length over ALL merge orders (the cost of a merge is the merged weight)
RECURSIVE RemoveOne(_, _)
RemoveOne(s, x) == IF s = <<>> THEN <<>> ELSE IF s[1] = x THEN Tail(s) ELSE <<s[1]>> \o RemoveOne(Tail(s), x)
RECURSIVE MinCost(_)
SetMin(S) == CHOOSE x \in S : \A y \in S : x <= y
MinCost(ws) == IF Len(ws) < 2 THEN 0
               ELSE SetMin({ ws[i] + ws[j] + MinCost(Append(RemoveOne(RemoveOne(ws, ws[i]), ws[j]), ws[i] + ws[j])) :
                             <<i, j>> \in { p \in (1..Len(ws)) \X (1..Len(ws)) : p[1] < p[2] } })
Optimal(w) == Cost(w, Codebook(w), 1) = MinCost(w)

\* walking the decoder tree along a codeword reaches exactly that symbol
RECURSIVE Walk(_, _, _)
Children(par, node) == { c \in DOMAIN par : par[c][1] = node }
Walk(par, node, bits) == IF bits = <<>> THEN node
                         ELSE Walk(par, CHOOSE c \in Children(par, node) : par[c][2] = bits[1], Tail(bits))
Root(w) == 2 * Len(w) - 2
DecodesBack(w) == \A s \in 0..(Len(w) - 1) : Walk(Tree(w), Root(w), Codeword(w, s)) = s
DecodesBackM(w, m) == \A s \in 0..(Len(w) - 1) : Walk(TreeM(w, m), Root(w), CodebookM(w, m)[s + 1]) = s
=============================================================================
