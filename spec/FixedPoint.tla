----------------------------- MODULE FixedPoint -----------------------------
(* Exactly invertible fixed-point entropy models (src/stream/model/ directory).  *)
(* A model is a table: a sequence of <<symbol, cum, prob>> over the naturals *)
(* (values are compared with the B-bit implementation values modulo 2^B).    *)
EXTENDS Bits, FiniteSets, Integers

RECURSIVE SumSeq(_)
SumSeq(s) == IF s = <<>> THEN 0 ELSE s[1] + SumSeq(Tail(s))
Prefix(s, i) == SumSeq(SubSeq(s, 1, i))              \* sum of the first i entries

(***************************************************************************)
(* The contract (C03)                                                       *)
(***************************************************************************)
Valid(tab, P) ==
    /\ Len(tab) >= 2                                  \* no symbol has probability one
    /\ tab[1][2] = 0
    /\ \A i \in 1..Len(tab) : tab[i][3] >= 1
    /\ \A i \in 1..(Len(tab) - 1) : tab[i + 1][2] = tab[i][2] + tab[i][3]
    /\ tab[Len(tab)][2] + tab[Len(tab)][3] = Pow2(P)
    /\ \A i, j \in 1..Len(tab) : i # j => tab[i][1] # tab[j][1]
Support(tab) == { tab[i][1] : i \in 1..Len(tab) }
IndexOf(tab, sym) == CHOOSE i \in 1..Len(tab) : tab[i][1] = sym
EncView(tab, sym) == IF sym \in Support(tab) THEN <<tab[IndexOf(tab, sym)][2], tab[IndexOf(tab, sym)][3]>> ELSE <<>>   \* <<>> = None
DecView(tab, q) == LET i == CHOOSE j \in 1..Len(tab) : tab[j][2] <= q /\ q < tab[j][2] + tab[j][3] IN tab[i]
RoundTrip(tab, P) == \A q \in 0..(Pow2(P) - 1) :
    LET d == DecView(tab, q) IN EncView(tab, d[1]) = <<d[2], d[3]>> /\ d[2] <= q /\ q < d[2] + d[3]
SameModel(a, b) == a = b

\* table with symbols 0..n-1 from a sequence of probabilities
TableOf(probs) == [i \in 1..Len(probs) |-> <<i - 1, Prefix(probs, i - 1), probs[i]>>]

(***************************************************************************)
(* Fixed-point constructors (C19): `from_nonzero_fixed_point_probabilities` *)
(* probs: entries of the B-bit probability type, i.e. in 0..2^B-1           *)
(***************************************************************************)
FullProbs(probs, infer, P) == IF infer THEN Append(probs, Pow2(P) - SumSeq(probs)) ELSE probs
AcceptFixed(probs, infer, P) ==
    /\ \A i \in 1..Len(probs) : probs[i] >= 1
    /\ IF infer THEN SumSeq(probs) < Pow2(P) ELSE SumSeq(probs) = Pow2(P)
    /\ Len(probs) + (IF infer THEN 1 ELSE 0) >= 2
FixedTable(probs, infer, P) == TableOf(FullProbs(probs, infer, P))

(***************************************************************************)
(* UniformModel::new(n)                                                     *)
(***************************************************************************)
AcceptUniform(n, P) == n >= 2 /\ n <= Pow2(P)
UniformTable(n, P) == LET ppb == Pow2(P) \div n
                      IN [i \in 1..n |-> <<i - 1, (i - 1) * ppb, IF i < n THEN ppb ELSE Pow2(P) - (n - 1) * ppb>>]

(***************************************************************************)
(* `..._fast` float constructors on weights whose arithmetic is exact:       *)
(* integer weights w with total T a power of two.                           *)
(*   left_i = floor(C_i * (2^P - n) / T) + i                                *)
(***************************************************************************)
AcceptFast(w, P) == Len(w) >= 2 /\ Len(w) + 1 < Pow2(P) /\ SumSeq(w) > 0
FastLeft(w, P, i) == (Prefix(w, i) * (Pow2(P) - Len(w))) \div SumSeq(w) + i       \* i = 0..n-1 (0-based symbol)
FastTable(w, P) == [i \in 1..Len(w) |->
    <<i - 1, FastLeft(w, P, i - 1), (IF i = Len(w) THEN Pow2(P) ELSE FastLeft(w, P, i)) - FastLeft(w, P, i - 1)>>]

(***************************************************************************)
(* LeakyQuantizer on a step-shaped CDF:  cdf(min + i + 1/2) = K[i+1] / 2^m   *)
(* for i = 0..n-2 (K nondecreasing, values in 0..2^m).                       *)
(*   left_0 = 0, left_i = floor((2^P - n) K[i] / 2^m) + i,  right_last = 2^P *)
(* symbols are min..min+n-1                                                  *)
(***************************************************************************)
AcceptLeaky(n, P) == n >= 2 /\ n <= Pow2(P)
LeakyLeft(K, m, n, P, i) == IF i = 0 THEN 0 ELSE ((Pow2(P) - n) * K[i]) \div Pow2(m) + i
LeakyTable(K, m, n, min, P) == [i \in 1..n |->
    <<min + i - 1, LeakyLeft(K, m, n, P, i - 1), (IF i = n THEN Pow2(P) ELSE LeakyLeft(K, m, n, P, i)) - LeakyLeft(K, m, n, P, i - 1)>>]

(***************************************************************************)
(* Model diagnostics (C18) on DYADIC models, where every quantity is an      *)
(* exact rational: probs[i] = 2^k[i] out of 2^P; reference distribution      *)
(* r[i] = q[i] / 4 with q[i] \in {0, 1, 2, 4} (so log2 r[i] = Log2q(q[i]) - 2). *)
(* All results are numerators over the stated denominators.                  *)
(***************************************************************************)
Log2q(q) == IF q = 1 THEN 0 ELSE IF q = 2 THEN 1 ELSE 2                     \* q \in {1, 2, 4}
SumOver(n, F(_)) == SumSeq([i \in 1..n |-> F(i)])
\* entropy = P - sum_i p_i k_i / 2^P                      (denominator 2^P)
EntropyNum(k, P) == LET F(i) == Pow2(k[i]) * (P - k[i]) IN SumOver(Len(k), F)
\* cross entropy  H(r, model) = sum_i r_i (P - k_i)       (denominator 4)
CrossNum(k, q, P) == LET F(i) == q[i] * (P - k[i]) IN SumOver(Len(k), F)
\* reverse cross entropy H(model, r) = sum_i p_i (2 - log2 q_i) / 2^P   (denominator 2^P; needs q_i > 0)
RevCrossNum(k, q, P) == LET F(i) == Pow2(k[i]) * (2 - Log2q(q[i])) IN SumOver(Len(k), F)
\* KL(r || model) = cross entropy - H(r);  H(r) = sum_i r_i (2 - log2 q_i)   (denominator 4)
RefEntropyNum(q) == LET F(i) == IF q[i] = 0 THEN 0 ELSE q[i] * (2 - Log2q(q[i])) IN SumOver(Len(q), F)
KlNum(k, q, P) == CrossNum(k, q, P) - RefEntropyNum(q)
\* KL(model || r) = reverse cross entropy - entropy        (denominator 2^P)
RevKlNum(k, q, P) == RevCrossNum(k, q, P) - EntropyNum(k, P)
=============================================================================
