---------------------------- MODULE TraceBigAns ----------------------------
(* Exact trace validation (impl -> spec) of recorded AnsCoder executions at  *)
(* ANY width, in particular the real presets (u32/u64 with PRECISION 24/32,  *)
(* u16/u32 with PRECISION 12, u64/u128 ...).  Same events as TraceAns.tla,   *)
(* but every number that may exceed TLC's 32-bit integers (state, words,     *)
(* cumulative, probability) is logged as a sequence of LB-bit limbs and the  *)
(* coder is BigAns.tla.  The bulk is logged as its length and last 3 words.  *)
EXTENDS BigAns, TLC, Json, IOUtils

Rec == ndJsonDeserialize(IOEnv.TRACE)
VARIABLES cd, l
vars == <<cd, l>>

Init == cd = Empty /\ l = 1
Tail3(s) == SubSeq(s, IF Len(s) > 3 THEN Len(s) - 2 ELSE 1, Len(s))
Matches(x, e) == x.state = e.state /\ Len(x.bulk) = e.bulk_len /\ Tail3(x.bulk) = e.bulk_tail
Step ==
    /\ l <= Len(Rec)
    /\ l' = l + 1
    /\ LET e == Rec[l] IN
       CASE e.ev = "new" -> cd' = Empty /\ Matches(cd', e)
         [] e.ev = "from_compressed" -> CanImport(e.words) /\ cd' = Import(e.words) /\ Matches(cd', e)
         [] e.ev = "from_compressed_refused" -> ~CanImport(e.words) /\ cd' = cd
         [] e.ev = "from_binary" -> cd' = FromBinary(e.words) /\ Matches(cd', e)
         [] e.ev = "enc" -> cd' = AnsEnc(cd, e.P, e.c, e.p) /\ Matches(cd', e)
         [] e.ev = "enc_impossible" -> cd' = cd /\ Matches(cd, e)
         [] e.ev = "dec" -> Hits(cd, e.P, e.c, e.p) /\ cd' = AnsDec(cd, e.P, e.c, e.p) /\ Matches(cd', e)
         [] e.ev = "export" -> cd' = cd /\ e.words_len = Len(Export(cd)) /\ e.words_tail = Tail3(Export(cd)) /\ e.num_words = NumWords(cd) /\ e.num_bits = NumBits(cd)
                               /\ e.is_empty = IsEmpty(cd) /\ e.num_valid_bits = NumValidBits(cd) /\ Matches(cd, e)
         [] e.ev = "export_binary" -> cd' = cd /\ (IF IsBinary(cd) THEN e.ok /\ e.words_len = Len(ExportBinary(cd)) /\ e.words_tail = Tail3(ExportBinary(cd)) ELSE ~e.ok) /\ Matches(cd, e)
         [] e.ev = "reimport" -> cd' = Import(Export(cd)) /\ Matches(cd', e)
         [] OTHER -> FALSE
Spec == Init /\ [][Step]_vars

StateInv == BitLenB(cd.state) <= S /\ IsBig(cd.state)
Accepted == IF TLCGet("stats").diameter - 1 = Len(Rec) THEN TRUE
            ELSE Print(<<"REJECTED at event", TLCGet("stats").diameter, Rec[TLCGet("stats").diameter]>>, FALSE)
=============================================================================
