#!/usr/bin/env python3
"""Driver for the PYTHON front end of constriction (impl -> spec).

Runs seeded random histories through the Python API (the extension module built from /repo with `--features pybindings`)
and records one ndjson event per Python call, after it returned, with its arguments and everything the API lets us observe.
The traces are validated by TLC against TracePyAns.tla / TracePyRange.tla / TracePyChain.tla.

Only models whose fixed-point table the specification predicts exactly are used for the exact traces (Uniform, Categorical
on dyadic probabilities with perfect=False, CustomModel on step CDFs); numbers that do not fit TLC's 32-bit integers are
written as little-endian limb sequences of LB bits (spec/Big.tla).

usage: drive_py.py <coder: ans|range|chain|symbol> --so-dir DIR --out BASE --seed N --n EVENTS
Writes BASE.ndjson and BASE.report.json ({"events":.., "classes":{..}, "mismatches":[..]}).  Exit code 0 unless the driver
itself is broken; disagreements the driver sees on its own (e.g. a round trip returning other symbols) go to "mismatches".
"""
import sys, os, json, math, random, argparse, traceback

LB = 12


def limbs(n):
    n = int(n)
    out = []
    while n:
        out.append(n & ((1 << LB) - 1))
        n >>= LB
    return out


def lw(words):
    return [limbs(w) for w in words]


def layout(np, rng, values, dtype):
    """numpy array with the given logical content in one of several memory layouts (contiguous, reversed view with stride -1,
    every second element of a larger buffer, reversed strided view): the bindings must read arrays in logical order"""
    a = np.array(values, dtype=dtype)
    r = rng.random()
    if r < 0.55 or len(a) == 0:
        return a
    if r < 0.75:
        return np.ascontiguousarray(a[::-1])[::-1]
    buf = np.zeros(2 * len(a) + 1, dtype=dtype)
    if r < 0.9:
        buf[0:2 * len(a):2] = a; buf[1::2] = 77
        return buf[0:2 * len(a):2]
    buf[0:2 * len(a):2] = a[::-1]; buf[1::2] = 77
    return buf[0:2 * len(a):2][::-1]


class Models:
    """Random models + their descriptors for the specification (spec/PyModels.tla)."""

    def __init__(self, rng, cm, np, rep):
        self.rng, self.cm, self.np, self.rep = rng, cm, np, rep
        self.M = cm.stream.model

    def desc(self):
        r = self.rng
        kind = r.choice(["uniform", "uniform", "fast", "fast", "fast_lazy", "leaky", "leaky"])
        if kind == "uniform":
            n = r.choice([2, 3, 5, 7, 16, 17, 100, 255, 256, 257]) if r.random() < 0.5 else r.randint(2, 300)
            return {"k": "uniform", "n": n}
        if kind in ("fast", "fast_lazy"):
            n = r.randint(2, 6)
            t = r.choice([8, 16, 32, 64])
            cuts = sorted(r.randint(0, t) for _ in range(n - 1))
            w = [b - a for a, b in zip([0] + cuts, cuts + [t])]
            return {"k": "fast", "w": w, "lazy": kind == "fast_lazy"}
        n = r.randint(2, 8)
        m = r.randint(2, 6)
        K = sorted(r.randint(0, 1 << m) for _ in range(n - 1))
        return {"k": "leaky", "K": K, "m": m, "min": r.randint(-12, 12), "n": n}

    def support(self, d):
        if d["k"] == "uniform":
            return range(0, d["n"])
        if d["k"] == "fast":
            return range(0, len(d["w"]))
        return range(d["min"], d["min"] + d["n"])

    def build(self, d):
        np, M = self.np, self.M
        self.rep.cls("model_" + d["k"] + ("_lazy" if d.get("lazy") else ""))
        if d["k"] == "uniform":
            return M.Uniform(d["n"])
        if d["k"] == "fast":
            t = sum(d["w"])
            return M.Categorical(np.array(d["w"], dtype=np.float64) / t, perfect=False, lazy=bool(d.get("lazy")))
        K, m, mn, n = d["K"], d["m"], d["min"], d["n"]

        def cdf(x):
            i = math.floor(x - mn + 0.5)
            return 0.0 if i <= 0 else (1.0 if i >= n else K[i - 1] / float(1 << m))

        hint = self.rng.random()

        def inv(q):     # an arbitrary (bad) hint is allowed: the quantiser only uses it as a starting point
            return mn + (n - 1) * (q if hint < 0.5 else 1.0 - q) + (hint - 0.5) * 7
        if self.rng.random() < 0.4:
            # the same model through ScipyModel, which takes an object with `cdf` and `ppf` methods (duck-typed like scipy.stats)
            class Dist:
                pass
            dist = Dist(); dist.cdf = cdf; dist.ppf = inv
            self.rep.cls("model_leaky_via_ScipyModel")
            return M.ScipyModel(dist, mn, mn + n - 1)
        return M.CustomModel(cdf, inv, mn, mn + n - 1)

    def spec(self, d):
        """descriptor as the specification reads it"""
        if d["k"] == "uniform":
            return {"k": "uniform", "n": d["n"]}
        if d["k"] == "fast":
            return {"k": "fast", "w": d["w"]}
        return {"k": "leaky", "K": d["K"], "m": d["m"], "min": d["min"], "n": d["n"]}


class Report:
    def __init__(self):
        self.classes, self.mismatches, self.events = {}, [], 0

    def cls(self, c):
        self.classes[c] = self.classes.get(c, 0) + 1

    def bad(self, detail, ctx=None):
        if len(self.mismatches) < 20:
            self.mismatches.append({"detail": detail, "case": ctx})


def drive_ans(cm, np, rng, n_events, out, rep):
    A = cm.stream.stack.AnsCoder
    mods = Models(rng, cm, np, rep)
    f = open(out + ".ndjson", "w")

    def observe(c, ev):
        pos, state = c.pos()
        words = [int(x) for x in c.get_compressed()]
        ev.update({"state": limbs(state), "pos": pos, "words": lw(words), "num_words": c.num_words(), "num_bits": c.num_bits(),
                   "num_valid_bits": c.num_valid_bits(), "is_empty": bool(c.is_empty())})
        f.write(json.dumps(ev) + "\n")
        rep.events += 1

    coder = A()
    observe(coder, {"ev": "new"})
    stack = []          # (descriptor, symbol) of pushes that can be popped again
    snaps = []          # (pos, state, depth of `stack`) snapshots on the current coder
    while rep.events < n_events:
        ch = rng.random()
        if rep.events % 150 == 149 or ch < 0.02:
            # restart: fresh coder, import of words, or sealed arbitrary data
            how = rng.random()
            stack, snaps = [], []
            if how < 0.25:
                coder = A(); observe(coder, {"ev": "new"}); rep.cls("new")
                p, st = coder.pos(); snaps.append((p, st, 0))      # the empty coder is a valid seek target, too
            elif how < 0.3:
                coder.clear(); observe(coder, {"ev": "clear"}); rep.cls("clear")
            else:
                k = rng.randint(0, 7)
                data = [rng.choice([0, 1, 0xffffffff, rng.getrandbits(32), rng.getrandbits(32), rng.getrandbits(5)]) for _ in range(k)]
                arr = layout(np, rng, data, np.uint32)
                if how < 0.65:
                    try:
                        coder = A(arr)
                        observe(coder, {"ev": "from_compressed", "data": lw(data)}); rep.cls("from_compressed")
                    except ValueError:
                        f.write(json.dumps({"ev": "from_compressed_refused", "data": lw(data)}) + "\n"); rep.events += 1; rep.cls("from_compressed_refused")
                        coder = A(); observe(coder, {"ev": "new"})
                else:
                    coder = A(arr, seal=True)
                    observe(coder, {"ev": "from_binary", "data": lw(data)}); rep.cls("from_binary")
                    back = [int(x) for x in coder.get_compressed(unseal=True)]
                    if back != data:
                        rep.bad("AnsCoder(data, seal=True).get_compressed(unseal=True) = %r for data %r" % (back, data))
            continue
        if ch < 0.42:
            # push: single symbol, iid array, or model family with per-symbol parameters
            form = rng.random()
            if form < 0.4:
                d = mods.desc(); sym = rng.choice(list(mods.support(d)))
                coder.encode_reverse(sym, mods.build(d))
                items = [[mods.spec(d), sym]]; stack.append((d, sym)); rep.cls("enc_single")
            elif form < 0.7:
                d = mods.desc(); k = rng.randint(0, 6); syms = [rng.choice(list(mods.support(d))) for _ in range(k)]
                coder.encode_reverse(layout(np, rng, syms, np.int32), mods.build(d))
                items = [[mods.spec(d), s] for s in reversed(syms)]
                for s in reversed(syms): stack.append((d, s))
                rep.cls("enc_iid_array")
            else:
                fam = rng.choice(["uniform", "fast", "leaky"]); k = rng.randint(1, 5)
                ds, syms = family(mods, rng, fam, k)
                syms = [rng.choice(list(mods.support(d))) for d in ds]
                encode_family(coder.encode_reverse, cm, np, mods, fam, ds, syms)
                items = [[mods.spec(d), s] for d, s in reversed(list(zip(ds, syms)))]
                for d, s in reversed(list(zip(ds, syms))): stack.append((d, s))
                rep.cls("enc_family_" + fam)
            observe(coder, {"ev": "enc", "items": items})
            if rng.random() < 0.3 or len(stack) <= 2:        # the first symbol boundaries of a stream in particular (state below 2^32)
                p, st = coder.pos(); snaps.append((p, st, len(stack)))
        elif ch < 0.75:
            # pop: the top frames with their own models (or, below the base, with arbitrary models)
            form = rng.random()
            if stack and form < 0.45:
                d, s = stack.pop()
                got = coder.decode(mods.build(d))
                if got != s: rep.bad("decode returned %r, pushed %r with model %r" % (got, s, d))
                items = [[mods.spec(d), int(got)]]; rep.cls("dec_single")
            elif stack and form < 0.7:
                # iid run on top of the stack
                d = stack[-1][0]; k = 0
                while k < len(stack) and stack[-1 - k][0] is d and k < 6: k += 1
                k = rng.randint(1, k)
                got = [int(x) for x in coder.decode(mods.build(d), k)]
                want = [stack.pop()[1] for _ in range(k)]
                if got != want: rep.bad("decode(model, %d) returned %r, pushed %r" % (k, got, want))
                items = [[mods.spec(d), g] for g in got]; rep.cls("dec_iid_array")
            elif stack and form < 0.9:
                k = rng.randint(1, min(5, len(stack)))
                top = [stack[-1 - i] for i in range(k)]
                fam = top[0][0]["k"]
                j = 0
                while j < k and family_ok(top[:j + 1]): j += 1
                k = max(1, j); top = top[:k]
                if k == 1 and not family_ok(top):
                    d, s = stack.pop(); got = coder.decode(mods.build(d)); items = [[mods.spec(d), int(got)]]
                    if got != s: rep.bad("decode returned %r, pushed %r" % (got, s))
                else:
                    ds = [t[0] for t in top]
                    got = [int(x) for x in decode_family(coder.decode, cm, np, mods, fam, ds)]
                    want = [stack.pop()[1] for _ in range(k)]
                    if got != want: rep.bad("decode(family %s) returned %r, pushed %r" % (fam, got, want))
                    items = [[mods.spec(d), g] for d, g in zip(ds, got)]; rep.cls("dec_family_" + fam)
            else:
                # below the base or out of order: decoding is total, whatever comes back must be what the model assigns
                d = mods.desc(); got = coder.decode(mods.build(d)); items = [[mods.spec(d), int(got)]]
                stack = []; snaps = []; rep.cls("dec_arbitrary")
            snaps = [s for s in snaps if s[2] <= len(stack)]
            observe(coder, {"ev": "dec", "items": items})
        elif ch < 0.8:
            try:
                data = [int(x) for x in coder.get_compressed(unseal=True)]
                observe(coder, {"ev": "unseal", "ok": True, "data": lw(data)}); rep.cls("unseal_ok")
            except AssertionError:
                observe(coder, {"ev": "unseal", "ok": False, "data": []}); rep.cls("unseal_refused")
        elif ch < 0.85:
            coder = coder.clone(); observe(coder, {"ev": "clone"}); rep.cls("clone")
        elif ch < 0.9:
            data = [int(x) for x in coder.get_compressed()]
            words = layout(np, rng, data, np.uint32)
            coder = A(words); observe(coder, {"ev": "from_compressed", "data": lw(data)}); rep.cls("reimport"); snaps = []
        elif ch < 0.95 and snaps:
            p, st, depth = rng.choice(snaps)
            coder.seek(p, st); stack = stack[:depth]; snaps = [s for s in snaps if s[2] <= depth]
            observe(coder, {"ev": "seek", "target": p, "target_state": limbs(st)}); rep.cls("seek")
            if st < (1 << 32): rep.cls("seek_to_small_state")
        elif ch < 0.97:
            p, st = coder.pos()
            try:
                coder.seek(p + rng.randint(1, 3), st)
                rep.bad("seek beyond the data was accepted")
            except Exception:
                observe(coder, {"ev": "seek_refused", "target": p + 1}); rep.cls("seek_refused")
        elif rng.random() < 0.5:
            d = mods.desc(); sup = list(mods.support(d)); sym = rng.choice([sup[-1] + 1, sup[0] - 1, sup[-1] + (1 << 24), -(1 << 20)])
            try:
                coder.encode_reverse(sym, mods.build(d))
                rep.bad("encoding impossible symbol %r under %r succeeded" % (sym, d))
            except Exception:
                pass
            observe(coder, {"ev": "enc_refused", "items": [[mods.spec(d), sym]]}); rep.cls("enc_refused")
        else:
            # an impossible symbol at a random index of an ARRAY call (iid array or model family): the call must raise; the
            # symbols processed before it (for the stack: those behind it in the array) are on the coder, nothing else
            fam = rng.choice([None, "uniform", "fast", "leaky"]); k = rng.randint(2, 5); bad = rng.randrange(k)
            if fam is None:
                d = mods.desc(); ds = [d] * k
            else:
                ds, _ = family(mods, rng, fam, k); k = len(ds); bad = min(bad, k - 1)
            syms = [rng.choice(list(mods.support(x))) for x in ds]
            sup = list(mods.support(ds[bad])); syms[bad] = rng.choice([sup[-1] + 1, sup[0] - 1, sup[-1] + (1 << 24)])
            before = coder.pos()
            try:
                if fam is None: coder.encode_reverse(layout(np, rng, syms, np.int32), mods.build(ds[0]))
                else: encode_family(coder.encode_reverse, cm, np, mods, fam, ds, syms)
                rep.bad("encode_reverse(array) with impossible symbol %r at index %d of %d (%s) raised nothing" % (syms[bad], bad, k, fam or "iid"))
            except KeyError:
                pass
            # either the symbols processed before the impossible one are on the coder (what the library does: it stops at the error) or
            # the call was atomic (nothing encoded); the specification accepts both, the observation decides
            done = [[mods.spec(ds[i]), syms[i]] for i in range(k - 1, bad, -1)]
            if coder.pos() != before or not done:
                for i in range(k - 1, bad, -1): stack.append((ds[i], syms[i]))
            observe(coder, {"ev": "enc_partial", "items": done, "bad": [mods.spec(ds[bad]), syms[bad]]}); rep.cls("enc_array_with_impossible_symbol")
    f.close()


def drive_range(cm, np, rng, n_events, out, rep):
    Q = cm.stream.queue
    mods = Models(rng, cm, np, rep)
    f = open(out + ".ndjson", "w")

    def emit(ev):
        f.write(json.dumps(ev) + "\n"); rep.events += 1

    def observe(c, ev):
        pos, (lower, rng_) = c.pos()
        words = [int(x) for x in c.get_compressed()]
        ev.update({"lower": limbs(lower), "range": limbs(rng_), "pos": pos, "words": lw(words), "num_words": c.num_words(),
                   "num_bits": c.num_bits(), "is_empty": bool(c.is_empty())})
        emit(ev)
        return pos, lower, rng_, words

    while rep.events < n_events:
        enc = Q.RangeEncoder(); observe(enc, {"ev": "new"})
        msg = []                       # (descriptor, symbol) in encoding order
        snaps = [(enc.pos(), 0)]       # ((pos, (lower, range)), number of symbols encoded before)
        n_calls = rng.choice([0, 1, 2, 5, 12, 30])
        held_seen = False
        for _ in range(n_calls):
            form = rng.random()
            if form < 0.3:
                d = mods.desc(); sym = rng.choice(list(mods.support(d)))
                enc.encode(sym, mods.build(d)); items = [[mods.spec(d), sym]]; msg.append((d, sym)); rep.cls("enc_single")
            elif form < 0.5:
                d = mods.desc(); k = rng.randint(0, 6); syms = [rng.choice(list(mods.support(d))) for _ in range(k)]
                enc.encode(layout(np, rng, syms, np.int32), mods.build(d))
                items = [[mods.spec(d), s] for s in syms]; msg.extend((d, s) for s in syms); rep.cls("enc_iid_array")
            elif form < 0.7:
                fam = rng.choice(["uniform", "fast", "leaky"]); k = rng.randint(1, 5)
                ds, _ = family(mods, rng, fam, k)
                syms = [rng.choice(list(mods.support(d))) for d in ds]
                encode_family(enc.encode, cm, np, mods, fam, ds, syms)
                items = [[mods.spec(d), s] for d, s in zip(ds, syms)]; msg.extend(zip(ds, syms)); rep.cls("enc_family_" + fam)
            elif form < 0.95:
                # steer towards held-back words: the symbol of Uniform(2^24) whose interval contains the next word boundary
                _, (lower, rng_) = enc.pos()
                scale = rng_ >> 24
                off = ((((lower >> 32) + 1) << 32) - lower) & ((1 << 64) - 1)
                q = off // scale if scale else 1 << 30
                if q >= (1 << 24): q = rng.randint(0, (1 << 24) - 1)
                d = {"k": "uniform", "n": 1 << 24}
                enc.encode(int(q), mods.build(d)); items = [[mods.spec(d), int(q)]]; msg.append((d, int(q))); rep.cls("enc_steered")
            else:
                d = mods.desc(); sup = list(mods.support(d)); sym = rng.choice([sup[-1] + 1, sup[0] - 1, sup[-1] + (1 << 24)])
                try:
                    enc.encode(sym, mods.build(d)); rep.bad("encoding impossible symbol %r under %r succeeded" % (sym, d))
                except Exception:
                    pass
                observe(enc, {"ev": "enc_refused", "items": [[mods.spec(d), sym]]}); rep.cls("enc_refused")
                if rng.random() < 0.6:
                    fam = rng.choice([None, "uniform", "fast", "leaky"]); k = rng.randint(2, 5); bad = rng.randrange(k)
                    if fam is None:
                        d = mods.desc(); ds = [d] * k
                    else:
                        ds, _ = family(mods, rng, fam, k); k = len(ds); bad = min(bad, k - 1)
                    syms = [rng.choice(list(mods.support(x))) for x in ds]
                    sup = list(mods.support(ds[bad])); syms[bad] = rng.choice([sup[-1] + 1, sup[0] - 1, sup[-1] + (1 << 24)])
                    before_pos = enc.pos()
                    try:
                        if fam is None: enc.encode(layout(np, rng, syms, np.int32), mods.build(ds[0]))
                        else: encode_family(enc.encode, cm, np, mods, fam, ds, syms)
                        rep.bad("encode(array) with impossible symbol %r at index %d of %d (%s) raised nothing" % (syms[bad], bad, k, fam or "iid"))
                    except KeyError:
                        pass
                    if enc.pos() != before_pos or bad == 0:
                        for i in range(bad): msg.append((ds[i], syms[i]))
                    observe(enc, {"ev": "enc_partial", "items": [[mods.spec(ds[i]), syms[i]] for i in range(bad)], "bad": [mods.spec(ds[bad]), syms[bad]]}); rep.cls("enc_array_with_impossible_symbol")
                    snaps.append((enc.pos(), len(msg)))
                continue
            pos, lower, rng_, words = observe(enc, {"ev": "enc", "items": items})
            if pos > 0 and len(words) > 0 and pos > len(words) - 1 and not held_seen:
                pass
            snaps.append((enc.pos(), len(msg)))
            # clones: now and then, and preferably right after a steered symbol (the encoder is then usually holding words back)
            if rng.random() < (0.5 if items and items[0][0].get("n") == 1 << 24 else 0.1):
                enc = enc.clone(); observe(enc, {"ev": "clone"}); rep.cls("clone")
        if rng.random() < 0.05:
            enc.clear(); observe(enc, {"ev": "clear"}); rep.cls("clear"); msg = []; snaps = [(enc.pos(), 0)]
        # decode: a decoder from get_decoder() or over the compressed words
        if rng.random() < 0.5:
            dec = enc.get_decoder(); rep.cls("get_decoder")
        else:
            dec = Q.RangeDecoder(layout(np, rng, [int(x) for x in enc.get_compressed()], np.uint32)); rep.cls("decoder_from_words")
        emit({"ev": "decoder", "maybe_exhausted": bool(dec.maybe_exhausted())})
        at = 0
        steps = 0
        while steps < 2 * len(msg) + 3:
            steps += 1
            r = rng.random()
            if at < len(msg) and r < 0.75:
                d = msg[at][0]
                form = rng.random()
                run = 1
                while at + run < len(msg) and msg[at + run][0] is d and run < 6: run += 1
                if form < 0.4 or d["k"] == "uniform" and d["n"] > 1000:
                    got = [int(dec.decode(mods.build(d)))]; ds = [d]; rep.cls("dec_single")
                elif form < 0.7:
                    k = rng.randint(1, run); got = [int(x) for x in dec.decode(mods.build(d), k)]; ds = [d] * k; rep.cls("dec_iid_array")
                else:
                    k = 1
                    while at + k < len(msg) and k < 5 and family_ok([(msg[at][0], 0), (msg[at + k][0], 0)]) and not msg[at + k][0].get("lazy"): k += 1
                    ds = [m[0] for m in msg[at:at + k]]
                    if family_ok([(x, 0) for x in ds]) and not any(x.get("lazy") for x in ds) and not (ds[0]["k"] == "uniform" and max(x["n"] for x in ds) > 1000):
                        got = [int(x) for x in decode_family(dec.decode, cm, np, mods, ds[0]["k"], ds)]; rep.cls("dec_family_" + ds[0]["k"])
                    else:
                        ds = [d]; got = [int(dec.decode(mods.build(d)))]
                want = [m[1] for m in msg[at:at + len(got)]]
                if got != want: rep.bad("decoded %r, encoded %r (symbols %d.. of %d)" % (got, want, at, len(msg)))
                at += len(got)
                emit({"ev": "dec", "items": [[mods.spec(x), g] for x, g in zip(ds, got)], "maybe_exhausted": bool(dec.maybe_exhausted())})
            elif r < 0.9:
                (pos, (lower, rng_)), k = rng.choice(snaps)
                dec.seek(pos, (lower, rng_)); at = k
                emit({"ev": "seek", "target": pos, "lower": limbs(lower), "range": limbs(rng_), "maybe_exhausted": bool(dec.maybe_exhausted())}); rep.cls("seek")
            elif r < 0.95:
                nw = enc.num_words()
                try:
                    dec.seek(nw + rng.randint(1, 3), (0, (1 << 64) - 1)); rep.bad("seek beyond the data accepted")
                except Exception:
                    emit({"ev": "seek_refused", "target": nw + 1}); rep.cls("seek_refused")
            if at == len(msg) and rng.random() < 0.4:
                if not dec.maybe_exhausted(): rep.bad("decoder not maybe_exhausted after decoding the whole message")
                rep.cls("exhausted_after_message")
                break
        # now and then: a decoder over arbitrary words, decoding with arbitrary models (documented errors only)
        if rng.random() < 0.5:
            k = rng.randint(0, 5)
            data = [rng.choice([0, 0xffffffff, rng.getrandbits(32), rng.getrandbits(32)]) for _ in range(k)]
            if rng.random() < 0.35: data = [0xffffffff] * rng.randint(1, 4)       # all ones: invalid for every model at once
            dec = Q.RangeDecoder(np.array(data, dtype=np.uint32))
            emit({"ev": "decoder_over", "data": lw(data), "maybe_exhausted": bool(dec.maybe_exhausted())}); rep.cls("decoder_over_garbage")
            for _ in range(rng.randint(1, 8)):
                d = mods.desc()
                try:
                    got = int(dec.decode(mods.build(d)))
                    emit({"ev": "dec", "items": [[mods.spec(d), got]], "maybe_exhausted": bool(dec.maybe_exhausted())}); rep.cls("dec_garbage")
                except (ValueError, AssertionError, RuntimeError) as e:
                    emit({"ev": "dec_invalid", "error": str(e)[:80]}); rep.cls("dec_invalid_data")
    f.close()


def drive_chain(cm, np, rng, n_events, out, rep):
    C = cm.stream.chain.ChainCoder
    mods = Models(rng, cm, np, rep)
    f = open(out + ".ndjson", "w")

    def emit(ev):
        f.write(json.dumps(ev) + "\n"); rep.events += 1

    def observe(c, ev):
        a, b = c.get_remainders()
        ev["rem_prefix"] = lw(int(x) for x in a); ev["rem_suffix"] = lw(int(x) for x in b)
        try:
            a, b = c.get_data(); ev.update({"data_ok": True, "data_prefix": lw(int(x) for x in a), "data_suffix": lw(int(x) for x in b)})
        except AssertionError:
            ev.update({"data_ok": False})
        try:
            a, b = c.get_data(unseal=True); ev.update({"unseal_ok": True, "unseal_prefix": lw(int(x) for x in a), "unseal_suffix": lw(int(x) for x in b)})
        except AssertionError:
            ev.update({"unseal_ok": False})
        emit(ev)

    while rep.events < n_events:
        # ---- construct from random data (binary / compressed), decode a history, optionally re-import the remainders, encode back
        k = rng.randint(0, 9)
        data = [rng.choice([0, 1, 0xffffffff, rng.getrandbits(32), rng.getrandbits(32), rng.getrandbits(32), rng.getrandbits(9)]) for _ in range(k)]
        how = rng.choice(["binary", "binary", "compressed"])
        try:
            coder = C(layout(np, rng, data, np.uint32), False, how == "binary")
        except ValueError:
            emit({"ev": "ctor_refused", "how": how, "data": lw(data)}); rep.cls("ctor_refused"); continue
        observe(coder, {"ev": "ctor", "how": how, "data": lw(data)}); rep.cls("ctor_" + how)
        hist = []        # (descriptor, symbol) in decoding order
        for _ in range(rng.randint(0, 8)):
            form = rng.random()
            before = coder.clone()
            try:
                if form < 0.45:
                    d = mods.desc(); got = [int(coder.decode(mods.build(d)))]; ds = [d]; rep.cls("dec_single")
                elif form < 0.7:
                    d = mods.desc(); n = rng.randint(0, 4); got = [int(x) for x in coder.decode(mods.build(d), n)]; ds = [d] * n; rep.cls("dec_iid_array")
                    if len(got) != n: rep.bad("ChainCoder.decode(model, %d) returned %d symbols without raising (running out of data must be an error, not a shorter result)" % (n, len(got)))
                else:
                    fam = rng.choice(["uniform", "fast", "leaky"]); ds, _ = family(mods, rng, fam, rng.randint(1, 4))
                    got = [int(x) for x in decode_family(coder.decode, cm, np, mods, fam, ds)]; rep.cls("dec_family_" + fam)
            except AssertionError as e:
                # documented: out of compressed data.  After a multi-symbol call the coder is somewhere in the middle; continue
                # from the state before the call and confirm the error with single-symbol decodes
                rep.cls("dec_out_of_data")
                coder = before
                emit_marker = {"ev": "clone"}; observe(coder, emit_marker)
                d = mods.desc()
                while True:
                    try:
                        g = int(coder.decode(mods.build(d))); hist.append((d, g)); observe(coder, {"ev": "dec", "items": [[mods.spec(d), g]]})
                    except AssertionError:
                        observe(coder, {"ev": "dec_out_of_data"}); rep.cls("dec_out_of_data_single"); break
                break
            for d, g in zip(ds, got): hist.append((d, g))
            observe(coder, {"ev": "dec", "items": [[mods.spec(d), g] for d, g in zip(ds, got)]})
        if rng.random() < 0.3:
            probe = coder.clone(); d = {"k": "uniform", "n": 256}; want = 8 * (k + 4)
            try:
                got = probe.decode(mods.build(d), want)
                rep.bad("ChainCoder.decode(model, %d) on %d words of data returned %d symbols without raising" % (want, k, len(got)))
            except AssertionError:
                rep.cls("dec_iid_array_out_of_data")
        # ---- optionally continue from the exported remainders (suffix only, or prefix and suffix concatenated)
        mode = rng.choice(["same", "suffix", "concat"])
        prefix = []
        if mode != "same":
            a, b = coder.get_remainders(); a = [int(x) for x in a]; b = [int(x) for x in b]
            words = b if mode == "suffix" else a + b
            prefix = a if mode == "suffix" else []
            try:
                coder = C(layout(np, rng, words, np.uint32), True, False)
                observe(coder, {"ev": "ctor", "how": "remainders", "data": lw(words)}); rep.cls("ctor_remainders_" + mode)
            except ValueError:
                emit({"ev": "ctor_refused", "how": "remainders", "data": lw(words)}); rep.cls("ctor_refused"); continue
        # ---- encode the history back in reverse (single symbols, iid runs, families)
        i = len(hist)
        failed = False
        while i > 0 and not failed:
            d, s = hist[i - 1]
            run = 1
            while i - run > 0 and hist[i - 1 - run][0] is d and run < 5: run += 1
            form = rng.random()
            try:
                if form < 0.5 or run == 1:
                    coder.encode_reverse(s, mods.build(d)); items = [[mods.spec(d), s]]; i -= 1; rep.cls("enc_single")
                else:
                    syms = [h[1] for h in hist[i - run:i]]
                    coder.encode_reverse(np.array(syms, dtype=np.int32), mods.build(d)); items = [[mods.spec(d), x] for x in reversed(syms)]; i -= run; rep.cls("enc_iid_array")
            except AssertionError:
                observe(coder, {"ev": "enc_out_of_remainders", "items": [[mods.spec(d), s]]}); rep.cls("enc_out_of_remainders"); failed = True; break
            observe(coder, {"ev": "enc", "items": items})
        if failed or i > 0: continue
        # ---- everything encoded back: the original data must be restored (C13)
        try:
            a, b = coder.get_data(unseal=(how == "binary"))
            back = prefix + [int(x) for x in a] + [int(x) for x in b]
            if back != data: rep.bad("chain coder (python): data %r, history of %d symbols, restore mode %s: got back %r" % (data, len(hist), mode, back))
            rep.cls("restored_" + mode)
        except AssertionError:
            rep.bad("chain coder (python): get_data failed after encoding the whole history back (data %r, mode %s)" % (data, mode))
        if rng.random() < 0.3:
            d = mods.desc(); sup = list(mods.support(d))
            try:
                coder.encode_reverse(sup[-1] + 1, mods.build(d)); rep.bad("encoding an impossible symbol succeeded")
            except KeyError:
                rep.cls("enc_refused")
            except BaseException as e:
                rep.bad("impossible symbol raised %s: %s" % (type(e).__name__, str(e)[:100]))
    f.close()


def drive_symbol(cm, np, rng, n_events, out, rep):
    S = cm.symbol
    f = open(out + ".ndjson", "w")

    def emit(ev):
        f.write(json.dumps(ev) + "\n"); rep.events += 1

    def wbits(words):
        return [(int(w) >> i) & 1 for w in words for i in range(32)]

    F32SET = [1, 3, 16777215, 16777216, 16777218, 33554432, 33554436]

    def book():
        """(weights, f32?, encoder tree, decoder tree)"""
        if rng.random() < 0.3:
            w = [rng.choice(F32SET) for _ in range(rng.randint(1, 5))]; arr = np.array(w, dtype=np.float32); f32 = True; rep.cls("book_f32")
        else:
            w = [rng.choice([0, 1, 1, 2, 3, 5, 8, 100, rng.randint(0, 1 << 20)]) for _ in range(rng.randint(1, 7))]
            arr = np.array(w, dtype=np.float64); f32 = False; rep.cls("book_f64")
        return w, f32, S.huffman.EncoderHuffmanTree(arr), S.huffman.DecoderHuffmanTree(arr)

    while rep.events < n_events:
        # ---- stack coder: pushes, pops, exports (the export goes through the guard that seals and unseals), re-import
        st = S.StackCoder(); emit({"ev": "stack_new"})
        frames = []
        for _ in range(rng.randint(0, 60)):
            r = rng.random()
            if r < 0.5:
                w, f32, enc, dec = book(); sym = rng.randrange(len(w))
                if len(w) == 1: pass
                st.encode_symbol(sym, enc); frames.append((w, f32, dec, sym)); emit({"ev": "stack_enc", "w": w, "f32": f32, "sym": sym}); rep.cls("stack_enc")
            elif r < 0.75 and frames:
                w, f32, dec, sym = frames.pop()
                got = int(st.decode_symbol(dec))
                if got != sym: rep.bad("StackCoder (python): pushed %d, popped %d (weights %r)" % (sym, got, w))
                emit({"ev": "stack_dec", "w": w, "f32": f32, "sym": got}); rep.cls("stack_dec")
            elif r < 0.9:
                if rng.random() < 0.4:
                    # steer to an exact multiple of the word size with one-bit symbols, then export there
                    _, b = st.get_compressed_and_bitrate()
                    w1 = [1, 1]; e1 = S.huffman.EncoderHuffmanTree(np.array(w1, dtype=np.float64)); d1 = S.huffman.DecoderHuffmanTree(np.array(w1, dtype=np.float64))
                    for _ in range((32 - b % 32) % 32 + 32 * rng.randint(0, 1)):
                        sym = rng.randint(0, 1); st.encode_symbol(sym, e1); frames.append((w1, False, d1, sym)); emit({"ev": "stack_enc", "w": w1, "f32": False, "sym": sym})
                words, bitrate = st.get_compressed_and_bitrate()
                emit({"ev": "stack_export", "word_bits": wbits(words), "bitrate": int(bitrate)}); rep.cls("stack_export")
                if bitrate % 32 == 0 and bitrate > 0: rep.cls("stack_export_at_word_boundary")
            elif r < 0.95:
                words, _ = st.get_compressed_and_bitrate(); words = [int(x) for x in words]
                st = S.StackCoder(layout(np, rng, words, np.uint32)); emit({"ev": "stack_from", "word_bits": wbits(words)}); rep.cls("stack_reimport")
            else:
                w, f32, enc, dec = book()
                try:
                    st.encode_symbol(len(w) + rng.randint(0, 2), enc); rep.bad("StackCoder (python): symbol outside the alphabet accepted")
                except Exception:
                    emit({"ev": "stack_enc_refused", "w": w, "f32": f32, "sym": len(w)}); rep.cls("stack_enc_refused")
        # ---- queue encoder / decoder
        q = S.QueueEncoder(); emit({"ev": "queue_new"})
        msg = []
        for _ in range(rng.randint(0, 40)):
            w, f32, enc, dec = book(); sym = rng.randrange(len(w))
            q.encode_symbol(sym, enc); msg.append((w, f32, dec, sym)); emit({"ev": "queue_enc", "w": w, "f32": f32, "sym": sym}); rep.cls("queue_enc")
            if rng.random() < 0.2:
                words, bitrate = q.get_compressed_and_bitrate(); emit({"ev": "queue_export", "word_bits": wbits(words), "bitrate": int(bitrate)}); rep.cls("queue_export")
            if rng.random() < 0.15:
                # a decoder obtained in the middle of the message is an inspection: the encoder goes on unchanged
                mid = q.get_decoder(); rep.cls("queue_get_decoder_mid_stream")
                for (w2, f2, dec2, sym2) in msg[:3]:
                    got = int(mid.decode_symbol(dec2))
                    if got != sym2: rep.bad("QueueEncoder.get_decoder() in the middle of a message: read %d, wrote %d" % (got, sym2))
                words, bitrate = q.get_compressed_and_bitrate(); emit({"ev": "queue_export", "word_bits": wbits(words), "bitrate": int(bitrate)})
            if rng.random() < 0.1:
                # pad to an exact word boundary with one-bit symbols
                _, b = q.get_compressed_and_bitrate()
                w1 = [1, 1]; e1 = S.huffman.EncoderHuffmanTree(np.array(w1, dtype=np.float64)); d1 = S.huffman.DecoderHuffmanTree(np.array(w1, dtype=np.float64))
                for _ in range((32 - b % 32) % 32):
                    sym = rng.randint(0, 1); q.encode_symbol(sym, e1); msg.append((w1, False, d1, sym)); emit({"ev": "queue_enc", "w": w1, "f32": False, "sym": sym})
                words, bitrate = q.get_compressed_and_bitrate(); emit({"ev": "queue_export", "word_bits": wbits(words), "bitrate": int(bitrate)}); rep.cls("queue_export_at_word_boundary")
        words, bitrate = q.get_compressed_and_bitrate(); words = [int(x) for x in words]
        emit({"ev": "queue_export", "word_bits": wbits(words), "bitrate": int(bitrate)})
        if rng.random() < 0.5:
            qd = q.get_decoder(); rep.cls("queue_get_decoder")
        else:
            qd = S.QueueDecoder(layout(np, rng, words, np.uint32)); rep.cls("queue_decoder_from_words")
        emit({"ev": "queue_decoder", "word_bits": wbits(words), "from_encoder": True})
        for (w, f32, dec, sym) in msg:
            got = int(qd.decode_symbol(dec))
            if got != sym: rep.bad("QueueDecoder (python): wrote %d, read %d (weights %r)" % (sym, got, w))
            emit({"ev": "queue_dec", "w": w, "f32": f32, "sym": got}); rep.cls("queue_dec")
        # past the end: zero padding decodes as whatever the all-zero codeword is, then the documented error
        for _ in range(40):
            w, f32, enc, dec = book()
            try:
                got = int(qd.decode_symbol(dec)); emit({"ev": "queue_dec", "w": w, "f32": f32, "sym": got}); rep.cls("queue_dec_padding")
            except ValueError:
                emit({"ev": "queue_dec_out_of_data", "w": w, "f32": f32}); rep.cls("queue_dec_out_of_data"); break
    f.close()


def drive_diff(cm, np, rng, n_events, out, rep):
    """Messages with the model classes the specification does not predict (QuantizedGaussian/Laplace/Cauchy, Binomial, Bernoulli,
    Categorical perfect / fast / lazy on arbitrary float64 / float32 tables), encoded through the Python API in the concrete-
    model and in the model-family call forms, decoded again through Python, and recorded for `vh pydiff`, which encodes the same
    messages through the Rust API: both front ends must emit the same words."""
    M = cm.stream.model
    f = open(out + ".ndjson", "w")

    def seg():
        kind = rng.choice(["gaussian", "gaussian", "laplace", "cauchy", "binomial", "bernoulli", "categorical", "categorical"])
        n = rng.randint(1, 6)
        fam = rng.random() < 0.5           # model family with per-symbol parameters
        k = n if fam else 1
        if kind in ("gaussian", "laplace", "cauchy"):
            lo = rng.randint(-60, 0); hi = lo + rng.randint(1, 120)
            a = [rng.uniform(lo - 20, hi + 20) for _ in range(k)]
            b = [10 ** rng.uniform(-3, 3) for _ in range(k)]
            return {"kind": kind, "min": lo, "max": hi, "a": a, "b": b, "syms": [rng.randint(lo, hi) for _ in range(n)], "fam": fam}
        if kind == "binomial":
            nn = rng.randint(1, 40)
            return {"kind": kind, "a": [nn] * k, "b": [rng.choice([rng.random(), 1e-9, 1 - 1e-9, 0.5]) for _ in range(k)], "syms": [rng.randint(0, nn) for _ in range(n)], "fam": fam}
        if kind == "bernoulli":
            return {"kind": kind, "a": [rng.choice([rng.random(), 1e-12, 0.5, 1 - 1e-7]) for _ in range(k)], "perfect": rng.random() < 0.5, "syms": [rng.randint(0, 1) for _ in range(n)], "fam": fam}
        m = rng.randint(2, 9)
        rows = []
        for _ in range(k):
            w = [rng.choice([rng.random(), rng.random() ** 8, 0.0, 1e-30, 10 ** rng.uniform(-12, 3)]) for _ in range(m)]
            if sum(w) <= 0: w[0] = 1.0
            t = sum(w); rows.append([x / t for x in w])
        perfect = rng.random() < 0.4
        lazy = (not perfect) and (not fam) and rng.random() < 0.4
        f32 = rng.random() < 0.3
        if f32: rows = [[float(np.float32(x)) for x in r] for r in rows]
        return {"kind": kind, "probs": rows, "perfect": perfect, "lazy": lazy, "f32": f32, "syms": [rng.randrange(m) for _ in range(n)], "fam": fam}

    def model_and_params(s):
        k = s["kind"]; fam = s["fam"]
        if k in ("gaussian", "laplace", "cauchy"):
            cls = {"gaussian": M.QuantizedGaussian, "laplace": M.QuantizedLaplace, "cauchy": M.QuantizedCauchy}[k]
            if fam: return cls(s["min"], s["max"]), (layout(np, rng, s["a"], np.float64), layout(np, rng, s["b"], np.float64))
            return cls(s["min"], s["max"], s["a"][0], s["b"][0]), ()
        if k == "binomial":
            if fam: return M.Binomial(), (layout(np, rng, s["a"], np.int32), layout(np, rng, s["b"], np.float64))
            return M.Binomial(int(s["a"][0]), s["b"][0]), ()
        if k == "bernoulli":
            if fam: return M.Bernoulli(perfect=s["perfect"]), (layout(np, rng, s["a"], np.float64),)
            return M.Bernoulli(s["a"][0], perfect=s["perfect"]), ()
        dt = np.float32 if s["f32"] else np.float64
        if fam: return M.Categorical(perfect=s["perfect"]), (np.array(s["probs"], dtype=dt),)
        return M.Categorical(np.array(s["probs"][0], dtype=dt), perfect=s["perfect"], lazy=s["lazy"]), ()

    while rep.events < n_events:
        coder = rng.choice(["ans", "range"])
        segs = [seg() for _ in range(rng.randint(0, 5))]
        enc = cm.stream.stack.AnsCoder() if coder == "ans" else cm.stream.queue.RangeEncoder()
        for s in segs:
            model, params = model_and_params(s)
            syms = layout(np, rng, s["syms"], np.int32)
            if len(s["syms"]) == 1 and not s["fam"] and rng.random() < 0.5:
                (enc.encode_reverse if coder == "ans" else enc.encode)(int(s["syms"][0]), model)
            else:
                (enc.encode_reverse if coder == "ans" else enc.encode)(syms, model, *params)
            rep.cls("diff_%s%s" % (s["kind"], "_family" if s["fam"] else ""))
        words = [int(x) for x in enc.get_compressed()]
        # decode through Python as well (stack: last segment first)
        dec = cm.stream.stack.AnsCoder(np.array(words, dtype=np.uint32)) if coder == "ans" else cm.stream.queue.RangeDecoder(np.array(words, dtype=np.uint32))
        for s in (reversed(segs) if coder == "ans" else segs):
            model, params = model_and_params(s)
            got = [int(x) for x in (dec.decode(model, *params) if s["fam"] else dec.decode(model, len(s["syms"])))]
            if got != s["syms"]: rep.bad("python round trip (%s, %s%s): decoded %r, encoded %r" % (coder, s["kind"], " family" if s["fam"] else "", got, s["syms"]), s)
        f.write(json.dumps({"coder": coder, "segs": segs, "words": words}) + "\n"); rep.events += 1
    f.close()


def family_ok(frames):
    """frames (top first) can be decoded by ONE family call: same kind, and the kind's shared shape parameters agree"""
    k0 = frames[0][0]
    for d, _ in frames:
        if d["k"] != k0["k"]: return False
        if d["k"] == "fast" and (len(d["w"]) != len(k0["w"]) or d.get("lazy")): return False
        if d["k"] == "leaky" and (d["n"] != k0["n"] or d["min"] != k0["min"] or d["m"] != k0["m"]): return False
    return True


def family(mods, rng, fam, k):
    """k model descriptors that one family call can serve"""
    ds = []
    base = None
    for _ in range(200):
        d = mods.desc()
        if d["k"] != fam or d.get("lazy"): continue
        if base is None: base = d
        if family_ok([(base, 0), (d, 0)]): ds.append(d)
        if len(ds) == k: break
    return ds, None


def _family_args(cm, np, mods, fam, ds):
    M = cm.stream.model
    rng = mods.rng
    if fam == "uniform":
        return M.Uniform(), (layout(np, rng, [d["n"] for d in ds], np.int32),)
    if fam == "fast":
        probs = np.array([[w / float(sum(d["w"])) for w in d["w"]] for d in ds], dtype=np.float64)
        return M.Categorical(perfect=False), (probs,)
    mn, n, m = ds[0]["min"], ds[0]["n"], ds[0]["m"]
    tables = [d["K"] for d in ds]
    # two parameter arrays (a, b) that only TOGETHER select the table of a symbol: t = (a + b) mod len.  A binding that pairs
    # parameter i of one array with parameter j != i of the other uses the wrong model.
    k = len(ds)
    b = [rng.randint(0, 3 * k) for _ in range(k)]
    a = [(i - b[i]) % k for i in range(k)]

    def cdf(x, p, q):
        t = int(round(p + q)) % k
        i = math.floor(x - mn + 0.5)
        return 0.0 if i <= 0 else (1.0 if i >= n else tables[t][i - 1] / float(1 << m))

    def inv(q_, p, q):
        return mn + (n - 1) * q_
    mods.rep.cls("model_family_two_parameter_arrays")
    return M.CustomModel(cdf, inv, mn, mn + n - 1), (layout(np, rng, a, np.float64), layout(np, rng, b, np.float64))


def encode_family(encode, cm, np, mods, fam, ds, syms):
    model, params = _family_args(cm, np, mods, fam, ds)
    mods.rep.cls("model_family_" + fam)
    encode(layout(np, mods.rng, syms, np.int32), model, *params)


def decode_family(decode, cm, np, mods, fam, ds):
    model, params = _family_args(cm, np, mods, fam, ds)
    return decode(model, *params)


def main():
    ap = argparse.ArgumentParser()
    ap.add_argument("coder")
    ap.add_argument("--so-dir", required=True)
    ap.add_argument("--out", required=True)
    ap.add_argument("--seed", type=int, default=0)
    ap.add_argument("--n", type=int, default=1000)
    a = ap.parse_args()
    sys.path.insert(0, a.so_dir)
    import numpy as np
    import constriction as cm
    rng = random.Random(a.seed * 7919 + hash(a.coder) % 1000 if False else a.seed * 7919 + sum(map(ord, a.coder)))
    rep = Report()
    try:
        {"ans": drive_ans, "range": drive_range, "chain": drive_chain, "symbol": drive_symbol, "diff": drive_diff}[a.coder](cm, np, rng, a.n, a.out, rep)
    except (IndexError, NameError, AttributeError, UnboundLocalError, ZeroDivisionError, ImportError):
        # these are bugs of this driver, not behaviour of the library: report a tool error, never a violation
        traceback.print_exc()
        sys.exit(3)
    except BaseException as e:      # a panic in the extension module surfaces as pyo3_runtime.PanicException (a BaseException)
        rep.bad("exception escaped from a Python API call that the driver expects to succeed: %s: %s\n%s" % (type(e).__name__, e, traceback.format_exc()[-1500:]))
    json.dump({"events": rep.events, "classes": rep.classes, "mismatches": rep.mismatches}, open(a.out + ".report.json", "w"))


if __name__ == "__main__":
    main()
