//! Dynamic (width-erased) access to the real `AnsCoder<Word, State, Vec<Word>>`.
use crate::tab::Tab;
use crate::tiny::*;
use constriction::stream::stack::AnsCoder;
use constriction::stream::{Decode, Encode};
#[allow(unused_imports)]
use constriction::stream::TryCodingError;
use constriction::{CoderError, DefaultEncoderFrontendError, Pos, Seek};

pub type Words = Vec<u128>;

pub trait AnsDyn {
    fn w(&self) -> u32;
    fn s(&self) -> u32;
    fn clone_box(&self) -> Box<dyn AnsDyn>;
    /// (bulk, state)
    fn raw(&self) -> (Words, u128);
    /// encode symbol index `sym` of the table `cdf` at precision `prec`
    fn enc(&mut self, prec: usize, cdf: &[u64], sym: usize) -> Result<(), String>;
    fn dec(&mut self, prec: usize, cdf: &[u64]) -> usize;
    /// batch forms (iid, same table): per-symbol results must equal the loop
    fn enc_iid_reverse(&mut self, prec: usize, cdf: &[u64], syms: &[usize]) -> Result<(), String>;
    fn enc_symbols_reverse(&mut self, prec: usize, items: &[(usize, Vec<u64>)]) -> Result<(), String>;
    /// `err_at`: the iterator yields `Err(())` instead of item number `err_at`
    fn try_enc_symbols_reverse(&mut self, prec: usize, items: &[(usize, Vec<u64>)], err_at: Option<usize>) -> Result<(), String>;
    fn enc_symbols(&mut self, prec: usize, items: &[(usize, Vec<u64>)]) -> Result<(), String>;
    fn try_enc_symbols(&mut self, prec: usize, items: &[(usize, Vec<u64>)], err_at: Option<usize>) -> Result<(), String>;
    fn enc_iid(&mut self, prec: usize, cdf: &[u64], syms: &[usize]) -> Result<(), String>;
    fn dec_iid(&mut self, prec: usize, cdf: &[u64], n: usize) -> Vec<usize>;
    fn dec_symbols(&mut self, prec: usize, tabs: &[Vec<u64>]) -> Vec<usize>;
    fn try_dec_symbols(&mut self, prec: usize, tabs: &[Vec<u64>], err_at: Option<usize>) -> Vec<Result<usize, String>>;
    fn into_compressed(self: Box<Self>) -> Words;
    fn into_binary(self: Box<Self>) -> Result<Words, ()>;
    fn get_compressed(&mut self) -> Words;
    fn get_binary(&mut self) -> Result<Words, ()>;
    fn iter_compressed(&self) -> Words;
    fn num_words(&self) -> usize;
    fn num_bits(&self) -> usize;
    fn num_valid_bits(&self) -> usize;
    fn is_empty(&self) -> bool;
    fn maybe_exhausted(&self) -> bool;
    fn pos(&self) -> (usize, u128);
    fn seek(&mut self, pos: usize, state: u128) -> Result<(), ()>;
    fn clear(&mut self);
}

pub struct Inst<W, S>(pub AnsCoder<W, S, Vec<W>>) where W: constriction::BitArray + Into<S>, S: constriction::BitArray + num_traits::AsPrimitive<W>;

fn enc_err<E: core::fmt::Debug>(e: CoderError<DefaultEncoderFrontendError, E>) -> String {
    match e {
        CoderError::Frontend(DefaultEncoderFrontendError::ImpossibleSymbol) => "impossible".into(),
        CoderError::Backend(b) => format!("backend:{:?}", b),
    }
}

macro_rules! ans_inst {
    ($W:ty, $S:ty, [$($P:literal),*]) => {
        impl AnsDyn for Inst<$W, $S> {
            fn w(&self) -> u32 { <$W>::nbits() }
            fn s(&self) -> u32 { <$S>::nbits() }
            fn clone_box(&self) -> Box<dyn AnsDyn> { Box::new(Inst::<$W, $S>(self.0.clone())) }
            fn raw(&self) -> (Words, u128) {
                let (b, s) = self.0.clone().into_raw_parts();
                (b.into_iter().map(|w| w.to_u128()).collect(), s.to_u128())
            }
            fn enc(&mut self, prec: usize, cdf: &[u64], sym: usize) -> Result<(), String> {
                match prec { $($P => if crate::tab::narrow::<<$W as crate::tab::NarrowOf>::N, $P>() { self.0.encode_symbol(sym, Tab::<<$W as crate::tab::NarrowOf>::N, $P>::new(cdf)).map_err(enc_err) } else { self.0.encode_symbol(sym, Tab::<$W, $P>::new(cdf)).map_err(enc_err) },)* _ => panic!("unsupported precision {}", prec) }
            }
            fn dec(&mut self, prec: usize, cdf: &[u64]) -> usize {
                match prec { $($P => if crate::tab::narrow::<<$W as crate::tab::NarrowOf>::N, $P>() { self.0.decode_symbol(Tab::<<$W as crate::tab::NarrowOf>::N, $P>::new(cdf)).unwrap() } else { self.0.decode_symbol(Tab::<$W, $P>::new(cdf)).unwrap() },)* _ => panic!("unsupported precision {}", prec) }
            }
            fn enc_iid_reverse(&mut self, prec: usize, cdf: &[u64], syms: &[usize]) -> Result<(), String> {
                match prec { $($P => if crate::tab::narrow::<<$W as crate::tab::NarrowOf>::N, $P>() { self.0.encode_iid_symbols_reverse(syms, Tab::<<$W as crate::tab::NarrowOf>::N, $P>::new(cdf)).map_err(enc_err) } else { self.0.encode_iid_symbols_reverse(syms, Tab::<$W, $P>::new(cdf)).map_err(enc_err) },)* _ => panic!("unsupported precision {}", prec) }
            }
            fn enc_symbols_reverse(&mut self, prec: usize, items: &[(usize, Vec<u64>)]) -> Result<(), String> {
                match prec { $($P => if crate::tab::narrow::<<$W as crate::tab::NarrowOf>::N, $P>() { self.0.encode_symbols_reverse(items.iter().map(|(s, c)| (*s, Tab::<<$W as crate::tab::NarrowOf>::N, $P>::new(c)))).map_err(enc_err) } else { self.0.encode_symbols_reverse(items.iter().map(|(s, c)| (*s, Tab::<$W, $P>::new(c)))).map_err(enc_err) },)* _ => panic!("unsupported precision {}", prec) }
            }
            fn try_enc_symbols_reverse(&mut self, prec: usize, items: &[(usize, Vec<u64>)], err_at: Option<usize>) -> Result<(), String> {
                match prec { $($P => if crate::tab::narrow::<<$W as crate::tab::NarrowOf>::N, $P>() { self.0.try_encode_symbols_reverse(items.iter().enumerate().map(|(i, (s, c))| if Some(i) == err_at { Err(()) } else { Ok::<_, ()>((*s, Tab::<<$W as crate::tab::NarrowOf>::N, $P>::new(c))) })).map_err(|e| format!("{:?}", e)) } else { self.0.try_encode_symbols_reverse(items.iter().enumerate().map(|(i, (s, c))| if Some(i) == err_at { Err(()) } else { Ok::<_, ()>((*s, Tab::<$W, $P>::new(c))) })).map_err(|e| format!("{:?}", e)) },)* _ => panic!("unsupported precision {}", prec) }
            }
            fn enc_symbols(&mut self, prec: usize, items: &[(usize, Vec<u64>)]) -> Result<(), String> {
                match prec { $($P => if crate::tab::narrow::<<$W as crate::tab::NarrowOf>::N, $P>() { self.0.encode_symbols(items.iter().map(|(s, c)| (*s, Tab::<<$W as crate::tab::NarrowOf>::N, $P>::new(c)))).map_err(enc_err) } else { self.0.encode_symbols(items.iter().map(|(s, c)| (*s, Tab::<$W, $P>::new(c)))).map_err(enc_err) },)* _ => panic!("unsupported precision {}", prec) }
            }
            fn try_enc_symbols(&mut self, prec: usize, items: &[(usize, Vec<u64>)], err_at: Option<usize>) -> Result<(), String> {
                match prec { $($P => if crate::tab::narrow::<<$W as crate::tab::NarrowOf>::N, $P>() { self.0.try_encode_symbols(items.iter().enumerate().map(|(i, (s, c))| if Some(i) == err_at { Err(()) } else { Ok::<_, ()>((*s, Tab::<<$W as crate::tab::NarrowOf>::N, $P>::new(c))) })).map_err(|e| format!("{:?}", e)) } else { self.0.try_encode_symbols(items.iter().enumerate().map(|(i, (s, c))| if Some(i) == err_at { Err(()) } else { Ok::<_, ()>((*s, Tab::<$W, $P>::new(c))) })).map_err(|e| format!("{:?}", e)) },)* _ => panic!("unsupported precision {}", prec) }
            }
            fn enc_iid(&mut self, prec: usize, cdf: &[u64], syms: &[usize]) -> Result<(), String> {
                match prec { $($P => if crate::tab::narrow::<<$W as crate::tab::NarrowOf>::N, $P>() { self.0.encode_iid_symbols(syms, Tab::<<$W as crate::tab::NarrowOf>::N, $P>::new(cdf)).map_err(enc_err) } else { self.0.encode_iid_symbols(syms, Tab::<$W, $P>::new(cdf)).map_err(enc_err) },)* _ => panic!("unsupported precision {}", prec) }
            }
            fn dec_iid(&mut self, prec: usize, cdf: &[u64], n: usize) -> Vec<usize> {
                match prec { $($P => if crate::tab::narrow::<<$W as crate::tab::NarrowOf>::N, $P>() { self.0.decode_iid_symbols(n, Tab::<<$W as crate::tab::NarrowOf>::N, $P>::new(cdf)).map(|r| r.unwrap()).collect() } else { self.0.decode_iid_symbols(n, Tab::<$W, $P>::new(cdf)).map(|r| r.unwrap()).collect() },)* _ => panic!("unsupported precision {}", prec) }
            }
            fn dec_symbols(&mut self, prec: usize, tabs: &[Vec<u64>]) -> Vec<usize> {
                match prec { $($P => if crate::tab::narrow::<<$W as crate::tab::NarrowOf>::N, $P>() { self.0.decode_symbols(tabs.iter().map(|c| Tab::<<$W as crate::tab::NarrowOf>::N, $P>::new(c))).map(|r| r.unwrap()).collect() } else { self.0.decode_symbols(tabs.iter().map(|c| Tab::<$W, $P>::new(c))).map(|r| r.unwrap()).collect() },)* _ => panic!("unsupported precision {}", prec) }
            }
            fn try_dec_symbols(&mut self, prec: usize, tabs: &[Vec<u64>], err_at: Option<usize>) -> Vec<Result<usize, String>> {
                match prec { $($P => if crate::tab::narrow::<<$W as crate::tab::NarrowOf>::N, $P>() { self.0.try_decode_symbols(tabs.iter().enumerate().map(|(i, c)| if Some(i) == err_at { Err(()) } else { Ok::<_, ()>(Tab::<<$W as crate::tab::NarrowOf>::N, $P>::new(c)) })).map(|r| r.map_err(|e| format!("{:?}", e))).collect() } else { self.0.try_decode_symbols(tabs.iter().enumerate().map(|(i, c)| if Some(i) == err_at { Err(()) } else { Ok::<_, ()>(Tab::<$W, $P>::new(c)) })).map(|r| r.map_err(|e| format!("{:?}", e))).collect() },)* _ => panic!("unsupported precision {}", prec) }
            }
            fn into_compressed(self: Box<Self>) -> Words { self.0.into_compressed().unwrap().into_iter().map(|w| w.to_u128()).collect() }
            fn into_binary(self: Box<Self>) -> Result<Words, ()> { self.0.into_binary().map(|v| v.into_iter().map(|w| w.to_u128()).collect()).map_err(|_| ()) }
            fn get_compressed(&mut self) -> Words { let g = self.0.get_compressed().unwrap(); g.iter().map(|w| w.to_u128()).collect() }
            fn get_binary(&mut self) -> Result<Words, ()> { match self.0.get_binary() { Ok(g) => Ok(g.iter().map(|w| w.to_u128()).collect()), Err(_) => Err(()) } }
            fn iter_compressed(&self) -> Words { self.0.iter_compressed().map(|w| w.to_u128()).collect() }
            fn num_words(&self) -> usize { self.0.num_words() }
            fn num_bits(&self) -> usize { self.0.num_bits() }
            fn num_valid_bits(&self) -> usize { self.0.num_valid_bits() }
            fn is_empty(&self) -> bool { self.0.is_empty() }
            fn maybe_exhausted(&self) -> bool { <AnsCoder<$W, $S, Vec<$W>> as Decode<1>>::maybe_exhausted(&self.0) }
            fn pos(&self) -> (usize, u128) { let (p, s) = self.0.pos(); (p, s.to_u128()) }
            fn seek(&mut self, pos: usize, state: u128) -> Result<(), ()> { self.0.seek((pos, <$S>::from_u128_trunc(state))) }
            fn clear(&mut self) { self.0.clear() }
        }
    };
}

macro_rules! ans_table {
    ($( ($W:ty, $S:ty, [$($P:literal),*]) ),* $(,)?) => {
        $( ans_inst!($W, $S, [$($P),*]); )*
        fn conv<T: VInt>(v: &[u128]) -> Vec<T> { v.iter().map(|x| { assert!(*x >> T::nbits() == 0 || T::nbits() == 128, "word {} too wide", x); T::from_u128_trunc(*x) }).collect() }
        pub fn ans_new(w: u32, s: u32) -> Box<dyn AnsDyn> {
            $( if w == <$W>::nbits() && s == <$S>::nbits() { return Box::new(Inst::<$W, $S>(AnsCoder::new())); } )*
            panic!("unsupported widths {}/{}", w, s)
        }
        pub fn ans_from_raw(w: u32, s: u32, bulk: &[u128], state: u128) -> Box<dyn AnsDyn> {
            $( if w == <$W>::nbits() && s == <$S>::nbits() { return Box::new(Inst::<$W, $S>(AnsCoder::from_raw_parts(conv::<$W>(bulk), <$S>::from_u128_trunc(state)))); } )*
            panic!("unsupported widths {}/{}", w, s)
        }
        pub fn ans_from_compressed(w: u32, s: u32, words: &[u128]) -> Result<Box<dyn AnsDyn>, Words> {
            $( if w == <$W>::nbits() && s == <$S>::nbits() {
                return match AnsCoder::<$W, $S>::from_compressed(conv::<$W>(words)) {
                    Ok(c) => Ok(Box::new(Inst::<$W, $S>(c))),
                    Err(v) => Err(v.into_iter().map(|x| x.to_u128()).collect()) };
            } )*
            panic!("unsupported widths {}/{}", w, s)
        }
        pub fn ans_from_binary(w: u32, s: u32, words: &[u128]) -> Box<dyn AnsDyn> {
            $( if w == <$W>::nbits() && s == <$S>::nbits() { return Box::new(Inst::<$W, $S>(AnsCoder::<$W, $S>::from_binary(conv::<$W>(words)).unwrap())); } )*
            panic!("unsupported widths {}/{}", w, s)
        }
        pub fn ans_supported() -> Vec<(u32, u32)> { vec![$( (<$W>::nbits(), <$S>::nbits()) ),*] }
    };
}

ans_table!(
    (U2, U4, [1, 2]), (U2, U5, [1, 2]), (U2, U6, [1, 2]), (U2, U8t, [1, 2]),
    (U3, U6, [1, 2, 3]), (U3, U8t, [1, 2, 3]), (U4, U8t, [1, 2, 3, 4]), (U4, U12, [1, 2, 3, 4]),
    (u8, u16, [1, 2, 3, 4, 5, 6, 7, 8]), (u8, u32, [1, 4, 8]),
    (u16, u32, [1, 4, 8, 12, 16]), (u16, u64, [1, 8, 12, 16]),
    (u32, u64, [1, 8, 12, 16, 24, 32]), (u32, u128, [1, 16, 24, 32]),
    (u64, u128, [1, 16, 24, 32, 40, 48]), (u8, u128, [1, 4, 8]), (u16, u128, [1, 8, 16]), (u8, u64, [1, 4, 8])
);
