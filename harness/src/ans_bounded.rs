//! AnsCoder over a bounded backend (Cursor): failed writes must leave the coder intact (C09).
use crate::common::*;
use crate::tab::Tab;
use crate::tiny::*;
use constriction::backends::Cursor;
use constriction::stream::stack::AnsCoder;
use constriction::stream::{Decode, Encode};
use constriction::{BitArray, Pos};
use num_traits::AsPrimitive;
use serde_json::Value;

/// From the spec state (bulk, state): put the bulk into a cursor with `k` free words, encode the slots of `rows`
/// cyclically until a write fails; the failure must be OutOfSpace with coder unchanged, and all symbols encoded before
/// must decode back (ending in the original state).
pub fn full_backend<W, S, const P: usize>(case: &Value, bulk: &[u128], state: u128, rows: &[Vec<u64>], rep: &mut Report)
where W: VInt + Into<S> + AsPrimitive<W>, S: VInt + AsPrimitive<W> {
    let rows: Vec<&Vec<u64>> = rows.iter().filter(|r| r[0] as usize == P).collect();
    if rows.is_empty() { return; }
    for k in 0..3usize {
        let r = guarded(|| {
            let mut buf: Vec<W> = bulk.iter().map(|x| W::from_u128_trunc(*x)).collect();
            buf.extend(std::iter::repeat(W::from_u128_trunc(0)).take(k));
            let cur = Cursor::new_at_pos(buf, bulk.len()).unwrap();
            let mut coder = AnsCoder::<W, S, Cursor<W, Vec<W>>>::from_raw_parts(cur, S::from_u128_trunc(state));
            let mut done: Vec<&Vec<u64>> = vec![];
            let mut out: Vec<String> = vec![];
            let mut failed = false;
            for i in 0..(4 * (k + 2) * (<S as BitArray>::BITS / P + 1)) {
                let row = rows[(i * 7 + k) % rows.len()];
                let before = (coder.pos(), <AnsCoder<W, S, Cursor<W, Vec<W>>> as constriction::stream::Code>::state(&coder).to_u128());
                match coder.encode_symbol(1usize, Tab::<W, P>::slot(row[1], row[2])) {
                    Ok(()) => done.push(row),
                    Err(e) => {
                        failed = true;
                        let msg = format!("{:?}", e);
                        if !msg.contains("OutOfSpace") { out.push(format!("write failure reported as {}", msg)); }
                        let after = (coder.pos(), <AnsCoder<W, S, Cursor<W, Vec<W>>> as constriction::stream::Code>::state(&coder).to_u128());
                        if after.0 != before.0 || after.1 != before.1 { out.push(format!("failed write changed the coder: {:?} -> {:?} (k = {} free words)", before, after, k)); }
                        break;
                    }
                }
            }
            // everything encoded before the failure still decodes
            for row in done.iter().rev() {
                let sym = coder.decode_symbol(Tab::<W, P>::slot(row[1], row[2])).unwrap();
                if sym != 1 { out.push(format!("after a failed write symbol {:?} decodes as {}", &row[..3], sym)); break; }
            }
            let fin = <AnsCoder<W, S, Cursor<W, Vec<W>>> as constriction::stream::Code>::state(&coder).to_u128();
            if out.is_empty() && (fin != state || coder.pos().0 != bulk.len()) { out.push(format!("after undoing everything the coder is at {:?} / {}, started at {} / {}", coder.pos().0, fin, bulk.len(), state)); }
            (out, failed)
        });
        rep.checks += 1;
        match r { Ok((out, failed)) => { if failed { rep.class("backend_full"); } for d in out { rep.mismatch(case, d); } } Err(m) => rep.mismatch(case, format!("panic with a bounded backend: {}", m)) }
    }
}

pub fn dispatch(case: &Value, w: u32, s: u32, bulk: &[u128], state: u128, rows: &[Vec<u64>], rep: &mut Report) {
    match (w, s) {
        (2, 4) => { full_backend::<U2, U4, 1>(case, bulk, state, rows, rep); full_backend::<U2, U4, 2>(case, bulk, state, rows, rep); }
        (2, 5) => { full_backend::<U2, U5, 2>(case, bulk, state, rows, rep); }
        (2, 6) => { full_backend::<U2, U6, 1>(case, bulk, state, rows, rep); full_backend::<U2, U6, 2>(case, bulk, state, rows, rep); }
        (3, 6) => { full_backend::<U3, U6, 2>(case, bulk, state, rows, rep); full_backend::<U3, U6, 3>(case, bulk, state, rows, rep); }
        (2, 8) => { full_backend::<U2, U8t, 2>(case, bulk, state, rows, rep); }
        (4, 8) => { full_backend::<U4, U8t, 3>(case, bulk, state, rows, rep); full_backend::<U4, U8t, 4>(case, bulk, state, rows, rep); }
        _ => {}
    }
}
