//! Replay of TLC-emitted `chain` cases (Chain.tla): one case = data + a history of decoded slots / precision changes.
use crate::chain::*;
use crate::common::*;
use serde_json::Value;

fn slot_cdf(prec: usize, c: u64, p: u64) -> Vec<u64> { vec![0, c, c + p, 1u64 << prec] }
fn rows(v: &Value) -> Vec<Vec<u64>> { v.as_array().map(|a| a.iter().map(|r| r.as_array().unwrap().iter().map(|x| x.as_u64().unwrap()).collect()).collect()).unwrap_or_default() }
fn cat(a: &[u128], b: &[u128], c: &[u128]) -> Vec<u128> { let mut v = a.to_vec(); v.extend_from_slice(b); v.extend_from_slice(c); v }

/// decode the history on `cd`; returns the coder and the decoded symbols (None where a step failed)
fn run_hist(mut cd: Box<dyn ChainDyn>, hist: &[Vec<u64>], alt: Option<(usize, &[u64])>) -> (Box<dyn ChainDyn>, Vec<Result<usize, String>>) {
    let mut out = vec![];
    for (i, h) in hist.iter().enumerate() {
        if h[2] == 0 { cd = cd.change(h[1] as usize).expect("precision change accepted by the spec"); continue; }
        let cdf = match alt { Some((j, a)) if j == i => a.to_vec(), _ => slot_cdf(h[0] as usize, h[1], h[2]) };
        out.push(cd.dec(&cdf));
    }
    (cd, out)
}
/// undo the history: encode the symbols back in reverse order, undoing precision changes
fn undo(mut cd: Box<dyn ChainDyn>, hist: &[Vec<u64>]) -> Result<Box<dyn ChainDyn>, String> {
    for h in hist.iter().rev() {
        if h[2] == 0 { cd = cd.change(h[0] as usize)?; continue; }
        cd.enc(&slot_cdf(h[0] as usize, h[1], h[2]), 1)?;
    }
    Ok(cd)
}

pub fn chain_case(case: &Value, mode: &str, rep: &mut Report) {
    let w = case["W"].as_u64().unwrap() as u32; let s = case["S"].as_u64().unwrap() as u32;
    let binary = case["binary"].as_bool().unwrap();
    let data = vec_u128(&case["data"]);
    let hist = rows(&case["hist"]);
    let p0 = if hist.is_empty() { case["prec"].as_u64().unwrap() as usize } else { hist[0][0] as usize };
    let how = if binary { 0 } else { 1 };
    let bad = |rep: &mut Report, d: String| rep.mismatch(case, d);
    macro_rules! g { ($what:expr, $e:expr) => { match guarded(|| $e) { Ok(v) => v, Err(m) => { bad(rep, format!("panic in {}: {}", $what, m)); return; } } } }
    let start = || chain_new(w, s, p0, how, &data);
    let cd0 = match g!("constructor", start()) { Ok(c) => c, Err(()) => { bad(rep, format!("constructor refused data {:?} the specification accepts", data)); return; } };
    if hist.iter().any(|h| h[2] == 0) { rep.class("precision_change"); }
    let export = |c: Box<dyn ChainDyn>| if binary { c.into_binary() } else { c.into_compressed() };
    let nsyms = hist.iter().filter(|h| h[2] != 0).count();

    match mode {
        "c13" => {
            let (cd, syms) = g!("decode history", run_hist(cd0, &hist, None));
            rep.checks += nsyms as u64;
            if syms.iter().any(|r| r != &Ok(1)) { bad(rep, format!("decoding {:?} with the history's slots gives {:?}, spec predicts symbol 1 for each", data, syms)); return; }
            // out of data is an error that leaves the coder unchanged
            if case["next_q"].as_array().unwrap().is_empty() {
                rep.class("out_of_data");
                let mut k = cd.clone_box(); let before = (k.heads(), k.clone_box().into_remainders());
                let r = g!("decode_symbol", k.dec(&[0, 1, 1u64 << k.prec()]));
                rep.checks += 1;
                if r != Err("OutOfCompressedData".into()) { bad(rep, format!("decoding beyond the data returned {:?}", r)); }
                if (k.heads(), k.clone_box().into_remainders()) != before { bad(rep, "failed decode changed the coder".into()); }
            }
            // (1) continue with the same coder
            match g!("re-encode", undo(cd.clone_box(), &hist)) {
                Ok(c) => match g!("export", export(c)) { Ok((pre, suf)) => { rep.checks += 1; if cat(&[], &pre, &suf) != data { bad(rep, format!("same coder: decoded {:?}, re-encoded, exported ({:?}, {:?}), original data {:?}", hist, pre, suf, data)); } }, Err(()) => bad(rep, "same coder: export refused after re-encoding everything".into()) },
                Err(e) => bad(rep, format!("same coder: re-encoding failed: {}", e)),
            }
            // (2) from_remainders(suffix), (3) from_remainders(prefix ++ suffix)
            let (rpre, rsuf) = g!("into_remainders", cd.clone_box().into_remainders());
            let pfin = cd.prec();
            for (name, input, keep) in [("from_remainders(suffix)", rsuf.clone(), rpre.clone()), ("from_remainders(prefix ++ suffix)", cat(&rpre, &rsuf, &[]), vec![])] {
                match g!("from_remainders", chain_new(w, s, pfin, 2, &input)) {
                    Err(()) => bad(rep, format!("{}: refused remainders {:?}", name, input)),
                    Ok(c) => match g!("re-encode", undo(c, &hist)) {
                        Ok(c) => match g!("export", export(c)) { Ok((pre, suf)) => { rep.checks += 1; if cat(&keep, &pre, &suf) != data { bad(rep, format!("{}: restored {:?} ++ {:?} ++ {:?}, original data {:?}", name, keep, pre, suf, data)); } }, Err(()) => bad(rep, format!("{}: export refused after re-encoding everything", name)) },
                        Err(e) => bad(rep, format!("{}: re-encoding failed: {}", name, e)),
                    },
                }
            }
            // running out of remainders is an error, never wrong output: encode more than was decoded
            if let Ok(mut c) = undo(cd.clone_box(), &hist) {
                let mut errs = 0;
                for _ in 0..(3 * s as usize + 2) { let t = 1u64 << c.prec(); if t < 4 { break; } match c.enc(&[0, t - 1, t], 0) { Ok(()) => {}, Err(e) => { errs += 1; if e != "OutOfRemainders" { bad(rep, format!("encoding beyond the remainders returned {}", e)); } break; } } }
                rep.checks += 1; if errs > 0 { rep.class("out_of_remainders"); }
            }
            // batch forms equal the per-symbol loops (only without precision changes)
            if nsyms == hist.len() && nsyms > 0 {
                let tabs: Vec<Vec<u64>> = hist.iter().map(|h| slot_cdf(h[0] as usize, h[1], h[2])).collect();
                let mut b = start().unwrap();
                let got = g!("decode_symbols", b.dec_symbols(&tabs));
                rep.checks += 1;
                if got.iter().any(|r| r != &Ok(1)) || b.heads() != cd.heads() { bad(rep, format!("decode_symbols differs from the per-symbol loop: {:?}", got)); }
                let items: Vec<(usize, Vec<u64>)> = tabs.iter().map(|t| (1usize, t.clone())).collect();
                if g!("encode_symbols_reverse", b.enc_symbols_reverse(&items)).is_err() || export(b).map(|(a, c)| cat(&[], &a, &c)) != Ok(data.clone()) { bad(rep, "encode_symbols_reverse does not restore the data".into()); }
            }
        }
        "c14" => {
            let (cd, syms) = g!("decode history", run_hist(cd0, &hist, None));
            rep.checks += nsyms as u64;
            if syms.iter().any(|r| r != &Ok(1)) { bad(rep, format!("symbol i is not what model i assigns to chunk i: decoding {:?} gives {:?}, spec predicts 1 for each", data, syms)); return; }
            // the twin experiments below use one fixed precision (a precision decrease may legitimately run out of
            // remainders when other models were used, which is outside what C14 states)
            if nsyms != hist.len() { return; }
            let next_fails = g!("decode", cd.clone_box().dec(&[0, 1, 1u64 << cd.prec()])).is_err();
            // replacing one model changes at most that symbol, and never when the data runs out
            let idx: Vec<usize> = (0..hist.len()).filter(|i| hist[*i][2] != 0).collect();
            for (pos, &j) in idx.iter().enumerate() {
                let pj = hist[j][0] as usize;
                for alt in [vec![0u64, 1, 1u64 << pj], vec![0, (1u64 << pj) - 1, 1u64 << pj], vec![0, 1u64 << (pj - 1), 1u64 << pj]] {
                    if alt[1] == 0 || alt[1] == alt[2] { continue; }
                    let (cd2, syms2) = g!("decode with replaced model", run_hist(start().unwrap(), &hist, Some((j, &alt))));
                    rep.checks += 1;
                    for (k, (a, b)) in syms.iter().zip(syms2.iter()).enumerate() { if k != pos && a != b { bad(rep, format!("replacing the model at position {} by {:?} changed the symbol at position {}: {:?} -> {:?}", pos, alt, k, a, b)); return; } }
                    if syms2.iter().any(|r| r.is_err()) { bad(rep, format!("replacing the model at position {} made decoding fail: {:?}", pos, syms2)); return; }
                    let nf2 = g!("decode", cd2.clone_box().dec(&[0, 1, 1u64 << cd2.prec()])).is_err();
                    if nf2 != next_fails { bad(rep, format!("replacing the model at position {} changed when the coder runs out of data", pos)); return; }
                }
            }
            // flipping one bit of the data changes at most one symbol and not when the data runs out
            // (only words that are not absorbed into the remainders head by the constructor consist of chunks)
            let n_chunk_words = g!("into_remainders", start().unwrap().into_remainders()).0.len();
            for wi in 0..n_chunk_words { for bit in 0..w {
                let mut d2 = data.clone(); d2[wi] ^= 1u128 << bit;
                let c2 = match g!("constructor", chain_new(w, s, p0, how, &d2)) { Ok(c) => c, Err(()) => continue };
                // decode with three-slot tables around the original slots: every quantile is decodable
                let (cdf2, syms2) = g!("decode flipped data", run_hist(c2, &hist, None));
                rep.checks += 1;
                let ndiff = syms.iter().zip(syms2.iter()).filter(|(a, b)| a != b).count();
                if ndiff > 1 { bad(rep, format!("flipping bit {} of word {} changed {} symbols: {:?} -> {:?}", bit, wi, ndiff, syms, syms2)); return; }
                if syms2.iter().any(|r| r.is_err()) { bad(rep, format!("flipping bit {} of word {} made decoding fail: {:?}", bit, wi, syms2)); return; }
                let nf2 = g!("decode", cdf2.clone_box().dec(&[0, 1, 1u64 << cdf2.prec()])).is_err();
                if nf2 != next_fails { bad(rep, format!("flipping bit {} of word {} changed when the coder runs out of data", bit, wi)); return; }
            } }
        }
        "c09" => {
            // impossible symbols after every prefix of the history, while re-encoding: refused, coder unchanged
            let (cd, _) = g!("decode history", run_hist(cd0, &hist, None));
            let mut c = cd;
            for h in hist.iter().rev() {
                let p = c.prec();
                for (cdf, sym) in [(vec![0u64, 0, 1u64 << p], 0usize), (vec![0, 1u64 << p, 1u64 << p], 1), (vec![0, 1, 1u64 << p], 5)] {
                    let before = (c.heads(), c.clone_box().into_remainders());
                    let r = g!("encode_symbol", c.enc(&cdf, sym)); rep.checks += 1;
                    if r != Err("ImpossibleSymbol".into()) { bad(rep, format!("encoding impossible symbol {} of {:?} returned {:?}", sym, cdf, r)); return; }
                    if (c.heads(), c.clone_box().into_remainders()) != before { bad(rep, "failed encode changed the coder".into()); return; }
                }
                if h[2] == 0 { c = match g!("change_precision", c.change(h[0] as usize)) { Ok(c) => c, Err(e) => { bad(rep, format!("undoing a precision change failed: {}", e)); return; } }; continue; }
                if let Err(e) = g!("encode_symbol", c.enc(&slot_cdf(h[0] as usize, h[1], h[2]), 1)) { bad(rep, format!("re-encoding failed after rejected symbols: {}", e)); return; }
            }
            match g!("export", export(c)) { Ok((a, b)) => if cat(&[], &a, &b) != data { bad(rep, "data not restored after rejected symbols".into()); }, Err(()) => bad(rep, "export refused".into()) }
        }
        "c10" => {
            // first the enumerated history (decodes and precision changes, all of which the specification says succeed), then
            // decode with arbitrary models until the data runs out: only OutOfCompressedData may be reported
            let (c_after, syms) = g!("decode history", run_hist(cd0, &hist, None));
            if let Some(e) = syms.iter().find_map(|r| r.as_ref().err()) { bad(rep, format!("decoding the enumerated history reported {}", e)); return; }
            if hist.iter().any(|h| h[2] == 0) { rep.class("c10_after_precision_change"); }
            let mut c = c_after;
            for i in 0..(4 * data.len() + 4) {
                let p = c.prec(); let t = 1u64 << p;
                let cdf = match i % 3 { 0 => vec![0, 1, t], 1 => vec![0, t - 1, t], _ => vec![0, t / 2, t] };
                if cdf[1] == 0 || cdf[1] == t { continue; }
                let r = g!("decode_symbol", c.dec(&cdf)); rep.checks += 1;
                match r { Ok(sy) => if sy > 1 { bad(rep, format!("decoded symbol {} outside the support of {:?}", sy, cdf)); return; }, Err(e) => { if e != "OutOfCompressedData" { bad(rep, format!("decode reported {}", e)); } rep.class("ran_out_of_data"); break; } }
            }
        }
        _ => panic!("unknown mode {}", mode),
    }
}
