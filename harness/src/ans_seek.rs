//! Random access on the ANS coder (C07): snapshots taken from the encoder at every symbol boundary are sought to on
//! decoders over borrowed, owned (Cursor), consuming (Vec) and reversed backends.
use crate::common::*;
use crate::tab::Tab;
use crate::tiny::*;
use constriction::backends::{Cursor, Reverse};
use constriction::stream::stack::AnsCoder;
use constriction::stream::{Decode, Encode};
use constriction::{Pos, Seek};
use serde_json::Value;

fn slot_cdf(prec: usize, c: u64, p: u64) -> [u64; 4] { [0, c, c + p, 1u64 << prec] }

macro_rules! seek_impl {
    ($name:ident, $W:ty, $S:ty, [$($P:literal),*]) => {
        pub fn $name(case: &Value, hist: &[Vec<u64>], rep: &mut Report) {
            macro_rules! dec { ($c:expr, $h:expr) => { match $h[0] as usize { $($P => $c.decode_symbol(Tab::<$W, $P>::new(&slot_cdf($P, $h[1], $h[2]))).unwrap(),)* p => panic!("precision {}", p) } } }
            let n = hist.len();
            let r = guarded(|| {
                let mut out: Vec<String> = vec![];
                let mut enc = AnsCoder::<$W, $S>::new();
                let mut snaps = vec![enc.pos()];
                for h in hist { match h[0] as usize { $($P => enc.encode_symbol(1usize, Tab::<$W, $P>::new(&slot_cdf($P, h[1], h[2]))).unwrap(),)* p => panic!("precision {}", p) } snaps.push(enc.pos()); }
                let mut orders: Vec<Vec<usize>> = vec![]; for a in 0..=n { orders.push(vec![a]); for b in 0..=n { orders.push(vec![a, b]); } }
                let words = enc.clone().into_compressed().unwrap();
                // what lies beyond snapshot k for the stack coder: the symbols encoded before it, last first
                macro_rules! run { ($what:expr, $mk:expr, $map:expr, $consuming:expr) => {{
                    for order in &orders {
                        if $consuming && order.windows(2).any(|w| w[1] > w[0]) { continue; }     // a consuming backend can only seek backwards
                        let mut d = $mk;
                        for (oi, &k) in order.iter().enumerate() {
                            let (pos, st) = snaps[k];
                            if d.seek(($map(pos), st)).is_err() { out.push(format!("{}: seek to snapshot {} = {:?} refused (order {:?}, words {:?})", $what, k, snaps[k], order, words)); break; }
                            if d.pos() != ($map(pos), st) { out.push(format!("{}: pos() after seek differs from the snapshot", $what)); break; }
                            // decode down to the next target on a consuming backend (it cannot go back up), else everything
                            let stop = if $consuming && oi + 1 < order.len() { order[oi + 1] } else { 0 };
                            let mut ok = true;
                            for i in (stop..k).rev() { let sy = dec!(d, hist[i]); if sy != 1 { out.push(format!("{}: order {:?}: after seek to snapshot {} symbol {} decoded as {} (words {:?})", $what, order, k, i, sy, words)); ok = false; break; } }
                            if !ok { break; }
                            if stop == 0 && !d.is_empty() { out.push(format!("{}: decoder not empty after decoding everything below snapshot {}", $what, k)); }
                        }
                        if !out.is_empty() { break; }
                    }
                    // positions beyond the data are rejected and leave the decoder alone
                    let mut d = $mk; let before = d.pos();
                    for extra in 1..3usize { if d.seek((words.len() + extra, snaps[0].1)).is_ok() { out.push(format!("{}: seek to position {} beyond {} words accepted", $what, words.len() + extra, words.len())); } }
                    if d.pos() != before { out.push(format!("{}: refused seek moved the decoder", $what)); }
                }}; }
                // non-seekable decoder conversions decode the same symbols and leave the encoder alone
                { let before = enc.clone().into_compressed().unwrap();
                  { let mut d = enc.as_decoder(); for i in (0..n).rev() { let sy = dec!(d, hist[i]); if sy != 1 { out.push(format!("as_decoder(): symbol {} decoded as {}", i, sy)); break; } } if n > 0 && !d.is_empty() { out.push("as_decoder(): not empty after decoding everything".into()); } }
                  { let mut d = enc.clone().into_decoder(); for i in (0..n).rev() { let sy = dec!(d, hist[i]); if sy != 1 { out.push(format!("into_decoder(): symbol {} decoded as {}", i, sy)); break; } } }
                  if enc.clone().into_compressed().unwrap() != before { out.push("as_decoder() changed the encoder".into()); }
                  let mut c = enc.clone(); c.clear(); if !c.is_empty() || !c.into_compressed().unwrap().is_empty() { out.push("clear() does not give an empty coder".into()); } }
                run!("as_seekable_decoder (borrowed Cursor)", enc.as_seekable_decoder(), |p: usize| p, false);
                run!("into_seekable_decoder (owned Cursor)", enc.clone().into_seekable_decoder(), |p: usize| p, false);
                run!("from_compressed(Cursor at end)", AnsCoder::<$W, $S, Cursor<$W, Vec<$W>>>::from_compressed(Cursor::new_at_write_end(words.clone())).ok().unwrap(), |p: usize| p, false);
                run!("AnsCoder over Vec (consuming)", AnsCoder::<$W, $S, Vec<$W>>::from_compressed(words.clone()).unwrap(), |p: usize| p, true);
                if !words.is_empty() {
                    let mut rw = words.clone(); rw.reverse(); let len = words.len();
                    run!("from_reversed_compressed (Reverse<Cursor>)", AnsCoder::<$W, $S, Reverse<Cursor<$W, Vec<$W>>>>::from_reversed_compressed(rw.clone()).ok().unwrap(), |p: usize| len - p, false);
                }
                out
            });
            rep.checks += (n as u64 + 1) * 5;
            rep.class("ans_seek");
            match r { Ok(out) => for d in out.into_iter().take(3) { rep.mismatch(case, d); }, Err(m) => rep.mismatch(case, format!("panic in ANS seek test: {}", m)) }
        }
    };
}
seek_impl!(seek_2_4, U2, U4, [1, 2]);
seek_impl!(seek_2_6, U2, U6, [1, 2]);
seek_impl!(seek_2_8, U2, U8t, [1, 2]);
seek_impl!(seek_3_6, U3, U6, [1, 2, 3]);
seek_impl!(seek_4_8, U4, U8t, [1, 2, 3, 4]);

pub fn seek_case(case: &Value, w: u32, s: u32, hist: &[Vec<u64>], rep: &mut Report) {
    match (w, s) { (2, 4) => seek_2_4(case, hist, rep), (2, 6) => seek_2_6(case, hist, rep), (2, 8) => seek_2_8(case, hist, rep), (3, 6) => seek_3_6(case, hist, rep), (4, 8) => seek_4_8(case, hist, rep), _ => {} }
}
