//! Entropy-model replay: spec-predicted tables (FixedPoint.tla) against every representation the library offers.
use crate::common::*;
use crate::tiny::*;
use constriction::stream::model::*;
use constriction::{BitArray, NonZeroBitArray};
use serde_json::Value;
use std::fmt::Debug;

pub type Row<Sy> = (Sy, u64, u64);

pub fn nz<Pr: VInt>(p: Pr::NonZero) -> u64 { p.get().to_u128() as u64 }

/// What the specification predicts for one model: the table, and symbols that must be outside the support.
pub struct Exp<Sy> { pub rows: Vec<Row<Sy>>, pub outside: Vec<Sy>, pub prec: usize, pub sparse: bool }

impl<Sy: Copy + PartialEq + Debug> Exp<Sy> {
    pub fn chk_enc<M, const P: usize>(&self, name: &str, m: &M) -> Result<u64, String>
    where M: EncoderModel<P, Symbol = Sy>, M::Probability: VInt {
        let mut n = 0;
        for (s, c, p) in &self.rows {
            n += 1;
            match guarded(|| m.left_cumulative_and_probability(*s)) {
                Ok(Some((gc, gp))) => { let g = (gc.to_u128() as u64, nz::<M::Probability>(gp)); if g != (*c, *p) { return Err(format!("{}: left_cumulative_and_probability({:?}) = {:?}, spec table says ({}, {})", name, s, g, c, p)); } }
                Ok(None) => return Err(format!("{}: symbol {:?} of the support reported impossible", name, s)),
                Err(e) => return Err(format!("{}: panic in left_cumulative_and_probability({:?}): {}", name, s, e)),
            }
        }
        for s in &self.outside {
            n += 1;
            match guarded(|| m.left_cumulative_and_probability(*s)) {
                Ok(None) => {}
                Ok(Some((gc, gp))) => return Err(format!("{}: symbol {:?} outside the support got ({}, {}) instead of None", name, s, gc.to_u128(), nz::<M::Probability>(gp))),
                Err(e) => return Err(format!("{}: panic in left_cumulative_and_probability({:?}) (outside support): {}", name, s, e)),
            }
        }
        Ok(n)
    }
    pub fn chk_dec<M, const P: usize>(&self, name: &str, m: &M) -> Result<u64, String>
    where M: DecoderModel<P, Symbol = Sy>, M::Probability: VInt {
        let total = 1u64 << P;
        // all quantiles when the table is small, boundary quantiles of every entry otherwise
        let qs: Vec<u64> = if P <= 12 && !self.sparse { (0..total).collect() } else {
            let mut v = vec![]; for (_, c, p) in &self.rows { v.extend([*c, c + p - 1, c + p / 2]); } v };
        let mut idx = 0usize;
        let mut n = 0;
        for q in qs {
            if P > 12 || self.sparse { idx = 0; }
            while !(self.rows[idx].1 <= q && q < self.rows[idx].1 + self.rows[idx].2) { idx += 1; }
            let e = &self.rows[idx];
            n += 1;
            match guarded(|| m.quantile_function(M::Probability::from_u128_trunc(q as u128))) {
                Ok((s, c, p)) => { let g = (s, c.to_u128() as u64, nz::<M::Probability>(p)); if g != *e { return Err(format!("{}: quantile_function({}) = {:?}, spec table says {:?}", name, q, g, e)); } }
                Err(msg) => return Err(format!("{}: panic in quantile_function({}): {}", name, q, msg)),
            }
        }
        Ok(n)
    }
    pub fn chk_iter<'m, M, const P: usize>(&self, name: &str, m: &'m M) -> Result<u64, String>
    where M: IterableEntropyModel<'m, P, Symbol = Sy>, M::Probability: VInt {
        match guarded(|| m.symbol_table().map(|(s, c, p)| (s, c.to_u128() as u64, nz::<M::Probability>(p))).collect::<Vec<_>>()) {
            Ok(t) => if t != self.rows { Err(format!("{}: symbol_table() = {:?}, spec table {:?}", name, t, self.rows)) } else { Ok(t.len() as u64) },
            Err(msg) => Err(format!("{}: panic in symbol_table(): {}", name, msg)),
        }
    }
}

/// Contract check without a prediction (C19: whatever the constructor returned must satisfy C03).
pub fn contract_dec<M, const P: usize>(name: &str, m: &M) -> Result<(), String>
where M: DecoderModel<P>, M::Probability: VInt, M::Symbol: Copy + PartialEq + Debug {
    assert!(P <= 16);
    let total = 1u64 << P;
    let mut rows: Vec<(M::Symbol, u64, u64)> = vec![];
    for q in 0..total {
        let (s, c, p) = match guarded(|| m.quantile_function(M::Probability::from_u128_trunc(q as u128))) { Ok(x) => x, Err(e) => return Err(format!("{}: panic in quantile_function({}): {}", name, q, e)) };
        let (c, p) = (c.to_u128() as u64, nz::<M::Probability>(p));
        if p == 0 { return Err(format!("{}: quantile_function({}) returned probability zero", name, q)); }
        if !(c <= q && q < c + p) { return Err(format!("{}: quantile_function({}) = ({:?}, {}, {}) does not contain the quantile", name, q, s, c, p)); }
        match rows.last() { Some(l) if (l.0, l.1, l.2) == (s, c, p) => {}, Some(l) if l.1 + l.2 != c || rows.iter().any(|r| r.0 == s) => return Err(format!("{}: entries {:?} and ({:?}, {}, {}) overlap, leave a gap or repeat a symbol", name, l, s, c, p)), _ => rows.push((s, c, p)) }
    }
    if rows.len() < 2 { return Err(format!("{}: a single symbol {:?} carries the whole probability mass", name, rows)); }
    if rows[0].1 != 0 || rows.last().map(|l| l.1 + l.2) != Some(total) { return Err(format!("{}: table {:?} does not tile [0, 2^{})", name, rows, P)); }
    Ok(())
}
pub fn contract_enc<M, const P: usize>(name: &str, m: &M, candidates: &[M::Symbol]) -> Result<(), String>
where M: EncoderModel<P>, M::Probability: VInt, M::Symbol: Copy + PartialEq + Debug {
    let mut rows: Vec<(M::Symbol, u64, u64)> = vec![];
    for s in candidates {
        match guarded(|| m.left_cumulative_and_probability(*s)) {
            Ok(Some((c, p))) => { let p = nz::<M::Probability>(p); if p == 0 { return Err(format!("{}: symbol {:?} has probability zero inside a non-zero type", name, s)); } rows.push((*s, c.to_u128() as u64, p)) }
            Ok(None) => {}
            Err(e) => return Err(format!("{}: panic in left_cumulative_and_probability({:?}): {}", name, s, e)),
        }
    }
    rows.sort_by_key(|r| r.1);
    if rows.len() < 2 { return Err(format!("{}: fewer than two symbols have non-zero probability: {:?}", name, rows)); }
    let mut acc = 0u64;
    for r in &rows { if r.1 != acc { return Err(format!("{}: encoder table {:?} has a gap or overlap at {}", name, rows, acc)); } acc += r.2; }
    if acc != 1u64 << P { return Err(format!("{}: encoder table {:?} sums to {} instead of 2^{}", name, rows, acc, P)); }
    Ok(())
}

pub fn rows_of(v: &Value) -> Vec<Row<usize>> {
    v.as_array().map(|a| a.iter().map(|r| (r[0].as_u64().unwrap() as usize, r[1].as_u64().unwrap(), r[2].as_u64().unwrap())).collect()).unwrap_or_default()
}

macro_rules! with_bp_small {
    ($b:expr, $p:expr, $f:ident ( $($args:expr),* )) => {
        match ($b, $p) {
            (2, 1) => $f::<U2, 1>($($args),*), (2, 2) => $f::<U2, 2>($($args),*),
            (3, 1) => $f::<U3, 1>($($args),*), (3, 2) => $f::<U3, 2>($($args),*), (3, 3) => $f::<U3, 3>($($args),*),
            (4, 2) => $f::<U4, 2>($($args),*), (4, 3) => $f::<U4, 3>($($args),*), (4, 4) => $f::<U4, 4>($($args),*),
            (5, 4) => $f::<U5, 4>($($args),*), (5, 5) => $f::<U5, 5>($($args),*),
            (8, 5) => $f::<u8, 5>($($args),*), (8, 8) => $f::<u8, 8>($($args),*),
            (16, 12) => $f::<u16, 12>($($args),*), (16, 16) => $f::<u16, 16>($($args),*),
            (b, p) => panic!("unsupported (B, P) = ({}, {})", b, p),
        }
    };
}
macro_rules! with_bp_diag {
    ($b:expr, $p:expr, $f:ident ( $($args:expr),* )) => {
        match ($b, $p) {
            (8, 3) => $f::<u8, 3>($($args),*), (8, 5) => $f::<u8, 5>($($args),*), (8, 8) => $f::<u8, 8>($($args),*),
            (16, 4) => $f::<u16, 4>($($args),*), (16, 12) => $f::<u16, 12>($($args),*), (16, 16) => $f::<u16, 16>($($args),*),
            (b, p) => panic!("unsupported (B, P) = ({}, {})", b, p),
        }
    };
}
/// Runs `$body` with `$Pr`/`$P` bound to the probability type and precision of the case.
#[macro_export]
macro_rules! with_bp {
    ($b:expr, $p:expr, $f:ident ( $($args:expr),* )) => {
        match ($b, $p) {
            (2, 1) => $f::<U2, 1>($($args),*), (2, 2) => $f::<U2, 2>($($args),*),
            (3, 1) => $f::<U3, 1>($($args),*), (3, 2) => $f::<U3, 2>($($args),*), (3, 3) => $f::<U3, 3>($($args),*),
            (4, 2) => $f::<U4, 2>($($args),*), (4, 3) => $f::<U4, 3>($($args),*), (4, 4) => $f::<U4, 4>($($args),*),
            (5, 4) => $f::<U5, 4>($($args),*), (5, 5) => $f::<U5, 5>($($args),*),
            (8, 5) => $f::<u8, 5>($($args),*), (8, 8) => $f::<u8, 8>($($args),*),
            (16, 12) => $f::<u16, 12>($($args),*), (16, 16) => $f::<u16, 16>($($args),*),
            (32, 24) => $f::<u32, 24>($($args),*), (32, 32) => $f::<u32, 32>($($args),*),
            (b, p) => panic!("unsupported (B, P) = ({}, {})", b, p),
        }
    };
}

// ---------------------------------------------------------------------------------------------
// kind "fixed": from_nonzero_fixed_point_probabilities & friends
// ---------------------------------------------------------------------------------------------
use num_traits::AsPrimitive;
type CC<Pr, const P: usize> = ContiguousCategoricalEntropyModel<Pr, Vec<Pr>, P>;
type CL<Pr, const P: usize> = ContiguousLookupDecoderModel<Pr, Vec<Pr>, Box<[Pr]>, P>;
type ND<Sy, Pr, const P: usize> = NonContiguousCategoricalDecoderModel<Sy, Pr, Vec<(Pr, Sy)>, P>;
type NE<Sy, Pr, const P: usize> = NonContiguousCategoricalEncoderModel<Sy, Pr, P>;
type NL<Sy, Pr, const P: usize> = NonContiguousLookupDecoderModel<Sy, Pr, Vec<(Pr, Sy)>, Box<[Pr]>, P>;

fn outside_usize(n: usize, b: u32) -> Vec<usize> {
    let mut v = vec![n, n + 1, usize::MAX, usize::MAX - 1, 1usize << b, (1usize << b) + 1];
    for k in 0..n.min(4) { v.push((1usize << b) + k); v.push((1usize << (b + 1)) + k); v.push((1usize << 16) + k); v.push((1usize << 32) + k); }
    v.retain(|s| *s >= n); v.sort(); v.dedup(); v
}
fn relabel(s: usize) -> i32 { 7 - 3 * (s as i32) }     // a non-identity, non-monotone-increasing labelling

/// Outcome of a constructor call.
pub enum Built<M> { Model(M), Refused, Panicked(String) }
pub fn build<M>(f: impl FnOnce() -> Result<M, ()>) -> Built<M> {
    match guarded(f) { Ok(Ok(m)) => Built::Model(m), Ok(Err(())) => Built::Refused, Err(e) => Built::Panicked(e) }
}

macro_rules! run { ($rep:expr, $case:expr, $e:expr) => { match $e { Ok(n) => { $rep.checks += n as u64; } Err(d) => { $rep.mismatch($case, d); } } } }

pub fn fixed_case<Pr, const P: usize>(case: &Value, mode: &str, rep: &mut Report)
where Pr: VInt + Into<usize> + AsPrimitive<usize> + Into<f64>, usize: AsPrimitive<Pr>, f64: AsPrimitive<Pr> {
    let b = Pr::nbits();
    let probs: Vec<Pr> = case["probs"].as_array().unwrap().iter().map(|x| Pr::from_u128_trunc(x.as_u64().unwrap() as u128)).collect();
    for infer in [false, true] {
        let accept = case[if infer { "accept_infer" } else { "accept" }].as_bool().unwrap();
        let rows = rows_of(&case[if infer { "table_infer" } else { "table" }]);
        let n = probs.len() + infer as usize;
        let exp = Exp { rows: rows.clone(), outside: outside_usize(n, b), prec: P, sparse: false };
        let expr = Exp { rows: rows.iter().map(|r| (relabel(r.0), r.1, r.2)).collect(), outside: vec![relabel(n), relabel(n + 1), i32::MAX, i32::MIN, 8, 9], prec: P, sparse: false };
        let ctx = format!("infer_last_probability={}", infer);
        rep.class(if accept { "fixed_accept" } else { "fixed_reject" });
        if P == b as usize { rep.class(if accept { "fixed_accept_full_precision" } else { "fixed_reject_full_precision" }); }
        let syms: Vec<i32> = (0..n).map(relabel).collect();

        // ---- every constructor
        let cc = build(|| CC::<Pr, P>::from_nonzero_fixed_point_probabilities(probs.iter(), infer));
        let cl = build(|| CL::<Pr, P>::from_nonzero_fixed_point_probabilities(probs.iter(), infer));
        let nd = build(|| ND::<i32, Pr, P>::from_symbols_and_nonzero_fixed_point_probabilities(syms.iter().cloned(), probs.iter(), infer));
        let ne = build(|| NE::<i32, Pr, P>::from_symbols_and_nonzero_fixed_point_probabilities(syms.iter().cloned(), probs.iter(), infer));
        let nl = build(|| NL::<i32, Pr, P>::from_symbols_and_nonzero_fixed_point_probabilities(syms.iter().cloned(), probs.iter(), infer));

        macro_rules! outcome { ($name:expr, $built:expr, $dec:expr, $enc:expr) => {{
            let name = format!("{} ({})", $name, ctx);
            match &$built {
                Built::Panicked(msg) => { rep.class("ctor_panicked"); if accept && mode == "c19" && infer { rep.mismatch(case, format!("{}: panicked on valid input with an inferred last probability: {}", name, msg)); }
                    if mode == "c20" && is_ub_panic(msg) { rep.mismatch(case, format!("{}: {}", name, msg)); } }
                Built::Refused => { rep.class("ctor_refused"); if accept && mode == "c19" && infer { rep.mismatch(case, format!("{}: refused valid probabilities {:?} with an inferred last probability", name, case["probs"])); }
                    if accept && (mode == "c03") { rep.class("valid_input_refused"); } }
                Built::Model(m) => { rep.class("ctor_ok");
                    if !accept && (mode == "c19" || mode == "c20") {
                        // whatever was built from invalid input must satisfy the contract
                        #[allow(unused_variables)] let m = m;
                        if let Some(f) = $dec { run!(rep, case, f(&name, m).map(|_| 1)); }
                        if let Some(f) = $enc { run!(rep, case, f(&name, m).map(|_| 1)); }
                    } }
            }
        }}; }
        type DecF<M> = Option<fn(&str, &M) -> Result<(), String>>;
        let cands_r: Vec<i32> = (-40..40).collect();
        // the encoder side of the contiguous model as well: every symbol of the declared support (and a few beyond it) is
        // queried, so that a support symbol with probability zero (a zero inside the NonZero type) cannot hide behind a
        // decoder view that never returns it
        let cands_u: Vec<usize> = (0..probs.len() + 3).collect();
        outcome!("ContiguousCategoricalEntropyModel::from_nonzero_fixed_point_probabilities", cc, Some(contract_dec::<CC<Pr, P>, P> as fn(&str, &CC<Pr, P>) -> Result<(), String>), Some(|nm: &str, m: &CC<Pr, P>| contract_enc::<CC<Pr, P>, P>(nm, m, &cands_u)));
        outcome!("ContiguousLookupDecoderModel::from_nonzero_fixed_point_probabilities", cl, Some(contract_dec::<CL<Pr, P>, P> as fn(&str, &CL<Pr, P>) -> Result<(), String>), None::<fn(&str, &CL<Pr, P>) -> Result<(), String>>);
        outcome!("NonContiguousCategoricalDecoderModel::from_symbols_and_nonzero_fixed_point_probabilities", nd, Some(contract_dec::<ND<i32, Pr, P>, P> as fn(&str, &ND<i32, Pr, P>) -> Result<(), String>), None::<fn(&str, &ND<i32, Pr, P>) -> Result<(), String>>);
        outcome!("NonContiguousLookupDecoderModel::from_symbols_and_nonzero_fixed_point_probabilities", nl, Some(contract_dec::<NL<i32, Pr, P>, P> as fn(&str, &NL<i32, Pr, P>) -> Result<(), String>), None::<fn(&str, &NL<i32, Pr, P>) -> Result<(), String>>);
        outcome!("NonContiguousCategoricalEncoderModel::from_symbols_and_nonzero_fixed_point_probabilities", ne, None::<fn(&str, &NE<i32, Pr, P>) -> Result<(), String>>, Some(|nm: &str, m: &NE<i32, Pr, P>| contract_enc::<NE<i32, Pr, P>, P>(nm, m, &cands_r)));
        let _: DecF<()> = None;

        if mode == "c19" {
            // mismatched symbol counts must be refused (or give a valid model)
            for delta in [-1i32, 1] {
                if n as i32 + delta < 0 { continue; }
                let syms2: Vec<i32> = (0..(n as i32 + delta) as usize).map(relabel).collect();
                let nd2 = build(|| ND::<i32, Pr, P>::from_symbols_and_nonzero_fixed_point_probabilities(syms2.iter().cloned(), probs.iter(), infer));
                if let Built::Model(m) = &nd2 { rep.class("count_mismatch_accepted"); run!(rep, case, contract_dec::<_, P>(&format!("NonContiguousCategoricalDecoderModel with {} symbols for {} probabilities ({})", syms2.len(), n, ctx), m).map(|_| 1)); if accept { rep.mismatch(case, format!("NonContiguousCategoricalDecoderModel accepted {} symbols for {} probabilities", syms2.len(), n)); } }
                let ne2 = build(|| NE::<i32, Pr, P>::from_symbols_and_nonzero_fixed_point_probabilities(syms2.iter().cloned(), probs.iter(), infer));
                if let Built::Model(m) = &ne2 { run!(rep, case, contract_enc::<_, P>(&format!("NonContiguousCategoricalEncoderModel with {} symbols for {} probabilities ({})", syms2.len(), n, ctx), m, &cands_r).map(|_| 1)); if accept { rep.mismatch(case, format!("NonContiguousCategoricalEncoderModel accepted {} symbols for {} probabilities", syms2.len(), n)); } }
                let nl2 = build(|| NL::<i32, Pr, P>::from_symbols_and_nonzero_fixed_point_probabilities(syms2.iter().cloned(), probs.iter(), infer));
                if let Built::Model(m) = &nl2 { run!(rep, case, contract_dec::<_, P>(&format!("NonContiguousLookupDecoderModel with {} symbols for {} probabilities ({})", syms2.len(), n, ctx), m).map(|_| 1)); if accept { rep.mismatch(case, format!("NonContiguousLookupDecoderModel accepted {} symbols for {} probabilities", syms2.len(), n)); } }
            }
            // duplicate symbols for the hash-table encoder
            if n >= 2 { let mut d = syms.clone(); d[1] = d[0];
                if let Built::Model(m) = build(|| NE::<i32, Pr, P>::from_symbols_and_nonzero_fixed_point_probabilities(d.iter().cloned(), probs.iter(), infer)) { run!(rep, case, contract_enc::<_, P>("NonContiguousCategoricalEncoderModel with duplicate symbols", &m, &cands_r).map(|_| 1)); } }
        }
        if !accept { continue; }

        if mode == "c03" || mode == "c20" {
            if let Built::Model(m) = &cc { run!(rep, case, exp.chk_enc::<_, P>("ContiguousCategoricalEntropyModel", m)); run!(rep, case, exp.chk_dec::<_, P>("ContiguousCategoricalEntropyModel", m)); run!(rep, case, exp.chk_iter::<_, P>("ContiguousCategoricalEntropyModel", m)); }
            // models that the library builds by conversion must satisfy the contract on their own (C03); that they are the
            // SAME model as their source is C05's business and is not compared here
            if let Built::Model(m) = &cc {
                run!(rep, case, contract_dec::<_, P>("ContiguousCategoricalEntropyModel::to_lookup_decoder_model (contract)", &m.to_lookup_decoder_model()).map(|_| 1));
                run!(rep, case, contract_dec::<_, P>("ContiguousCategoricalEntropyModel::to_generic_lookup_decoder_model (contract)", &m.to_generic_lookup_decoder_model()).map(|_| 1));
                run!(rep, case, contract_dec::<_, P>("ContiguousCategoricalEntropyModel::to_generic_decoder_model (contract)", &m.to_generic_decoder_model()).map(|_| 1));
                rep.class("converted_models_contract");
            }
            if let Built::Model(m) = &nd {
                run!(rep, case, contract_dec::<_, P>("NonContiguousCategoricalDecoderModel::to_lookup_decoder_model (contract)", &m.to_lookup_decoder_model()).map(|_| 1));
                run!(rep, case, contract_dec::<_, P>("NonContiguousCategoricalDecoderModel::to_generic_lookup_decoder_model (contract)", &m.to_generic_lookup_decoder_model()).map(|_| 1));
            }
            if let Built::Model(m) = &cl { run!(rep, case, exp.chk_dec::<_, P>("ContiguousLookupDecoderModel", m)); run!(rep, case, exp.chk_iter::<_, P>("ContiguousLookupDecoderModel", m)); }
            if let Built::Model(m) = &nd { run!(rep, case, expr.chk_dec::<_, P>("NonContiguousCategoricalDecoderModel", m)); run!(rep, case, expr.chk_iter::<_, P>("NonContiguousCategoricalDecoderModel", m)); }
            if let Built::Model(m) = &ne { run!(rep, case, expr.chk_enc::<_, P>("NonContiguousCategoricalEncoderModel", m)); }
            if let Built::Model(m) = &nl { run!(rep, case, expr.chk_dec::<_, P>("NonContiguousLookupDecoderModel", m)); run!(rep, case, expr.chk_iter::<_, P>("NonContiguousLookupDecoderModel", m)); }
        }
        if mode == "c05" {
            if let Built::Model(m) = &cc { conversions_contiguous::<Pr, _, P>(case, "ContiguousCategoricalEntropyModel", m, &exp, rep); }
            if let Built::Model(m) = &cl {
                run!(rep, case, exp.chk_dec::<_, P>("ContiguousLookupDecoderModel::as_view", &m.as_view()));
                let v = m.as_contiguous_categorical();
                run!(rep, case, exp.chk_enc::<_, P>("ContiguousLookupDecoderModel::as_contiguous_categorical", &v)); run!(rep, case, exp.chk_dec::<_, P>("ContiguousLookupDecoderModel::as_contiguous_categorical", &v)); run!(rep, case, exp.chk_iter::<_, P>("ContiguousLookupDecoderModel::as_contiguous_categorical", &v));
                let o = m.clone().into_contiguous_categorical();
                run!(rep, case, exp.chk_enc::<_, P>("ContiguousLookupDecoderModel::into_contiguous_categorical", &o)); run!(rep, case, exp.chk_dec::<_, P>("ContiguousLookupDecoderModel::into_contiguous_categorical", &o));
                run!(rep, case, exp.chk_dec::<_, P>("ContiguousLookupDecoderModel::to_generic_decoder_model", &m.to_generic_decoder_model()));
                run!(rep, case, exp.chk_enc::<_, P>("ContiguousLookupDecoderModel::to_generic_encoder_model", &m.to_generic_encoder_model()));
                run!(rep, case, exp.chk_dec::<_, P>("ContiguousLookupDecoderModel::to_generic_lookup_decoder_model", &m.to_generic_lookup_decoder_model()));
            }
            if let Built::Model(m) = &nd {
                run!(rep, case, expr.chk_dec::<_, P>("NonContiguousCategoricalDecoderModel::as_view", &m.as_view())); run!(rep, case, expr.chk_iter::<_, P>("NonContiguousCategoricalDecoderModel::as_view", &m.as_view()));
                let l = m.to_lookup_decoder_model();
                run!(rep, case, expr.chk_dec::<_, P>("NonContiguousCategoricalDecoderModel::to_lookup_decoder_model", &l)); run!(rep, case, expr.chk_iter::<_, P>("NonContiguousCategoricalDecoderModel::to_lookup_decoder_model", &l));
                run!(rep, case, expr.chk_enc::<_, P>("NonContiguousCategoricalDecoderModel::to_generic_encoder_model", &m.to_generic_encoder_model()));
                run!(rep, case, expr.chk_dec::<_, P>("NonContiguousCategoricalDecoderModel::to_generic_decoder_model", &m.to_generic_decoder_model()));
                run!(rep, case, expr.chk_dec::<_, P>("NonContiguousCategoricalDecoderModel::to_generic_lookup_decoder_model", &m.to_generic_lookup_decoder_model()));
                run!(rep, case, expr.chk_enc::<_, P>("NonContiguousCategoricalEncoderModel::from_iterable_entropy_model", &NE::<i32, Pr, P>::from_iterable_entropy_model(m)));
                run!(rep, case, expr.chk_dec::<_, P>("NonContiguousCategoricalDecoderModel::from_iterable_entropy_model", &ND::<i32, Pr, P>::from_iterable_entropy_model(m)));
                run!(rep, case, expr.chk_dec::<_, P>("NonContiguousLookupDecoderModel::from_iterable_entropy_model", &NL::<i32, Pr, P>::from_iterable_entropy_model(m)));
                run!(rep, case, expr.chk_dec::<_, P>("&NonContiguousCategoricalDecoderModel", &&*m));
            }
            if let Built::Model(m) = &nl {
                run!(rep, case, expr.chk_dec::<_, P>("NonContiguousLookupDecoderModel::as_view", &m.as_view()));
                let v = m.as_non_contiguous_categorical();
                run!(rep, case, expr.chk_dec::<_, P>("NonContiguousLookupDecoderModel::as_non_contiguous_categorical", &v)); run!(rep, case, expr.chk_iter::<_, P>("NonContiguousLookupDecoderModel::as_non_contiguous_categorical", &v));
                let o = m.clone().into_non_contiguous_categorical();
                run!(rep, case, expr.chk_dec::<_, P>("NonContiguousLookupDecoderModel::into_non_contiguous_categorical", &o));
                run!(rep, case, expr.chk_enc::<_, P>("NonContiguousLookupDecoderModel::to_generic_encoder_model", &m.to_generic_encoder_model()));
            }
            if let (Built::Model(e), Built::Model(d)) = (&ne, &nd) {
                // encoder-only and decoder-only views are mutual inverses
                for q in 0..(1u64 << P.min(12)) { let (s, c, p) = d.quantile_function(Pr::from_u128_trunc(q as u128)); let back = e.left_cumulative_and_probability(s); rep.checks += 1;
                    if back.map(|(c2, p2)| (c2.to_u128(), nz::<Pr>(p2))) != Some((c.to_u128(), nz::<Pr>(p))) { rep.mismatch(case, format!("hash-table encoder and searched decoder disagree at quantile {}: decoder ({:?},{},{}), encoder {:?}", q, s, c.to_u128(), nz::<Pr>(p), back.map(|(c2, p2)| (c2.to_u128(), nz::<Pr>(p2))))); break; } }
            }
        }
    }
}

/// All conversions reachable from a contiguous categorical model (C05), each compared with the spec table.
pub fn conversions_contiguous<Pr, C, const P: usize>(case: &Value, what: &str, m: &ContiguousCategoricalEntropyModel<Pr, C, P>, exp: &Exp<usize>, rep: &mut Report)
where Pr: VInt + Into<usize> + AsPrimitive<usize>, usize: AsPrimitive<Pr>, C: AsRef<[Pr]> {
    let v = m.as_view();
    run!(rep, case, exp.chk_enc::<_, P>(&format!("{}::as_view", what), &v)); run!(rep, case, exp.chk_dec::<_, P>(&format!("{}::as_view", what), &v)); run!(rep, case, exp.chk_iter::<_, P>(&format!("{}::as_view", what), &v));
    run!(rep, case, exp.chk_enc::<_, P>(&format!("&{}", what), &m)); run!(rep, case, exp.chk_dec::<_, P>(&format!("&{}", what), &m));
    let l = m.to_lookup_decoder_model();
    run!(rep, case, exp.chk_dec::<_, P>(&format!("{}::to_lookup_decoder_model", what), &l)); run!(rep, case, exp.chk_iter::<_, P>(&format!("{}::to_lookup_decoder_model", what), &l));
    run!(rep, case, exp.chk_enc::<_, P>(&format!("{}::to_generic_encoder_model", what), &m.to_generic_encoder_model()));
    let gd = m.to_generic_decoder_model();
    run!(rep, case, exp.chk_dec::<_, P>(&format!("{}::to_generic_decoder_model", what), &gd)); run!(rep, case, exp.chk_iter::<_, P>(&format!("{}::to_generic_decoder_model", what), &gd));
    let gl = m.to_generic_lookup_decoder_model();
    run!(rep, case, exp.chk_dec::<_, P>(&format!("{}::to_generic_lookup_decoder_model", what), &gl)); run!(rep, case, exp.chk_iter::<_, P>(&format!("{}::to_generic_lookup_decoder_model", what), &gl));
}

pub fn model_case(case: &Value, mode: &str, rep: &mut Report) {
    let b = case["B"].as_u64().unwrap();
    let p = case["P"].as_u64().unwrap();
    match case["k"].as_str().unwrap() {
        "fixed" => with_bp_small!(b, p, fixed_case(case, mode, rep)),
        "uniform" => with_bp_small!(b, p, uniform_case(case, mode, rep)),
        "fast" => with_bp_small!(b, p, fast_case(case, mode, rep)),
        "leaky" => with_bp_small!(b, p, leaky_case(case, mode, rep)),
        "diag" => with_bp_diag!(b, p, diag_case(case, mode, rep)),
        "floatclass" => with_bp_small!(b, p, floatclass_case(case, mode, rep)),
        "uniformbig" => with_bp!(b, p, uniformbig_case(case, mode, rep)),
        k => panic!("unknown model case kind {}", k),
    }
}

// ---------------------------------------------------------------------------------------------
// kind "uniform"
// ---------------------------------------------------------------------------------------------
pub fn uniform_case<Pr, const P: usize>(case: &Value, mode: &str, rep: &mut Report)
where Pr: VInt + Into<usize> + AsPrimitive<usize>, usize: AsPrimitive<Pr> {
    let b = Pr::nbits();
    for c in case["cases"].as_array().unwrap() {
        let n = c["n"].as_u64().unwrap() as usize;
        let accept = c["accept"].as_bool().unwrap();
        let rows = rows_of(&c["table"]);
        let exp = Exp { rows, outside: outside_usize(n, b), prec: P, sparse: false };
        let name = format!("UniformModel::new({})", n);
        rep.checks += 1;
        match guarded(|| UniformModel::<Pr, P>::new(n)) {
            Err(msg) => { rep.class("uniform_panicked"); if mode == "c20" && is_ub_panic(&msg) { rep.mismatch(case, format!("{}: {}", name, msg)); } }
            Ok(m) => {
                rep.class("uniform_ok");
                if !accept { if mode == "c19" || mode == "c20" { run!(rep, case, contract_dec::<_, P>(&name, &m).map(|_| 1)); } continue; }
                match mode {
                    "c03" | "c20" => { run!(rep, case, exp.chk_enc::<_, P>(&name, &m)); run!(rep, case, exp.chk_dec::<_, P>(&name, &m)); run!(rep, case, exp.chk_iter::<_, P>(&name, &m)); }
                    "c09" => { run!(rep, case, exp.chk_enc::<_, P>(&name, &m)); }
                    "c05" => {
                        run!(rep, case, exp.chk_enc::<_, P>(&format!("&{}", name), &&m)); run!(rep, case, exp.chk_dec::<_, P>(&format!("&{}", name), &&m));
                        run!(rep, case, exp.chk_enc::<_, P>(&format!("{}.to_generic_encoder_model()", name), &m.to_generic_encoder_model()));
                        let gd = m.to_generic_decoder_model();
                        run!(rep, case, exp.chk_dec::<_, P>(&format!("{}.to_generic_decoder_model()", name), &gd)); run!(rep, case, exp.chk_iter::<_, P>(&format!("{}.to_generic_decoder_model()", name), &gd));
                        run!(rep, case, exp.chk_dec::<_, P>(&format!("{}.to_generic_lookup_decoder_model()", name), &m.to_generic_lookup_decoder_model()));
                    }
                    _ => {}
                }
            }
        }
    }
}

// ---------------------------------------------------------------------------------------------
// kind "fast": `..._fast` float constructors on weights with exact arithmetic
// ---------------------------------------------------------------------------------------------
type LZ<Pr, F, const P: usize> = LazyContiguousCategoricalEntropyModel<Pr, F, Vec<F>, P>;

pub fn fast_case_f<Pr, F, const P: usize>(case: &Value, mode: &str, rep: &mut Report, fname: &str)
where Pr: VInt + Into<usize> + AsPrimitive<usize> + Into<f64> + AsPrimitive<F>, usize: AsPrimitive<Pr> + AsPrimitive<F>, f64: AsPrimitive<Pr>,
      F: num_traits::float::FloatCore + core::iter::Sum<F> + AsPrimitive<Pr> + Into<f64> + Debug + 'static, u32: AsPrimitive<F> {
    let b = Pr::nbits();
    let w: Vec<F> = case["weights"].as_array().unwrap().iter().map(|x| (x.as_u64().unwrap() as u32).as_()).collect();
    let accept = case["accept"].as_bool().unwrap();
    let rows = rows_of(&case["table"]);
    let n = w.len();
    let exp = Exp { rows: rows.clone(), outside: outside_usize(n, b), prec: P, sparse: false };
    let expr = Exp { rows: rows.iter().map(|r| (relabel(r.0), r.1, r.2)).collect(), outside: vec![relabel(n), relabel(n + 1), i32::MAX, i32::MIN, 8, 9], prec: P, sparse: false };
    let syms: Vec<i32> = (0..n).map(relabel).collect();
    let cands_r: Vec<i32> = (-40..40).collect();
    rep.class(if accept { "fast_accept" } else { "fast_reject" });
    let total: F = w.iter().copied().sum();
    for norm in [None, Some(total)] {
        let ctx = format!("{} weights, normalization={:?}", fname, norm);
        let cc = build(|| CC::<Pr, P>::from_floating_point_probabilities_fast(&w, norm));
        let lz = build(|| LZ::<Pr, F, P>::from_floating_point_probabilities_fast(w.clone(), norm));
        let cl = build(|| CL::<Pr, P>::from_floating_point_probabilities_fast(&w, norm));
        let nd = build(|| ND::<i32, Pr, P>::from_symbols_and_floating_point_probabilities_fast(syms.iter().cloned(), &w, norm));
        let ne = build(|| NE::<i32, Pr, P>::from_symbols_and_floating_point_probabilities_fast(syms.iter().cloned(), &w, norm));
        let nl = build(|| NL::<i32, Pr, P>::from_symbols_and_floating_point_probabilities_fast(syms.iter().cloned(), &w, norm));
        rep.checks += 6;
        macro_rules! reject_side { ($name:expr, $built:expr, $chk:expr) => { match &$built {
            Built::Panicked(msg) => { rep.class("ctor_panicked"); if mode == "c20" && is_ub_panic(msg) { rep.mismatch(case, format!("{} ({}): {}", $name, ctx, msg)); } }
            Built::Refused => { rep.class("ctor_refused"); if accept && mode == "c03" { rep.class("valid_input_refused"); rep.mismatch(case, format!("{} ({}): refused weights that satisfy the documented preconditions", $name, ctx)); } }
            Built::Model(m) => { rep.class("ctor_ok"); if !accept && (mode == "c19" || mode == "c20") { run!(rep, case, $chk(&format!("{} ({})", $name, ctx), m).map(|_| 1)); } }
        } } }
        reject_side!("ContiguousCategoricalEntropyModel::from_floating_point_probabilities_fast", cc, contract_dec::<CC<Pr, P>, P>);
        reject_side!("LazyContiguousCategoricalEntropyModel::from_floating_point_probabilities_fast", lz, contract_dec::<LZ<Pr, F, P>, P>);
        reject_side!("ContiguousLookupDecoderModel::from_floating_point_probabilities_fast", cl, contract_dec::<CL<Pr, P>, P>);
        reject_side!("NonContiguousCategoricalDecoderModel::from_symbols_and_floating_point_probabilities_fast", nd, contract_dec::<ND<i32, Pr, P>, P>);
        reject_side!("NonContiguousLookupDecoderModel::from_symbols_and_floating_point_probabilities_fast", nl, contract_dec::<NL<i32, Pr, P>, P>);
        reject_side!("NonContiguousCategoricalEncoderModel::from_symbols_and_floating_point_probabilities_fast", ne, |nm: &str, m: &NE<i32, Pr, P>| contract_enc::<NE<i32, Pr, P>, P>(nm, m, &cands_r));
        if mode == "c19" {
            for delta in [-1i32, 1] {
                if n as i32 + delta < 0 { continue; }
                let syms2: Vec<i32> = (0..(n as i32 + delta) as usize).map(relabel).collect();
                let what = format!("{} symbols for {} probabilities ({})", syms2.len(), n, ctx);
                if let Built::Model(m) = build(|| ND::<i32, Pr, P>::from_symbols_and_floating_point_probabilities_fast(syms2.iter().cloned(), &w, norm)) { rep.class("count_mismatch_accepted"); run!(rep, case, contract_dec::<_, P>(&format!("NonContiguousCategoricalDecoderModel fast with {}", what), &m).map(|_| 1)); }
                if let Built::Model(m) = build(|| NE::<i32, Pr, P>::from_symbols_and_floating_point_probabilities_fast(syms2.iter().cloned(), &w, norm)) { rep.class("count_mismatch_accepted"); run!(rep, case, contract_enc::<_, P>(&format!("NonContiguousCategoricalEncoderModel fast with {}", what), &m, &cands_r).map(|_| 1)); }
                if let Built::Model(m) = build(|| NL::<i32, Pr, P>::from_symbols_and_floating_point_probabilities_fast(syms2.iter().cloned(), &w, norm)) { rep.class("count_mismatch_accepted"); run!(rep, case, contract_dec::<_, P>(&format!("NonContiguousLookupDecoderModel fast with {}", what), &m).map(|_| 1)); }
            }
            // the `perfect` constructors on the same weights: refuse or build a valid model
            if let Built::Model(m) = build(|| CC::<Pr, P>::from_floating_point_probabilities_perfect(&w)) { run!(rep, case, contract_dec::<_, P>(&format!("ContiguousCategoricalEntropyModel::from_floating_point_probabilities_perfect ({})", fname), &m).map(|_| 1)); }
        }
        if !accept { continue; }
        if mode == "c03" || mode == "c20" {
            if let Built::Model(m) = &cc { run!(rep, case, exp.chk_enc::<_, P>("ContiguousCategoricalEntropyModel (fast)", m)); run!(rep, case, exp.chk_dec::<_, P>("ContiguousCategoricalEntropyModel (fast)", m)); run!(rep, case, exp.chk_iter::<_, P>("ContiguousCategoricalEntropyModel (fast)", m)); }
            if let Built::Model(m) = &lz { run!(rep, case, exp.chk_enc::<_, P>("LazyContiguousCategoricalEntropyModel (fast)", m)); run!(rep, case, exp.chk_dec::<_, P>("LazyContiguousCategoricalEntropyModel (fast)", m)); }
            if let Built::Model(m) = &cl { run!(rep, case, exp.chk_dec::<_, P>("ContiguousLookupDecoderModel (fast)", m)); run!(rep, case, exp.chk_iter::<_, P>("ContiguousLookupDecoderModel (fast)", m)); }
            if let Built::Model(m) = &nd { run!(rep, case, expr.chk_dec::<_, P>("NonContiguousCategoricalDecoderModel (fast)", m)); run!(rep, case, expr.chk_iter::<_, P>("NonContiguousCategoricalDecoderModel (fast)", m)); }
            if let Built::Model(m) = &ne { run!(rep, case, expr.chk_enc::<_, P>("NonContiguousCategoricalEncoderModel (fast)", m)); }
            if let Built::Model(m) = &nl { run!(rep, case, expr.chk_dec::<_, P>("NonContiguousLookupDecoderModel (fast)", m)); }
        }
        if mode == "c05" {
            // lazy vs eager (same-named constructor), views, conversions: all must be the spec's table
            if let Built::Model(m) = &lz { run!(rep, case, exp.chk_enc::<_, P>("LazyContiguousCategoricalEntropyModel", m)); run!(rep, case, exp.chk_dec::<_, P>("LazyContiguousCategoricalEntropyModel", m));
                let v = m.as_view(); run!(rep, case, exp.chk_enc::<_, P>("LazyContiguousCategoricalEntropyModel::as_view", &v)); run!(rep, case, exp.chk_dec::<_, P>("LazyContiguousCategoricalEntropyModel::as_view", &v)); }
            if let Built::Model(m) = &cc { run!(rep, case, exp.chk_enc::<_, P>("ContiguousCategoricalEntropyModel (fast)", m)); run!(rep, case, exp.chk_dec::<_, P>("ContiguousCategoricalEntropyModel (fast)", m)); conversions_contiguous::<Pr, _, P>(case, "ContiguousCategoricalEntropyModel (fast)", m, &exp, rep); }
            if let Built::Model(m) = &cl { run!(rep, case, exp.chk_dec::<_, P>("ContiguousLookupDecoderModel (fast)", m)); }
            if let Built::Model(m) = &nd { run!(rep, case, expr.chk_dec::<_, P>("NonContiguousCategoricalDecoderModel (fast)", m)); }
            if let Built::Model(m) = &ne { run!(rep, case, expr.chk_enc::<_, P>("NonContiguousCategoricalEncoderModel (fast)", m)); }
            if let Built::Model(m) = &nl { run!(rep, case, expr.chk_dec::<_, P>("NonContiguousLookupDecoderModel (fast)", m)); }
        }
    }
    // C05 with a caller-provided normalisation that is NOT the sum (too small: cumulatives are clamped; too large: the last symbol
    // takes the rest): the specification predicts no table here, but the same-named constructors must still build the same model
    if mode == "c05" && accept && total > F::zero() {
        for (what, norm) in [("half the sum", total / (F::one() + F::one())), ("twice the sum", total + total), ("3/4 of the sum", (total + total + total) / (F::one() + F::one() + F::one() + F::one()))] {
            let cc = build(|| CC::<Pr, P>::from_floating_point_probabilities_fast(&w, Some(norm)));
            let lz = build(|| LZ::<Pr, F, P>::from_floating_point_probabilities_fast(w.clone(), Some(norm)));
            let cl = build(|| CL::<Pr, P>::from_floating_point_probabilities_fast(&w, Some(norm)));
            if let (Built::Model(cc), Built::Model(lz)) = (&cc, &lz) {
                rep.class("fast_wrong_normalization_compared"); rep.checks += 1;
                for s in 0..n + 1 {
                    let a = cc.left_cumulative_and_probability(s).map(|(c, p)| (c.to_u128(), nz::<Pr>(p))); let b2 = lz.left_cumulative_and_probability(s).map(|(c, p)| (c.to_u128(), nz::<Pr>(p)));
                    if a != b2 { rep.mismatch(case, format!("{} weights with normalization = {} ({:?}): eager model gives symbol {} {:?}, lazy model {:?}", fname, what, norm, s, a, b2)); break; }
                }
                for q in 0..(1u64 << P.min(10)) {
                    let qq = Pr::from_u128_trunc(q as u128);
                    let a = { let (s, c, p) = cc.quantile_function(qq); (s, c.to_u128(), nz::<Pr>(p)) }; let b2 = { let (s, c, p) = lz.quantile_function(qq); (s, c.to_u128(), nz::<Pr>(p)) };
                    if a != b2 { rep.mismatch(case, format!("{} weights with normalization = {} ({:?}): eager decoder gives {:?} at quantile {}, lazy decoder {:?}", fname, what, norm, a, q, b2)); break; }
                    if let Built::Model(cl) = &cl { let c3 = { let (s, c, p) = cl.quantile_function(qq); (s, c.to_u128(), nz::<Pr>(p)) }; if a != c3 { rep.mismatch(case, format!("{} weights with normalization = {} ({:?}): eager decoder gives {:?} at quantile {}, lookup decoder {:?}", fname, what, norm, a, q, c3)); break; } }
                }
            }
        }
    }
}
pub fn fast_case<Pr, const P: usize>(case: &Value, mode: &str, rep: &mut Report)
where Pr: VInt + Into<usize> + AsPrimitive<usize> + Into<f64> + AsPrimitive<f32> + AsPrimitive<f64>, usize: AsPrimitive<Pr>, f64: AsPrimitive<Pr>, f32: AsPrimitive<Pr> {
    fast_case_f::<Pr, f64, P>(case, mode, rep, "f64");
    fast_case_f::<Pr, f32, P>(case, mode, rep, "f32");
}

// ---------------------------------------------------------------------------------------------
// kind "leaky": LeakyQuantizer on step-shaped CDFs with arbitrary inverse hints
// ---------------------------------------------------------------------------------------------
#[derive(Clone, Debug)]
pub struct StepDist { pub min: i64, pub n: usize, pub k: Vec<u64>, pub m: u32, pub hint: Hint, pub rows: Vec<(i64, u64, u64)>, pub prec: u32 }
#[derive(Clone, Copy, Debug, PartialEq)]
pub enum Hint { Exact, Min, Max, Mid, FarBelow, FarAbove, Nan, Reversed, Off(i64) }
impl Distribution for StepDist {
    type Value = f64;
    fn distribution(&self, x: f64) -> f64 {
        let t = (x - self.min as f64 - 0.5).floor();
        if t < 0.0 { 0.0 } else if t as usize >= self.n - 1 { 1.0 } else { self.k[t as usize] as f64 / (1u64 << self.m) as f64 }
    }
}
impl Inverse for StepDist {
    fn inverse(&self, p: f64) -> f64 {
        let q = (p * (1u64 << self.prec) as f64).floor() as u64;
        let exact = self.rows.iter().find(|r| r.1 <= q && q < r.1 + r.2).map(|r| r.0).unwrap_or(self.min) as f64;
        let max = self.min + self.n as i64 - 1;
        match self.hint {
            Hint::Exact => exact, Hint::Min => self.min as f64, Hint::Max => max as f64, Hint::Mid => ((self.min + max) / 2) as f64,
            Hint::FarBelow => -1e30, Hint::FarAbove => 1e30, Hint::Nan => f64::NAN,
            Hint::Reversed => max as f64 - (exact - self.min as f64), Hint::Off(d) => exact + d as f64,
        }
    }
}
pub const HINTS: [Hint; 12] = [Hint::Exact, Hint::Min, Hint::Max, Hint::Mid, Hint::FarBelow, Hint::FarAbove, Hint::Nan, Hint::Reversed, Hint::Off(1), Hint::Off(-1), Hint::Off(7), Hint::Off(-100)];

pub trait SymInt: num_traits::PrimInt + std::hash::Hash + Into<f64> + num_traits::WrappingSub + num_traits::WrappingAdd + AsPrimitive<usize> + Debug + 'static { fn from_i64(v: i64) -> Option<Self>; fn to_i64(self) -> i64; fn tname() -> &'static str; }
macro_rules! symint { ($($t:ty),*) => { $( impl SymInt for $t {
    fn from_i64(v: i64) -> Option<Self> { if v >= <$t>::MIN as i64 && v <= <$t>::MAX as i64 { Some(v as $t) } else { None } }
    fn to_i64(self) -> i64 { self as i64 } fn tname() -> &'static str { stringify!($t) } } )* } }
symint!(i8, u8, i16, u16, i32, u32);

pub fn leaky_sym<Pr, Sy, const P: usize>(case: &Value, mode: &str, rep: &mut Report, k: &[u64], m: u32, n: usize, accept: bool, rows0: &[Row<usize>], mins: &[i64], hints: &[Hint])
where Pr: VInt + Into<f64>, f64: AsPrimitive<Pr> + AsPrimitive<Sy>, Sy: SymInt + AsPrimitive<Pr> {
    for &min in mins {
        let (smin, smax) = match (Sy::from_i64(min), Sy::from_i64(min + n as i64 - 1)) { (Some(a), Some(b)) => (a, b), _ => continue };
        let what = format!("LeakyQuantizer::<f64, {}, _, {}>::new({:?}..={:?})", Sy::tname(), P, smin, smax);
        rep.checks += 1;
        let quantizer = match guarded(|| LeakyQuantizer::<f64, Sy, Pr, P>::new(smin..=smax)) {
            Ok(q) => { if !accept { rep.class("leaky_invalid_support_accepted"); } q }
            Err(msg) => { if accept { rep.class("leaky_fitting_support_refused"); } if mode == "c20" && is_ub_panic(&msg) { rep.mismatch(case, format!("{}: {}", what, msg)); } continue; }
        };
        let rows: Vec<(i64, u64, u64)> = rows0.iter().map(|r| (min + r.0 as i64, r.1, r.2)).collect();
        let mut outside: Vec<Sy> = vec![];
        for v in [min - 1, min + n as i64, min - 2, min + n as i64 + 5, Sy::min_value().to_i64(), Sy::max_value().to_i64()] { if let Some(s) = Sy::from_i64(v) { if v < min || v > min + n as i64 - 1 { outside.push(s); } } }
        let exp: Exp<Sy> = Exp { rows: rows.iter().map(|r| (Sy::from_i64(r.0).unwrap(), r.1, r.2)).collect(), outside, prec: P, sparse: case["sparse"].as_bool().unwrap_or(false) };
        for &hint in hints {
            let dist = StepDist { min, n, k: k.to_vec(), m, hint, rows: rows.clone(), prec: P as u32 };
            let model = quantizer.quantize(dist);
            let name = format!("{}.quantize(step cdf {:?}/2^{}, inverse hint {:?})", what, k, m, hint);
            if !accept { if mode == "c19" || mode == "c20" { run!(rep, case, contract_dec::<_, P>(&name, &model).map(|_| 1)); } continue; }
            rep.class("leaky_model");
            beat(&case.to_string());
            match mode {
                "c03" | "c10" | "c20" if Sy::min_value().to_i64() < 0 && (n as i64 - 1) > Sy::max_value().to_i64() && Sy::max_value().to_i64() < (1i64 << 31) - 1
                        && guarded(|| exp.chk_dec::<_, P>(&name, &model)).map(|r| r.is_err()).unwrap_or(false) => {
                    // Signed symbol type whose support spans more than Symbol::MAX symbols: LeakyQuantizer::new sign-extends the span
                    // (`end.wrapping_sub(start).as_()`), so it either refuses the support ("support too large") or - where the
                    // sign-extended span happens to fit, e.g. i8 -128..=127 with u16 probabilities at PRECISION 16 - computes a free
                    // weight of 0: the model then gives one quantum to every symbol and the rest to the last one.  That is not the
                    // table FixedPoint.tla predicts, but it IS a valid, exactly invertible model, which is all C03 states: only the
                    // contract is checked here and the discrepancy is counted (see DESIGN.md, "observations outside the listed
                    // properties").
                    rep.class("leaky_signed_full_range_free_weight_discrepancy");
                    let cands: Vec<Sy> = (0..n as i64 + 2).filter_map(|i| Sy::from_i64(min - 1 + i)).collect();
                    run!(rep, case, contract_dec::<_, P>(&name, &model).map(|_| 1));
                    run!(rep, case, contract_enc::<_, P>(&name, &model, &cands).map(|_| 1));
                }
                "c03" | "c10" | "c20" => {
                    run!(rep, case, exp.chk_dec::<_, P>(&name, &model));
                    if hint == Hint::Exact || mode == "c20" { run!(rep, case, exp.chk_enc::<_, P>(&name, &model)); if mode == "c20" { run!(rep, case, exp.chk_iter::<_, P>(&name, &model)); } }
                }
                "c09" => { if hint == Hint::Exact { run!(rep, case, exp.chk_enc::<_, P>(&name, &model)); } }
                "c05" => {
                    if hint != Hint::Exact && hint != Hint::Reversed { continue; }
                    run!(rep, case, exp.chk_iter::<_, P>(&format!("{} symbol_table", name), &model));
                    run!(rep, case, exp.chk_enc::<_, P>(&format!("&{}", name), &&model)); run!(rep, case, exp.chk_dec::<_, P>(&format!("&{}", name), &&model));
                    match guarded(|| (model.to_generic_encoder_model(), model.to_generic_decoder_model())) {
                        Ok((ge, gd)) => { run!(rep, case, exp.chk_enc::<_, P>(&format!("{}.to_generic_encoder_model()", name), &ge)); run!(rep, case, exp.chk_dec::<_, P>(&format!("{}.to_generic_decoder_model()", name), &gd)); run!(rep, case, exp.chk_iter::<_, P>(&format!("{}.to_generic_decoder_model()", name), &gd)); }
                        Err(msg) => rep.mismatch(case, format!("{}: panic converting to generic models: {}", name, msg)),
                    }
                }
                _ => {}
            }
        }
    }
}

pub fn leaky_case<Pr, const P: usize>(case: &Value, mode: &str, rep: &mut Report)
where Pr: VInt + Into<f64>, f64: AsPrimitive<Pr>, i8: AsPrimitive<Pr>, u8: AsPrimitive<Pr>, i16: AsPrimitive<Pr>, u16: AsPrimitive<Pr>, i32: AsPrimitive<Pr>, u32: AsPrimitive<Pr> {
    let k: Vec<u64> = case["K"].as_array().unwrap().iter().map(|x| x.as_u64().unwrap()).collect();
    let m = case["m"].as_u64().unwrap() as u32;
    let n = case["n"].as_u64().unwrap() as usize;
    let accept = case["accept"].as_bool().unwrap();
    let rows = rows_of(&case["table"]);
    let nn = n as i64 - 1;
    let hints: &[Hint] = &HINTS;
    if n == 1 {
        // single-symbol and empty supports: documented to panic; whatever is built instead must not be a degenerate model
        rep.class("leaky_single_symbol_support");
        if mode == "c19" || mode == "c20" {
            for (lo, hi) in [(5i32, 5i32), (-3, -3), (0, 0), (5, 4), (0, -1)] {
                match guarded(|| LeakyQuantizer::<f64, i32, Pr, P>::new(lo..=hi)) {
                    Err(msg) => { if mode == "c20" && is_ub_panic(&msg) { rep.mismatch(case, format!("LeakyQuantizer::new({}..={}): {}", lo, hi, msg)); } }
                    Ok(q) => {
                        rep.class("leaky_invalid_support_accepted");
                        let model = q.quantize(probability::distribution::Gaussian::new(lo as f64, 2.0));
                        run!(rep, case, contract_dec::<_, P>(&format!("LeakyQuantizer::<f64, i32, _, {}>::new({}..={}) (a support of {} symbols, documented to panic).quantize(Gaussian)", P, lo, hi, hi - lo + 1), &model).map(|_| 1));
                    }
                }
            }
        }
    }
    if case["sparse"].as_bool().unwrap_or(false) {
        rep.class("leaky_big_support");
        leaky_sym::<Pr, i8, P>(case, mode, rep, &k, m, n, accept, &rows, &[-128, -100, 127 - nn], hints);
        leaky_sym::<Pr, u8, P>(case, mode, rep, &k, m, n, accept, &rows, &[0, 255 - nn], hints);
        leaky_sym::<Pr, i16, P>(case, mode, rep, &k, m, n, accept, &rows, &[-32768, -150, 32767 - nn], hints);
        leaky_sym::<Pr, u16, P>(case, mode, rep, &k, m, n, accept, &rows, &[0, 65535 - nn], &hints[..8]);
        return;
    }
    leaky_sym::<Pr, i8, P>(case, mode, rep, &k, m, n, accept, &rows, &[-128, -3, 127 - nn], hints);
    leaky_sym::<Pr, u8, P>(case, mode, rep, &k, m, n, accept, &rows, &[0, 100, 255 - nn], hints);
    leaky_sym::<Pr, i16, P>(case, mode, rep, &k, m, n, accept, &rows, &[-32768, -1, 32767 - nn], &hints[..8]);
    leaky_sym::<Pr, u16, P>(case, mode, rep, &k, m, n, accept, &rows, &[0, 65535 - nn], &hints[..8]);
    leaky_sym::<Pr, i32, P>(case, mode, rep, &k, m, n, accept, &rows, &[i32::MIN as i64, -7, i32::MAX as i64 - nn], &hints[..8]);
    leaky_sym::<Pr, u32, P>(case, mode, rep, &k, m, n, accept, &rows, &[0, u32::MAX as i64 - nn], &hints[..8]);
}

// ---------------------------------------------------------------------------------------------
// kind "diag": information-theoretic diagnostics on dyadic models (exact rationals from the spec)
// ---------------------------------------------------------------------------------------------
pub fn diag_case<Pr, const P: usize>(case: &Value, _mode: &str, rep: &mut Report)
where Pr: VInt + Into<usize> + AsPrimitive<usize> + Into<f64> + Into<f32>, usize: AsPrimitive<Pr>, f64: AsPrimitive<Pr> + From<Pr>, f32: From<Pr> {
    let probs: Vec<u64> = case["probs"].as_array().unwrap().iter().map(|x| x.as_u64().unwrap()).collect();
    let n = probs.len();
    let den = (1u64 << P) as f64;
    let r = guarded(|| {
        let mut out: Vec<String> = vec![]; let mut checks = 0u64;
        let pv: Vec<Pr> = probs.iter().map(|x| Pr::from_u128_trunc(*x as u128)).collect();
        let m = CC::<Pr, P>::from_nonzero_fixed_point_probabilities(pv.iter(), false).expect("dyadic table is valid");
        let close = |got: f64, want: f64, tol: f64| (got - want).abs() <= tol * (1.0 + want.abs());
        macro_rules! chk { ($name:expr, $got:expr, $want:expr, $tol:expr) => {{ checks += 1; let g: f64 = $got; let w: f64 = $want; if !close(g, w, $tol) { out.push(format!("{} = {}, textbook value on the exact fixed-point probabilities = {}", $name, g, w)); } }} }
        let h = case["entropy_num"].as_i64().unwrap() as f64 / den;
        chk!("entropy_base2::<f64>", m.entropy_base2::<f64>(), h, 1e-12);
        chk!("entropy_base2::<f32>", m.entropy_base2::<f32>() as f64, h, 1e-5);
        chk!("as_view().entropy_base2::<f64>", m.as_view().entropy_base2::<f64>(), h, 1e-12);
        chk!("NonContiguousCategoricalEncoderModel::entropy_base2", m.to_generic_encoder_model().entropy_base2::<f64>(), h, 1e-12);
        chk!("to_generic_decoder_model().entropy_base2", m.to_generic_decoder_model().entropy_base2::<f64>(), h, 1e-12);
        // floating point views of the probabilities
        let fps: Vec<(usize, f64, f64)> = m.floating_point_symbol_table::<f64>().collect();
        let mut acc = 0u64;
        for (i, p) in probs.iter().enumerate() {
            checks += 2;
            if fps[i].0 != i || !close(fps[i].1, acc as f64 / den, 1e-15) || !close(fps[i].2, *p as f64 / den, 1e-15) { out.push(format!("floating_point_symbol_table entry {} = {:?}, exact ({}, {})", i, fps[i], acc as f64 / den, *p as f64 / den)); }
            let fp: f64 = m.floating_point_probability(i); let fp32: f32 = m.floating_point_probability(i);
            if !close(fp, *p as f64 / den, 1e-15) || !close(fp32 as f64, *p as f64 / den, 1e-6) { out.push(format!("floating_point_probability({}) = {} / {}, exact {}", i, fp, fp32, *p as f64 / den)); }
            acc += p;
        }
        if fps.len() != n { out.push(format!("floating_point_symbol_table has {} entries for {} symbols", fps.len(), n)); }
        for rf in case["refs"].as_array().unwrap() {
            let q: Vec<f64> = rf["q"].as_array().unwrap().iter().map(|x| x.as_u64().unwrap() as f64 / 4.0).collect();
            let q32: Vec<f32> = q.iter().map(|x| *x as f32).collect();
            chk!(format!("cross_entropy_base2({:?})", q), m.cross_entropy_base2::<f64>(q.iter().cloned()), rf["cross_num"].as_i64().unwrap() as f64 / 4.0, 1e-12);
            chk!(format!("cross_entropy_base2::<f32>({:?})", q), m.cross_entropy_base2::<f32>(q32.iter().cloned()) as f64, rf["cross_num"].as_i64().unwrap() as f64 / 4.0, 1e-5);
            chk!(format!("kl_divergence_base2({:?})", q), m.kl_divergence_base2::<f64>(q.iter().cloned()), rf["kl_num"].as_i64().unwrap() as f64 / 4.0, 1e-12);
            chk!(format!("kl_divergence_base2::<f32>({:?})", q), m.kl_divergence_base2::<f32>(q32.iter().cloned()) as f64, rf["kl_num"].as_i64().unwrap() as f64 / 4.0, 1e-5);
            if rf["allpos"].as_bool().unwrap() {
                chk!(format!("reverse_cross_entropy_base2({:?})", q), m.reverse_cross_entropy_base2::<f64>(q.iter().cloned()), rf["rcross_num"].as_i64().unwrap() as f64 / den, 1e-12);
                chk!(format!("reverse_kl_divergence_base2({:?})", q), m.reverse_kl_divergence_base2::<f64>(q.iter().cloned()), rf["rkl_num"].as_i64().unwrap() as f64 / den, 1e-12);
                chk!(format!("reverse_kl_divergence_base2::<f32>({:?})", q), m.reverse_kl_divergence_base2::<f32>(q32.iter().cloned()) as f64, rf["rkl_num"].as_i64().unwrap() as f64 / den, 1e-5);
                chk!(format!("reverse_cross_entropy_base2::<f32>({:?})", q), m.reverse_cross_entropy_base2::<f32>(q32.iter().cloned()) as f64, rf["rcross_num"].as_i64().unwrap() as f64 / den, 1e-5);
            } else { rep_zero_ref(); }
        }
        // the same diagnostics on every other iterable representation of the model (several of them override the defaults)
        macro_rules! diag_repr { ($name:expr, $m:expr) => {{
            let m2 = $m; let nm: &str = $name;
            chk!(format!("{}::entropy_base2::<f64>", nm), m2.entropy_base2::<f64>(), h, 1e-12);
            chk!(format!("{}::entropy_base2::<f32>", nm), m2.entropy_base2::<f32>() as f64, h, 1e-5);
            let t64: Vec<(f64, f64)> = m2.floating_point_symbol_table::<f64>().map(|(_, c, p)| (c, p)).collect();
            let t32: Vec<(f32, f32)> = m2.floating_point_symbol_table::<f32>().map(|(_, c, p)| (c, p)).collect();
            if t64.len() != n || t32.len() != n { out.push(format!("{}::floating_point_symbol_table has {} / {} entries for {} symbols", nm, t64.len(), t32.len(), n)); }
            let mut acc = 0u64;
            for (i, p) in probs.iter().enumerate() { if i < t64.len() && i < t32.len() { checks += 2;
                if !close(t64[i].0, acc as f64 / den, 1e-15) || !close(t64[i].1, *p as f64 / den, 1e-15) { out.push(format!("{}::floating_point_symbol_table::<f64> entry {} = {:?}, exact ({}, {})", nm, i, t64[i], acc as f64 / den, *p as f64 / den)); }
                if !close(t32[i].0 as f64, acc as f64 / den, 1e-6) || !close(t32[i].1 as f64, *p as f64 / den, 1e-6) { out.push(format!("{}::floating_point_symbol_table::<f32> entry {} = {:?}, exact ({}, {})", nm, i, t32[i], acc as f64 / den, *p as f64 / den)); } }
                acc += p; }
            for rf in case["refs"].as_array().unwrap() {
                let q: Vec<f64> = rf["q"].as_array().unwrap().iter().map(|x| x.as_u64().unwrap() as f64 / 4.0).collect();
                chk!(format!("{}::cross_entropy_base2({:?})", nm, q), m2.cross_entropy_base2::<f64>(q.iter().cloned()), rf["cross_num"].as_i64().unwrap() as f64 / 4.0, 1e-12);
                chk!(format!("{}::kl_divergence_base2({:?})", nm, q), m2.kl_divergence_base2::<f64>(q.iter().cloned()), rf["kl_num"].as_i64().unwrap() as f64 / 4.0, 1e-12);
                if rf["allpos"].as_bool().unwrap() {
                    chk!(format!("{}::reverse_cross_entropy_base2({:?})", nm, q), m2.reverse_cross_entropy_base2::<f64>(q.iter().cloned()), rf["rcross_num"].as_i64().unwrap() as f64 / den, 1e-12);
                    chk!(format!("{}::reverse_kl_divergence_base2({:?})", nm, q), m2.reverse_kl_divergence_base2::<f64>(q.iter().cloned()), rf["rkl_num"].as_i64().unwrap() as f64 / den, 1e-12);
                }
            }
        }} }
        let syms: Vec<i32> = (0..n as i32).collect();
        diag_repr!("NonContiguousCategoricalDecoderModel", ND::<i32, Pr, P>::from_symbols_and_nonzero_fixed_point_probabilities(syms.iter().cloned(), pv.iter(), false).expect("valid table"));
        diag_repr!("ContiguousCategoricalEntropyModel::as_view", m.as_view());
        diag_repr!("to_generic_decoder_model", m.to_generic_decoder_model());
        if P <= 12 {
            diag_repr!("ContiguousLookupDecoderModel", CL::<Pr, P>::from_nonzero_fixed_point_probabilities(pv.iter(), false).expect("valid table"));
            diag_repr!("NonContiguousLookupDecoderModel", NL::<i32, Pr, P>::from_symbols_and_nonzero_fixed_point_probabilities(syms.iter().cloned(), pv.iter(), false).expect("valid table"));
        }
        // a uniform model with a power-of-two range is dyadic too
        if probs.iter().all(|p| *p == probs[0]) { let u = UniformModel::<Pr, P>::new(n); chk!("UniformModel::entropy_base2", u.entropy_base2::<f64>(), h, 1e-12); }
        (out, checks)
    });
    fn rep_zero_ref() {}
    rep.class("diag_model");
    if P == Pr::nbits() as usize { rep.class("diag_full_precision"); }
    match r { Ok((out, checks)) => { rep.checks += checks; for d in out.into_iter().take(4) { rep.mismatch(case, d); } } Err(m) => rep.mismatch(case, format!("panic in diagnostics: {}", m)) }
}

// ---------------------------------------------------------------------------------------------
// kind "floatclass": float constructors on weights of every class (negative, NaN, infinite, zero, tiny, huge)
// ---------------------------------------------------------------------------------------------
fn class_val(c: u64) -> f64 { match c { 0 => 0.0, 1 => 1.0, 2 => 1e-30, 3 => 1e30, 4 => -1.0, 5 => f64::NAN, 6 => f64::INFINITY, _ => 3.0 } }

pub fn floatclass_f<Pr, F, const P: usize>(case: &Value, mode: &str, rep: &mut Report, fname: &str)
where Pr: VInt + Into<usize> + AsPrimitive<usize> + Into<f64> + AsPrimitive<F>, usize: AsPrimitive<Pr> + AsPrimitive<F>, f64: AsPrimitive<Pr> + AsPrimitive<F>,
      F: num_traits::float::FloatCore + core::iter::Sum<F> + AsPrimitive<Pr> + Into<f64> + Debug + 'static {
    let classes: Vec<u64> = case["classes"].as_array().unwrap().iter().map(|x| x.as_u64().unwrap()).collect();
    let must_reject = case["must_reject"].as_bool().unwrap();
    let w: Vec<F> = classes.iter().map(|c| AsPrimitive::<F>::as_(class_val(*c))).collect();
    let n = w.len();
    let syms: Vec<i32> = (0..n).map(relabel).collect();
    let cands_r: Vec<i32> = (-40..40).collect();
    rep.class(if must_reject { "float_must_reject" } else { "float_valid_input" });
    // whatever a constructor returns must satisfy the contract (C03 for valid input, C19 for invalid input);
    // a panic while USING a returned model is a violation, a refusal (Err or panic in the constructor) never is
    macro_rules! ctor { ($name:expr, $built:expr, $chk:expr) => {{ rep.checks += 1; let nm = format!("{} ({} weights {:?})", $name, fname, w); match &$built {
        Built::Panicked(msg) => { rep.class("ctor_panicked"); if mode == "c20" && is_ub_panic(msg) { rep.mismatch(case, format!("{}: {}", nm, msg)); } }
        Built::Refused => { rep.class("ctor_refused"); }
        Built::Model(m) => { rep.class("ctor_ok"); if (must_reject && mode == "c19") || (!must_reject && mode == "c03") || mode == "c20" { run!(rep, case, $chk(&nm, m).map(|_| 1)); } } } }} }
    let total: F = w.iter().copied().sum();
    // normalisations: none, the exact sum, and - for tables with an invalid entry (NaN, negative, infinite), whose exact sum is not
    // a usable normalisation - the sum of the valid entries and 1: the invalid ENTRY must still be refused (C19: any input)
    let valid_sum: F = w.iter().copied().filter(|x| x.is_finite() && *x >= F::zero()).sum();
    let has_invalid_entry = w.iter().any(|x| !(x.is_finite() && *x >= F::zero()));
    let mut norms = vec![None, Some(total)];
    if has_invalid_entry { norms.push(Some(valid_sum)); norms.push(Some(F::one())); rep.class("float_invalid_entry_with_explicit_normalization"); }
    for norm in norms {
        if norm == Some(total) && must_reject { continue; }  // (the exact sum of an invalid table is NaN / infinite / not positive: covered by None)
        ctor!("ContiguousCategoricalEntropyModel::from_floating_point_probabilities_fast", build(|| CC::<Pr, P>::from_floating_point_probabilities_fast(&w, norm)), |nm: &str, m: &CC<Pr, P>| contract_dec::<_, P>(nm, m).and_then(|_| contract_enc::<_, P>(nm, m, &(0..n + 2).collect::<Vec<usize>>())));
        ctor!("LazyContiguousCategoricalEntropyModel::from_floating_point_probabilities_fast", build(|| LZ::<Pr, F, P>::from_floating_point_probabilities_fast(w.clone(), norm)), |nm: &str, m: &LZ<Pr, F, P>| contract_dec::<_, P>(nm, m).and_then(|_| contract_enc::<_, P>(nm, m, &(0..n + 2).collect::<Vec<usize>>())));
        ctor!("ContiguousLookupDecoderModel::from_floating_point_probabilities_fast", build(|| CL::<Pr, P>::from_floating_point_probabilities_fast(&w, norm)), contract_dec::<CL<Pr, P>, P>);
        ctor!("NonContiguousCategoricalDecoderModel::from_symbols_and_floating_point_probabilities_fast", build(|| ND::<i32, Pr, P>::from_symbols_and_floating_point_probabilities_fast(syms.iter().cloned(), &w, norm)), contract_dec::<ND<i32, Pr, P>, P>);
        ctor!("NonContiguousCategoricalEncoderModel::from_symbols_and_floating_point_probabilities_fast", build(|| NE::<i32, Pr, P>::from_symbols_and_floating_point_probabilities_fast(syms.iter().cloned(), &w, norm)), |nm: &str, m: &NE<i32, Pr, P>| contract_enc::<_, P>(nm, m, &cands_r));
        ctor!("NonContiguousLookupDecoderModel::from_symbols_and_floating_point_probabilities_fast", build(|| NL::<i32, Pr, P>::from_symbols_and_floating_point_probabilities_fast(syms.iter().cloned(), &w, norm)), contract_dec::<NL<i32, Pr, P>, P>);
    }
    ctor!("ContiguousCategoricalEntropyModel::from_floating_point_probabilities_perfect", build(|| CC::<Pr, P>::from_floating_point_probabilities_perfect(&w)), |nm: &str, m: &CC<Pr, P>| contract_dec::<_, P>(nm, m).and_then(|_| contract_enc::<_, P>(nm, m, &(0..n + 2).collect::<Vec<usize>>())));
    ctor!("ContiguousLookupDecoderModel::from_floating_point_probabilities_perfect", build(|| CL::<Pr, P>::from_floating_point_probabilities_perfect(&w)), contract_dec::<CL<Pr, P>, P>);
    ctor!("NonContiguousCategoricalDecoderModel::from_symbols_and_floating_point_probabilities_perfect", build(|| ND::<i32, Pr, P>::from_symbols_and_floating_point_probabilities_perfect(syms.iter().cloned(), &w)), contract_dec::<ND<i32, Pr, P>, P>);
    ctor!("NonContiguousCategoricalEncoderModel::from_symbols_and_floating_point_probabilities_perfect", build(|| NE::<i32, Pr, P>::from_symbols_and_floating_point_probabilities_perfect(syms.iter().cloned(), &w)), |nm: &str, m: &NE<i32, Pr, P>| contract_enc::<_, P>(nm, m, &cands_r));
    ctor!("NonContiguousLookupDecoderModel::from_symbols_and_floating_point_probabilities_perfect", build(|| NL::<i32, Pr, P>::from_symbols_and_floating_point_probabilities_perfect(syms.iter().cloned(), &w)), contract_dec::<NL<i32, Pr, P>, P>);
}
pub fn floatclass_case<Pr, const P: usize>(case: &Value, mode: &str, rep: &mut Report)
where Pr: VInt + Into<usize> + AsPrimitive<usize> + Into<f64> + AsPrimitive<f32> + AsPrimitive<f64>, usize: AsPrimitive<Pr>, f64: AsPrimitive<Pr>, f32: AsPrimitive<Pr> {
    floatclass_f::<Pr, f64, P>(case, mode, rep, "f64");
    floatclass_f::<Pr, f32, P>(case, mode, rep, "f32");
}

// ---------------------------------------------------------------------------------------------
// kind "uniformbig": UniformModel at real probability widths (sampled ranges; symbols beyond 2^32)
// ---------------------------------------------------------------------------------------------
pub fn uniformbig_case<Pr, const P: usize>(case: &Value, _mode: &str, rep: &mut Report)
where Pr: VInt + AsPrimitive<usize>, usize: AsPrimitive<Pr> {
    let b = Pr::nbits();
    for c in case["cases"].as_array().unwrap() {
        let n = c["n"].as_u64().unwrap() as usize; let ppb = c["ppb"].as_u64().unwrap(); let last = c["last"].as_u64().unwrap();
        let name = format!("UniformModel::<u{}, {}>::new({})", b, P, n);
        let r = guarded(|| {
            let m = UniformModel::<Pr, P>::new(n);
            let mut out = vec![];
            let row = |s: usize| -> (u64, u64) { (s as u64 * ppb, if s + 1 == n { last } else { ppb }) };
            let mut syms: Vec<usize> = vec![0, 1, n / 2, n.saturating_sub(2), n - 1]; syms.sort(); syms.dedup();
            for &s in syms.iter().filter(|s| **s < n) {
                match m.left_cumulative_and_probability(s) { Some((c, p)) => if (c.to_u128() as u64, nz::<Pr>(p)) != row(s) { out.push(format!("{}: symbol {} -> ({}, {}), spec {:?}", name, s, c.to_u128(), nz::<Pr>(p), row(s))); }, None => out.push(format!("{}: symbol {} of the support reported impossible", name, s)) }
                for q in [row(s).0, row(s).0 + row(s).1 - 1] { let (ds, dc, dp) = m.quantile_function(Pr::from_u128_trunc(q as u128)); if (ds, dc.to_u128() as u64, nz::<Pr>(dp)) != (s, row(s).0, row(s).1) { out.push(format!("{}: quantile_function({}) = ({}, {}, {}), spec ({}, {:?})", name, q, ds, dc.to_u128(), nz::<Pr>(dp), s, row(s))); } }
            }
            // out-of-support symbols, in particular values that alias an in-support symbol after narrowing to Probability
            let mut outside: Vec<usize> = vec![n, n + 1, usize::MAX, usize::MAX - 1, 1usize << 40, (1usize << 63) + 1];
            for k in [0usize, 1, n / 2, n - 1] { for sh in [b as usize, b as usize + 1, 32, 33, 48] { if sh < 64 { outside.push((1usize << sh) + k); outside.push((3usize << sh.min(61)) + k); } } }
            for s in outside.into_iter().filter(|s| *s >= n) { if let Some((c, p)) = m.left_cumulative_and_probability(s) { out.push(format!("{}: symbol {} outside the support got ({}, {}) instead of None", name, s, c.to_u128(), nz::<Pr>(p))); } }
            out
        });
        rep.checks += 1; rep.class("uniform_big");
        match r { Ok(out) => for d in out.into_iter().take(3) { rep.mismatch(case, d); }, Err(m) => rep.mismatch(case, format!("{}: panic: {}", name, m)) }
    }
}
