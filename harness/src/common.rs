//! Shared infrastructure: panic capture, watchdog, result collection.
use serde_json::{json, Value};
use std::cell::RefCell;
use std::panic::{catch_unwind, AssertUnwindSafe};
use std::sync::atomic::{AtomicU64, Ordering};
use std::sync::Mutex;

thread_local! { static LAST_PANIC: RefCell<Option<String>> = RefCell::new(None); }
thread_local! { pub static THREAD_CASE: RefCell<(usize, String)> = RefCell::new((usize::MAX, String::new())); }
pub static ABORT_FILE: Mutex<String> = Mutex::new(String::new());
pub static HEARTBEAT: AtomicU64 = AtomicU64::new(0);
pub static CURRENT: Mutex<String> = Mutex::new(String::new());

pub fn install_panic_hook() {
    std::panic::set_hook(Box::new(|info| {
        let msg = if let Some(s) = info.payload().downcast_ref::<&str>() { s.to_string() }
            else if let Some(s) = info.payload().downcast_ref::<String>() { s.clone() }
            else { "<non-string panic>".to_string() };
        let loc = info.location().map(|l| format!("{}:{}", l.file(), l.line())).unwrap_or_default();
        if msg.contains("unsafe precondition") || msg.contains("cannot unwind") || msg.contains("during cleanup") || msg.contains("panic in a destructor") {
            // a non-unwinding panic (violated unsafe precondition, panic in a destructor during unwinding, ...)
            // aborts the process: record which case did it so that the orchestrator can report it and go on.
            let (idx, case) = THREAD_CASE.with(|c| c.borrow().clone());
            let path = ABORT_FILE.lock().map(|p| p.clone()).unwrap_or_default();
            if !path.is_empty() {
                let v = serde_json::json!({"index": idx, "case": serde_json::from_str::<Value>(&case).unwrap_or(Value::String(case)), "message": format!("{} @ {}", msg, loc)});
                let _ = std::fs::write(&path, serde_json::to_string(&v).unwrap());
            }
            eprintln!("ABORT in case {}: {} @ {}", idx, msg, loc);
            // the verification-only integer types report the same violation by an ordinary (unwinding) panic: keep the message
            LAST_PANIC.with(|p| *p.borrow_mut() = Some(format!("{} @ {}", msg, loc)));
            return;
        }
        LAST_PANIC.with(|p| *p.borrow_mut() = Some(format!("{} @ {}", msg, loc)));
    }));
}

/// Runs `f`, turning a panic into `Err(message)`. A panic in the code under test is data.
pub fn guarded<T>(f: impl FnOnce() -> T) -> Result<T, String> {
    match catch_unwind(AssertUnwindSafe(f)) {
        Ok(v) => Ok(v),
        Err(_) => Err(LAST_PANIC.with(|p| p.borrow_mut().take()).unwrap_or_else(|| "panic".into())),
    }
}

/// Panic messages that indicate arithmetic only correct when wrapping, or a violated
/// unsafe precondition (C20): these are violations even where a panic would be acceptable.
pub fn is_ub_panic(msg: &str) -> bool {
    msg.contains("unsafe precondition") || msg.contains("with overflow") || msg.contains("attempt to")
        || msg.contains("unreachable") && msg.contains("unchecked")
        || msg.contains("out of range for slice") && msg.contains("unchecked")
}

pub fn set_thread_case(idx: usize, case: &str) { THREAD_CASE.with(|c| { let mut c = c.borrow_mut(); c.0 = idx; c.1.clear(); c.1.push_str(case); }); }
pub fn beat(case: &str) {
    HEARTBEAT.fetch_add(1, Ordering::Relaxed);
    if let Ok(mut c) = CURRENT.lock() { c.clear(); c.push_str(case); }
}
pub fn tick() { HEARTBEAT.fetch_add(1, Ordering::Relaxed); }

#[derive(Default)]
pub struct Report {
    pub cases: u64,
    pub checks: u64,
    pub mismatches: Vec<Value>,
    pub n_mismatch: u64,
    pub classes: std::collections::BTreeMap<String, u64>,
    pub samples: Vec<Value>,
    pub extra: serde_json::Map<String, Value>,
}
impl Report {
    pub fn class(&mut self, c: &str) { *self.classes.entry(c.to_string()).or_insert(0) += 1; }
    pub fn mismatch(&mut self, case: &Value, detail: String) {
        self.n_mismatch += 1;
        if self.mismatches.len() < 40 { self.mismatches.push(json!({"case": case, "detail": detail})); }
    }
    pub fn sample(&mut self, v: Value) { if self.samples.len() < 5 { self.samples.push(v); } }
    pub fn merge(&mut self, o: Report) {
        self.cases += o.cases; self.checks += o.checks; self.n_mismatch += o.n_mismatch;
        for m in o.mismatches { if self.mismatches.len() < 40 { self.mismatches.push(m); } }
        for (k, v) in o.classes { *self.classes.entry(k).or_insert(0) += v; }
        for s in o.samples { if self.samples.len() < 5 { self.samples.push(s); } }
        for (k, v) in o.extra { self.extra.insert(k, v); }
    }
    pub fn to_json(&self) -> Value {
        json!({"cases": self.cases, "checks": self.checks, "n_mismatch": self.n_mismatch,
               "mismatches": self.mismatches, "classes": self.classes, "samples": self.samples, "extra": self.extra})
    }
}

/// Runs `work` on a big-stack thread under a watchdog: if no heartbeat is observed for
/// `stall_s` seconds the current case is reported as a hang ("loops") and the process exits.
pub fn run_with_watchdog(out: &str, stall_s: u64, work: impl FnOnce() -> Report + Send + 'static) {
    let out_path = out.to_string();
    let (tx, rx) = std::sync::mpsc::channel();
    std::thread::Builder::new().stack_size(256 << 20).spawn(move || { match guarded(work) { Ok(r) => { let _ = tx.send(r); } Err(m) => {
            // drivers only perform valid operations: a panic that escapes is a panic of the code under test
            let mut r = Report::default();
            let ctx = THREAD_CASE.with(|c| c.borrow().1.clone());
            let case: Value = serde_json::from_str(&ctx).unwrap_or(json!({"k": "driver", "args": std::env::args().collect::<Vec<_>>()}));
            r.mismatch(&json!({"k": "driver_panic", "args": std::env::args().collect::<Vec<_>>(), "context": case}), format!("panic in a library call made by the driver: {}", m));
            let _ = tx.send(r); } } }).unwrap();
    let mut last = HEARTBEAT.load(Ordering::Relaxed);
    let mut idle = 0u64;
    loop {
        match rx.recv_timeout(std::time::Duration::from_millis(250)) {
            Ok(r) => { std::fs::write(&out_path, serde_json::to_string(&r.to_json()).unwrap()).unwrap(); return; }
            Err(std::sync::mpsc::RecvTimeoutError::Timeout) => {
                let now = HEARTBEAT.load(Ordering::Relaxed);
                if now != last { last = now; idle = 0; } else { idle += 1; }
                if idle * 250 >= stall_s * 1000 {
                    let cur = CURRENT.lock().map(|c| c.clone()).unwrap_or_default();
                    let case: Value = serde_json::from_str(&cur).unwrap_or(Value::String(cur));
                    let v = json!({"cases": last, "checks": 0, "n_mismatch": 1, "hang": true,
                        "mismatches": [{"case": case, "detail": format!("call did not return within {} s (loops)", stall_s)}],
                        "classes": {}, "samples": [], "extra": {}});
                    std::fs::write(&out_path, serde_json::to_string(&v).unwrap()).unwrap();
                    std::process::exit(0);
                }
            }
            Err(_) => { eprintln!("worker thread died"); std::process::exit(2); }
        }
    }
}

pub fn u128_of(v: &Value) -> u128 {
    if let Some(u) = v.as_u64() { u as u128 }
    else if let Some(s) = v.as_str() { s.parse::<u128>().expect("u128 string") }
    else { panic!("not a number: {}", v) }
}
pub fn vec_u128(v: &Value) -> Vec<u128> { v.as_array().map(|a| a.iter().map(u128_of).collect()).unwrap_or_default() }
pub fn to_val(v: u128) -> Value { if v <= u64::MAX as u128 { json!(v as u64) } else { json!(v.to_string()) } }
pub fn vals(v: &[u128]) -> Value { Value::Array(v.iter().map(|x| to_val(*x)).collect()) }
