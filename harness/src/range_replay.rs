//! Replay of TLC-emitted `range_hist` cases (one message = one history of the range encoder).
use crate::common::*;
use crate::range::*;
use serde_json::Value;

fn slot_cdf(prec: usize, c: u64, p: u64) -> [u64; 4] { [0, c, c + p, 1u64 << prec] }
fn rows(v: &Value) -> Vec<Vec<u64>> { v.as_array().map(|a| a.iter().map(|r| r.as_array().unwrap().iter().map(|x| x.as_u64().unwrap()).collect()).collect()).unwrap_or_default() }

/// all word sequences of length <= n over w-bit words (tiny widths only)
fn all_suffixes(w: u32, n: usize) -> Vec<Vec<u128>> {
    let mut out = vec![vec![]];
    let mut cur: Vec<Vec<u128>> = vec![vec![]];
    for _ in 0..n {
        let mut next = vec![];
        for s in &cur { for x in 0..(1u128 << w) { let mut t = s.clone(); t.push(x); next.push(t); } }
        out.extend(next.iter().cloned());
        cur = next;
    }
    out
}

pub fn range_hist(case: &Value, mode: &str, rep: &mut Report) {
    let w = case["W"].as_u64().unwrap() as u32;
    let s = case["S"].as_u64().unwrap() as u32;
    let nw = (s / w) as usize;
    let hist = rows(&case["hist"]);
    let n = hist.len();
    let bad = |rep: &mut Report, d: String| rep.mismatch(case, d);
    macro_rules! g { ($what:expr, $e:expr) => { match guarded(|| $e) { Ok(v) => v, Err(m) => { bad(rep, format!("panic in {}: {}", $what, m)); return; } } } }
    if let Some(cl) = case["classes"].as_array() { for c in cl { rep.class(c.as_str().unwrap()); } }
    if let Some(c) = case["sealclass"].as_str() { rep.class(c); }

    // encode the message on a fresh encoder through the public API, remembering every prefix
    let mut enc = g!("RangeEncoder::new", renc_new(w, s));
    let mut prefixes: Vec<Box<dyn REncDyn>> = vec![enc.clone_box()];
    for h in &hist {
        let r = g!("encode_symbol", enc.enc(h[0] as usize, &slot_cdf(h[0] as usize, h[1], h[2]), 1));
        if let Err(e) = r { bad(rep, format!("encode_symbol {:?} failed: {}", h, e)); return; }
        prefixes.push(enc.clone_box());
    }
    let decode_all = |words: &[u128], rep: &mut Report, what: &str| -> Option<Box<dyn RDecDyn>> {
        let mut d = match guarded(|| rdec_from_compressed(w, s, words)) { Ok(d) => d, Err(m) => { rep.mismatch(case, format!("{}: panic constructing decoder: {}", what, m)); return None; } };
        for (i, h) in hist.iter().enumerate() {
            rep.checks += 1;
            match guarded(|| d.dec(h[0] as usize, &slot_cdf(h[0] as usize, h[1], h[2]))) {
                Ok(Ok(1)) => {}
                Ok(r) => { rep.mismatch(case, format!("{}: words {:?}: symbol {} decoded as {:?}, expected Ok(1) (slot {:?})", what, words, i, r, h)); return None; }
                Err(m) => { rep.mismatch(case, format!("{}: words {:?}: panic decoding symbol {}: {}", what, words, i, m)); return None; }
            }
        }
        Some(d)
    };

    match mode {
        "c02" => {
            let words = g!("into_compressed", enc.clone_box().into_compressed());
            if n == 0 && !words.is_empty() { bad(rep, format!("empty message sealed to {:?}", words)); }
            if let Some(d) = decode_all(&words, rep, "round trip") {
                rep.checks += 1;
                if !g!("maybe_exhausted", d.maybe_exhausted()) { bad(rep, format!("decoder over {:?} not maybe_exhausted after the last symbol", words)); }
            }
            // the same message with temporary views taken (and dropped) between the symbols still seals to a stream that decodes
            { let mut a = g!("new", renc_new(w, s));
              for h in &hist { let _ = g!("get_compressed", a.get_compressed()); let _ = g!("encode_symbol", a.enc(h[0] as usize, &slot_cdf(h[0] as usize, h[1], h[2]), 1)); let _ = g!("get_compressed", a.get_compressed()); }
              let w2 = g!("into_compressed", a.into_compressed());
              if decode_all(&w2, rep, "round trip with temporary views between symbols").is_none() { return; } }
            // clear() gives back a fresh encoder, whatever situation the encoder was in (also with words held back)
            { let mut a = enc.clone_box(); g!("clear", a.clear());
              rep.checks += 1;
              if !g!("is_empty", a.is_empty()) { bad(rep, "encoder not empty after clear()".into()); }
              for h in &hist { let _ = g!("encode_symbol", a.enc(h[0] as usize, &slot_cdf(h[0] as usize, h[1], h[2]), 1)); }
              let w3 = g!("into_compressed", a.into_compressed());
              if w3 != words { if enc.raw().sit_n > 0 { rep.class("clear_while_inverted"); } bad(rep, format!("after clear() (encoder was in situation {:?}) the same message seals to {:?} instead of {:?}", (enc.raw().sit_n, enc.raw().sit_w), w3, words)); return; }
              if enc.raw().sit_n > 0 { rep.class("clear_while_inverted"); } }
            // into_decoder is the same thing
            let mut d2 = g!("into_decoder", enc.clone_box().into_decoder());
            for (i, h) in hist.iter().enumerate() {
                let r = g!("decode_symbol", d2.dec(h[0] as usize, &slot_cdf(h[0] as usize, h[1], h[2])));
                if r != Ok(1) { bad(rep, format!("into_decoder: symbol {} decoded as {:?}", i, r)); break; }
            }
            // batch forms equal the per-symbol loop (iid form only applies to constant models)
            if n > 0 && hist.iter().all(|h| h[0] == hist[0][0]) {
                let prec = hist[0][0] as usize;
                let items: Vec<(usize, Vec<u64>)> = hist.iter().map(|h| (1usize, slot_cdf(prec, h[1], h[2]).to_vec())).collect();
                let mut e2 = g!("new", renc_new(w, s));
                let r = g!("encode_symbols", e2.enc_symbols(prec, &items));
                rep.checks += 1;
                if r.is_err() || e2.raw() != enc.raw() { bad(rep, format!("encode_symbols differs from the per-symbol loop: {:?} vs {:?}", e2.raw(), enc.raw())); }
                let tabs: Vec<Vec<u64>> = items.iter().map(|x| x.1.clone()).collect();
                let mut d3 = g!("from_compressed", rdec_from_compressed(w, s, &words));
                let got = g!("decode_symbols", d3.dec_symbols(prec, &tabs));
                if got.iter().any(|r| r != &Ok(1)) { bad(rep, format!("decode_symbols returned {:?}", got)); }
                if hist.iter().all(|h| h == &hist[0]) {
                    let mut e3 = g!("new", renc_new(w, s));
                    let r = g!("encode_iid_symbols", e3.enc_iid(prec, &items[0].1, &vec![1usize; n]));
                    if r.is_err() || e3.raw() != enc.raw() { bad(rep, "encode_iid_symbols differs from the per-symbol loop".into()); }
                    let mut d4 = g!("from_compressed", rdec_from_compressed(w, s, &words));
                    let got = g!("decode_iid_symbols", d4.dec_iid(prec, &items[0].1, n));
                    if got.iter().any(|r| r != &Ok(1)) || got.len() != n { bad(rep, format!("decode_iid_symbols returned {:?}", got)); }
                    rep.class("iid_batch");
                }
            }
        }
        "c06" => {
            let e = &case["enc"];
            let exp = EncRaw { bulk: vec_u128(&case["bulk"]), lower: u128_of(&e[0]), range: u128_of(&e[1]), sit_n: e[2].as_u64().unwrap() as usize, sit_w: u128_of(&e[3]) };
            let got = enc.raw();
            rep.checks += 1;
            let same = got.bulk == exp.bulk && got.lower == exp.lower && got.range == exp.range && got.sit_n == exp.sit_n && (exp.sit_n == 0 || got.sit_w == exp.sit_w);
            if !same { bad(rep, format!("encoder state after the message: impl {:?}, spec {:?}", got, exp)); return; }
            let sealed = vec_u128(&case["sealed"]);
            let words = g!("into_compressed", enc.clone_box().into_compressed());
            rep.checks += 1;
            if words != sealed { bad(rep, format!("into_compressed = {:?}, spec Sealed = {:?}", words, sealed)); return; }
            // the encoder can also be put into this state directly
            let e2 = g!("from_raw_parts", renc_from_raw(w, s, &exp));
            if g!("into_compressed", e2.into_compressed()) != sealed { bad(rep, "from_raw_parts(spec state).into_compressed() differs from spec Sealed".into()); }
            // decoder: every intermediate state
            let dstates = rows(&case["dec"]);
            let mut d = g!("from_compressed", rdec_from_compressed(w, s, &sealed));
            for i in 0..=n {
                let r = d.raw(); let x = &dstates[i];
                rep.checks += 1;
                if (r.lower, r.range, r.point, r.pos) != (x[0] as u128, x[1] as u128, x[2] as u128, x[3] as usize) { bad(rep, format!("decoder state after {} symbols: impl {:?}, spec {:?}", i, r, x)); break; }
                if i < n { let h = &hist[i]; let sym = g!("decode_symbol", d.dec(h[0] as usize, &slot_cdf(h[0] as usize, h[1], h[2]))); if sym != Ok(1) { bad(rep, format!("decode symbol {}: {:?}", i, sym)); break; } }
            }
        }
        "c07" => {
            // the same message on the ANS (stack) coder: decoders over borrowed, owned, consuming and reversed backends
            crate::ans_seek::seek_case(case, w, s, &hist, rep);
            // snapshots at every symbol boundary, taken from the encoder while encoding
            let snaps: Vec<(usize, u128, u128)> = prefixes.iter().map(|p| p.pos()).collect();
            let words = g!("into_compressed", enc.clone_box().into_compressed());
            let mut d = g!("from_compressed", rdec_from_compressed(w, s, &words));
            // all seek orders of length <= 2 with repetition (+ decode everything after each seek)
            let mut orders: Vec<Vec<usize>> = vec![];
            for a in 0..=n { orders.push(vec![a]); for b in 0..=n { orders.push(vec![a, b]); } }
            for order in orders {
                for &k in &order {
                    let (pos, lo, ra) = snaps[k];
                    rep.checks += 1;
                    if g!("seek", d.seek(pos, lo, ra)).is_err() { bad(rep, format!("seek to snapshot {} = {:?} refused (words {:?})", k, snaps[k], words)); return; }
                    if k == n { if !g!("maybe_exhausted", d.maybe_exhausted()) { bad(rep, format!("after seeking to the final position {:?} the decoder is not maybe_exhausted", snaps[k])); } rep.class("seek_final"); }
                    if prefixes[k].raw().sit_n > 0 { rep.class("seek_snapshot_inverted"); }
                    // decode a few symbols (all of them on the last seek of the order)
                    for i in k..n {
                        let h = &hist[i];
                        let r = g!("decode_symbol", d.dec(h[0] as usize, &slot_cdf(h[0] as usize, h[1], h[2])));
                        if r != Ok(1) { bad(rep, format!("order {:?}: after seek to snapshot {} {:?}, symbol {} decoded as {:?} (words {:?})", order, k, snaps[k], i, r, words)); return; }
                    }
                }
            }
            // positions beyond the data are rejected, decoder unchanged
            let before = d.raw();
            for extra in 1..3usize {
                rep.checks += 1;
                let r = g!("seek", d.seek(words.len() + extra, snaps[0].1, snaps[0].2));
                if r.is_ok() { bad(rep, format!("seek to position {} beyond {} words accepted", words.len() + extra, words.len())); return; }
                if d.raw() != before { bad(rep, "refused seek changed the decoder".into()); return; }
            }
        }
        "c08" => {
            // inspect after every prefix; twin without inspections must end in the same state/output
            let mut a = g!("new", renc_new(w, s));
            let mut b = g!("new", renc_new(w, s));
            for i in 0..=n {
                let fin = g!("into_compressed", a.clone_box().into_compressed());
                let raw = a.raw();
                for round in 0..2 {
                    let v = g!("get_compressed", a.get_compressed());
                    rep.checks += 1;
                    if v != fin { bad(rep, format!("after {} symbols (round {}): get_compressed shows {:?}, finishing returns {:?}", i, round, v, fin)); return; }
                    if a.raw() != raw { bad(rep, format!("after {} symbols: get_compressed changed the encoder {:?} -> {:?}", i, raw, a.raw())); return; }
                    let tabs: Vec<Vec<u64>> = hist[..i].iter().map(|h| slot_cdf(h[0] as usize, h[1], h[2]).to_vec()).collect();
                    if !tabs.is_empty() && hist[..i].iter().all(|h| h[0] == hist[0][0]) {
                        let got = g!("decoder()", a.temp_decode(hist[0][0] as usize, &tabs));
                        rep.checks += 1;
                        if got.iter().any(|r| r != &Ok(1)) { bad(rep, format!("after {} symbols: temporary decoder returned {:?}", i, got)); return; }
                        if a.raw() != raw { bad(rep, format!("after {} symbols: decoder() changed the encoder {:?} -> {:?}", i, raw, a.raw())); return; }
                    }
                    let _ = (a.num_words(), a.num_bits(), a.is_empty(), a.pos());
                    let c = a.clone_box();
                    if a.raw() != raw || c.raw() != raw { bad(rep, "queries or clone changed the encoder".into()); return; }
                }
                if raw.sit_n > 0 { rep.class("inspect_while_inverted"); }
                if i < n {
                    let h = &hist[i];
                    let ra = g!("encode_symbol", a.enc(h[0] as usize, &slot_cdf(h[0] as usize, h[1], h[2]), 1));
                    let rb = g!("encode_symbol", b.enc(h[0] as usize, &slot_cdf(h[0] as usize, h[1], h[2]), 1));
                    if ra != rb || a.raw() != b.raw() { bad(rep, format!("inspected and untouched twins differ after symbol {}: {:?} vs {:?}", i, a.raw(), b.raw())); return; }
                }
            }
            if g!("into_compressed", a.into_compressed()) != g!("into_compressed", b.into_compressed()) { bad(rep, "final output differs between inspected and untouched twin".into()); }
        }
        "c09" => {
            // impossible symbols at every prefix: rejected, encoder unchanged, continuation unaffected
            let mut a = g!("new", renc_new(w, s));
            for i in 0..=n {
                let raw = a.raw();
                for prec in 1..=(w as usize) {
                    for (cdf, sym) in [(vec![0u64, 0, 1u64 << prec], 0usize), (vec![0, 1u64 << prec, 1u64 << prec], 1), (vec![0, 1, 1u64 << prec], 2), (vec![0, 1, 1u64 << prec], 7)] {
                        if cdf[1] == 0 && prec == 0 { continue; }
                        let r = g!("encode_symbol", a.enc(prec, &cdf, sym));
                        rep.checks += 1;
                        if r != Err("impossible".to_string()) { bad(rep, format!("after {} symbols: encoding impossible symbol {} of table {:?} returned {:?}", i, sym, cdf, r)); return; }
                        if a.raw() != raw { bad(rep, format!("after {} symbols: failed encode changed the encoder {:?} -> {:?}", i, raw, a.raw())); return; }
                    }
                }
                if i < n { let h = &hist[i]; let _ = g!("encode_symbol", a.enc(h[0] as usize, &slot_cdf(h[0] as usize, h[1], h[2]), 1)); }
            }
            let words = g!("into_compressed", a.into_compressed());
            decode_all(&words, rep, "after rejected symbols");
        }
        "c11" => {
            let words = g!("into_compressed", enc.clone_box().into_compressed());
            // Only the first State::BITS/Word::BITS - 1 words after the sealed data can ever be read into the decoder's
            // window while it decodes this message; quick tier: every suffix of exactly that many words + 1
            // and the all-ones / all-zeros suffixes of every length; thorough tier: every suffix up to NW + 1 words.
            let thorough = std::env::var("VERIF_TIER").map(|t| t == "thorough").unwrap_or(false);
            let sfxs: Vec<Vec<u128>> = if thorough { all_suffixes(w, nw + 1) } else {
                let mut v: Vec<Vec<u128>> = all_suffixes(w, nw - 1).into_iter().filter(|x| x.len() == nw - 1 || x.is_empty()).collect();
                for l in 1..=(nw + 2) { v.push(vec![(1u128 << w) - 1; l]); v.push(vec![0; l]); }
                v };
            for sfx in sfxs {
                let mut full = words.clone(); full.extend(sfx.iter().cloned());
                if decode_all(&full, rep, "sealed words followed by a suffix").is_none() { rep.extra.insert("failing_suffix".into(), vals(&sfx)); return; }
            }
            // equivalently: a second message appended to the first, and an encoder started on a non-empty sink
            for prefix in [vec![], vec![0u128], vec![(1u128 << w) - 1; nw]] {
                let mut e2 = g!("with_backend", renc_with_backend(w, s, &prefix));
                for h in &hist { let _ = g!("encode_symbol", e2.enc(h[0] as usize, &slot_cdf(h[0] as usize, h[1], h[2]), 1)); }
                let all = g!("into_compressed", e2.into_compressed());
                rep.checks += 1;
                if all.len() < prefix.len() || all[..prefix.len()] != prefix[..] || all[prefix.len()..] != words[..] { bad(rep, format!("encoder on a sink holding {:?} produced {:?}, expected the prefix followed by {:?}", prefix, all, words)); return; }
            }
        }
        "c12" => {
            let words = g!("into_compressed", enc.clone_box().into_compressed());
            rep.checks += 1;
            if words.len() > n + nw { bad(rep, format!("{} symbols produced {} words (> n + State::BITS/Word::BITS)", n, words.len())); }
            for i in 0..=n { let nwi = g!("num_words", prefixes[i].num_words()); if nwi > i + nw { bad(rep, format!("num_words() = {} after {} symbols", nwi, i)); } }
            // inspections between the symbols must not make the coder grow
            { let mut a = g!("new", renc_new(w, s));
              for (i, h) in hist.iter().enumerate() { let _ = g!("encode_symbol", a.enc(h[0] as usize, &slot_cdf(h[0] as usize, h[1], h[2]), 1)); let _ = g!("get_compressed", a.get_compressed()); if i % 2 == 0 { let _ = g!("get_compressed", a.get_compressed()); }
                  rep.checks += 1; let nwi = g!("num_words", a.num_words()); if nwi > i + 1 + nw { bad(rep, format!("with inspections: num_words() = {} after {} symbols", nwi, i + 1)); return; } }
              let w2 = g!("into_compressed", a.into_compressed()); if w2.len() > n + nw { bad(rep, format!("with inspections: {} symbols produced {} words", n, w2.len())); } }
            // bits <= sum of information contents + n * log2(1/(1-2^-(S-W-P))) + 2W, in exact integer form:
            // 2^(W*len) * prod p_i * prod (2^k_i - 1) <= 2^(2W) * 2^(sum P_i) * prod 2^k_i,  k_i = S - W - P_i  (skipped if some k_i = 0)
            if hist.iter().all(|h| s - w > h[0] as u32) && n > 0 {
                let mut lhs: u128 = 1u128 << (w as usize * words.len());
                let mut rhs: u128 = 1u128 << s; // constant: State::BITS
                let mut ok = true;
                for h in &hist {
                    let k = s - w - h[0] as u32;
                    lhs = match lhs.checked_mul(h[2] as u128).and_then(|x| x.checked_mul((1u128 << k) - 1)) { Some(x) => x, None => { ok = false; break; } };
                    rhs = match rhs.checked_mul(1u128 << h[0]).and_then(|x| x.checked_mul(1u128 << k)) { Some(x) => x, None => { ok = false; break; } };
                }
                if ok { rep.checks += 1; rep.class("bits_bound_evaluated"); if lhs > rhs { bad(rep, format!("{} words for message {:?} exceed the information content + n*rounding term + State::BITS", words.len(), hist)); } }
            }
        }
        "c18" => {
            for (i, p) in prefixes.iter().enumerate() {
                let fin = g!("into_compressed", p.clone_box().into_compressed());
                rep.checks += 3;
                let (nwd, nb, em) = (g!("num_words", p.num_words()), g!("num_bits", p.num_bits()), g!("is_empty", p.is_empty()));
                if nwd != fin.len() { bad(rep, format!("after {} symbols: num_words() = {}, sealed words {:?}", i, nwd, fin)); }
                if nb != fin.len() * w as usize { bad(rep, format!("after {} symbols: num_bits() = {}, sealed words {:?}", i, nb, fin)); }
                if em != fin.is_empty() { bad(rep, format!("after {} symbols: is_empty() = {}, sealed words {:?}", i, em, fin)); }
                if p.raw().sit_n > 0 { rep.class("sizes_while_inverted"); }
            }
            // decoder exhaustion: after exactly the encoded symbols -> maybe_exhausted; with whole words left -> not
            let words = g!("into_compressed", enc.clone_box().into_compressed());
            let mut d = g!("from_compressed", rdec_from_compressed(w, s, &words));
            for (i, h) in hist.iter().enumerate() {
                if d.raw().pos < words.len() { rep.checks += 1; rep.class("not_exhausted_checked"); if g!("maybe_exhausted", d.maybe_exhausted()) { bad(rep, format!("decoder with {} unread words reports maybe_exhausted (after {} symbols)", words.len() - d.raw().pos, i)); } }
                let _ = g!("decode_symbol", d.dec(h[0] as usize, &slot_cdf(h[0] as usize, h[1], h[2])));
            }
            rep.checks += 1;
            if !g!("maybe_exhausted", d.maybe_exhausted()) { bad(rep, "decoder that consumed exactly the encoded symbols is not maybe_exhausted".into()); }
        }
        _ => panic!("unknown mode {}", mode),
    }
}

/// `rdec` cases: a range decoder over arbitrary words (C10 totality; C06 exact state)
pub fn rdec_case(case: &Value, mode: &str, rep: &mut Report) {
    let w = case["W"].as_u64().unwrap() as u32; let s = case["S"].as_u64().unwrap() as u32;
    let data = vec_u128(&case["data"]);
    let hist = rows(&case["hist"]);
    let bad = |rep: &mut Report, d: String| rep.mismatch(case, d);
    macro_rules! g { ($what:expr, $e:expr) => { match guarded(|| $e) { Ok(v) => v, Err(m) => { bad(rep, format!("panic in {}: {}", $what, m)); return; } } } }
    let mut d = g!("from_compressed", rdec_from_compressed(w, s, &data));
    for h in &hist {
        let r = g!("decode_symbol", d.dec(h[0] as usize, &slot_cdf(h[0] as usize, h[1], h[2])));
        rep.checks += 1;
        match mode {
            "c06" => if r != Ok(1) { bad(rep, format!("decoding {:?} over arbitrary data {:?}: slot {:?} gives {:?}, spec 1", hist, data, h, r)); return; },
            _ => match r { Ok(sy) if sy <= 2 && slot_cdf(h[0] as usize, h[1], h[2])[sy + 1] > slot_cdf(h[0] as usize, h[1], h[2])[sy] => {}, Err(e) if e == "InvalidData" => { rep.class("invalid_data"); return; }, other => { bad(rep, format!("decode over arbitrary data returned {:?}", other)); return; } },
        }
    }
    let invalid: Vec<u64> = case["invalid"].as_array().unwrap().iter().map(|x| x.as_u64().unwrap()).collect();
    if mode == "c06" {
        let r = d.raw(); let x = &case["dec"]; rep.checks += 1;
        if (r.lower, r.range, r.point, r.pos) != (u128_of(&x[0]), u128_of(&x[1]), u128_of(&x[2]), x[3].as_u64().unwrap() as usize) { bad(rep, format!("decoder state over arbitrary data: impl {:?}, spec {}", r, x)); return; }
    }
    for prec in 1..=(w as usize) {
        if case["quantiles"].get(prec.to_string().as_str()).is_none() { continue; }
        let t = 1u64 << prec;
        for cdf in [vec![0u64, 1, t], vec![0, t - 1, t], vec![0, t / 2, t]] {
            if cdf[1] == 0 || cdf[1] == t { continue; }
            let mut k = d.clone_box(); let before = k.raw();
            let r = g!("decode_symbol", k.dec(prec, &cdf)); rep.checks += 1;
            match &r {
                Ok(sy) => { if *sy > 1 { bad(rep, format!("symbol {} outside the support of {:?}", sy, cdf)); } if mode == "c06" && invalid.contains(&(prec as u64)) { bad(rep, format!("spec reports InvalidData at precision {}, impl decoded {}", prec, sy)); } }
                Err(e) if e == "InvalidData" => { rep.class("invalid_data"); if k.raw() != before { bad(rep, "InvalidData changed the decoder".into()); } if mode == "c06" && !invalid.contains(&(prec as u64)) { bad(rep, format!("impl reports InvalidData at precision {} where the spec decodes", prec)); } }
                other => bad(rep, format!("decode over arbitrary data returned {:?}", other)),
            }
            // the iid convenience iterator is an ExactSizeIterator: it yields exactly `amt` items, errors included, and then ends
            // (a decoder that reports InvalidData stays where it is, so the error repeats; it must not repeat for ever)
            if mode == "c10" {
                let mut k2 = d.clone_box();
                let items = g!("decode_iid_symbols", k2.dec_iid(prec, &cdf, 3)); rep.checks += 1;
                if items.len() != 3 { bad(rep, format!("decode_iid_symbols(3, ..) over arbitrary data yielded {} items", items.len())); }
                if items.iter().any(|r| r.is_err()) { rep.class("iid_iterator_with_errors"); }
            }
        }
    }
}
