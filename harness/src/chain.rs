//! Dynamic (width- and precision-erased) access to the real `ChainCoder<Word, State, Vec<Word>, Vec<Word>, PRECISION>`.
use crate::tab::Tab;
use crate::tiny::*;
use constriction::stream::chain::ChainCoder;
use constriction::stream::{Code, Decode, Encode};
use constriction::CoderError;

pub type Words = Vec<u128>;

pub trait ChainDyn {
    fn prec(&self) -> usize;
    fn clone_box(&self) -> Box<dyn ChainDyn>;
    /// (compressed head, remainders head), read from the public Debug representation of `state()`
    fn heads(&self) -> (u128, u128);
    fn is_whole(&self) -> bool;
    fn dec(&mut self, cdf: &[u64]) -> Result<usize, String>;
    fn enc(&mut self, cdf: &[u64], sym: usize) -> Result<(), String>;
    fn dec_symbols(&mut self, tabs: &[Vec<u64>]) -> Vec<Result<usize, String>>;
    fn enc_symbols_reverse(&mut self, items: &[(usize, Vec<u64>)]) -> Result<(), String>;
    fn change(self: Box<Self>, np: usize) -> Result<Box<dyn ChainDyn>, String>;
    fn into_remainders(self: Box<Self>) -> (Words, Words);
    fn into_compressed(self: Box<Self>) -> Result<(Words, Words), ()>;
    fn into_binary(self: Box<Self>) -> Result<(Words, Words), ()>;
}

pub struct CInst<W, S, const P: usize>(pub ChainCoder<W, S, Vec<W>, Vec<W>, P>) where W: constriction::BitArray + Into<S>, S: constriction::BitArray + num_traits::AsPrimitive<W>;

fn parse_heads(dbg: &str) -> (u128, u128) {
    // "ChainCoderHeads { compressed: 1, remainders: 5 }"
    let nums: Vec<u128> = dbg.split(|c: char| !c.is_ascii_digit()).filter(|s| !s.is_empty()).map(|s| s.parse().unwrap()).collect();
    (nums[0], nums[1])
}
fn cerr<F: core::fmt::Debug, B: core::fmt::Debug>(e: CoderError<F, B>) -> String { match e { CoderError::Frontend(f) => format!("{:?}", f), CoderError::Backend(b) => format!("backend:{:?}", b) } }
fn ws<T: VInt>(v: Vec<T>) -> Words { v.into_iter().map(|x| x.to_u128()).collect() }
fn conv<T: VInt>(v: &[u128]) -> Vec<T> { v.iter().map(|x| { assert!(T::nbits() == 128 || *x >> T::nbits() == 0, "word {} too wide", x); T::from_u128_trunc(*x) }).collect() }

macro_rules! chain_inst {
    ($W:ty, $S:ty, $P:literal, [$($NP:literal),*]) => {
        impl ChainDyn for CInst<$W, $S, $P> {
            fn prec(&self) -> usize { $P }
            fn clone_box(&self) -> Box<dyn ChainDyn> { Box::new(CInst::<$W, $S, $P>(self.0.clone())) }
            fn heads(&self) -> (u128, u128) { parse_heads(&format!("{:?}", self.0.state())) }
            fn is_whole(&self) -> bool { self.0.is_whole() }
            fn dec(&mut self, cdf: &[u64]) -> Result<usize, String> { if crate::tab::narrow::<<$W as crate::tab::NarrowOf>::N, $P>() { self.0.decode_symbol(Tab::<<$W as crate::tab::NarrowOf>::N, $P>::new(cdf)).map_err(cerr) } else { self.0.decode_symbol(Tab::<$W, $P>::new(cdf)).map_err(cerr) } }
            fn enc(&mut self, cdf: &[u64], sym: usize) -> Result<(), String> { if crate::tab::narrow::<<$W as crate::tab::NarrowOf>::N, $P>() { self.0.encode_symbol(sym, Tab::<<$W as crate::tab::NarrowOf>::N, $P>::new(cdf)).map_err(cerr) } else { self.0.encode_symbol(sym, Tab::<$W, $P>::new(cdf)).map_err(cerr) } }
            fn dec_symbols(&mut self, tabs: &[Vec<u64>]) -> Vec<Result<usize, String>> { if crate::tab::narrow::<<$W as crate::tab::NarrowOf>::N, $P>() { self.0.decode_symbols(tabs.iter().map(|c| Tab::<<$W as crate::tab::NarrowOf>::N, $P>::new(c))).map(|r| r.map_err(cerr)).collect() } else { self.0.decode_symbols(tabs.iter().map(|c| Tab::<$W, $P>::new(c))).map(|r| r.map_err(cerr)).collect() } }
            fn enc_symbols_reverse(&mut self, items: &[(usize, Vec<u64>)]) -> Result<(), String> { if crate::tab::narrow::<<$W as crate::tab::NarrowOf>::N, $P>() { self.0.encode_symbols_reverse(items.iter().map(|(s, c)| (*s, Tab::<<$W as crate::tab::NarrowOf>::N, $P>::new(c)))).map_err(cerr) } else { self.0.encode_symbols_reverse(items.iter().map(|(s, c)| (*s, Tab::<$W, $P>::new(c)))).map_err(cerr) } }
            fn change(self: Box<Self>, np: usize) -> Result<Box<dyn ChainDyn>, String> {
                match np { $( $NP => self.0.change_precision::<$NP>().map(|c| Box::new(CInst::<$W, $S, $NP>(c)) as Box<dyn ChainDyn>).map_err(|e| format!("{:?}", e)), )* _ => panic!("unsupported precision {}", np) }
            }
            fn into_remainders(self: Box<Self>) -> (Words, Words) { let (a, b) = self.0.into_remainders().unwrap(); (ws(a), ws(b)) }
            fn into_compressed(self: Box<Self>) -> Result<(Words, Words), ()> { self.0.into_compressed().map(|(a, b)| (ws(a), ws(b))).map_err(|_| ()) }
            fn into_binary(self: Box<Self>) -> Result<(Words, Words), ()> { self.0.into_binary().map(|(a, b)| (ws(a), ws(b))).map_err(|_| ()) }
        }
    };
}
macro_rules! chain_table {
    ($( ($W:ty, $S:ty, [$($P:literal),*]) ),* $(,)?) => {
        $( chain_table!(@each $W, $S, [$($P),*], [$($P),*]); )*
        /// how: 0 = from_binary, 1 = from_compressed, 2 = from_remainders
        pub fn chain_new(w: u32, s: u32, p: usize, how: u8, words: &[u128]) -> Result<Box<dyn ChainDyn>, ()> {
            $( if w == <$W>::nbits() && s == <$S>::nbits() { match p { $( $P => {
                let d = conv::<$W>(words);
                let r = match how { 0 => ChainCoder::<$W, $S, Vec<$W>, Vec<$W>, $P>::from_binary(d).map_err(|_| ()), 1 => ChainCoder::<$W, $S, Vec<$W>, Vec<$W>, $P>::from_compressed(d).map_err(|_| ()), _ => ChainCoder::<$W, $S, Vec<$W>, Vec<$W>, $P>::from_remainders(d).map_err(|_| ()) };
                return r.map(|c| Box::new(CInst::<$W, $S, $P>(c)) as Box<dyn ChainDyn>);
            } )* _ => panic!("unsupported precision {}", p) } } )*
            panic!("unsupported widths {}/{}", w, s)
        }
    };
    (@each $W:ty, $S:ty, [$($P:literal),*], $all:tt) => { $( chain_inst!($W, $S, $P, $all); )* };
}
chain_table!(
    (U2, U4, [1, 2]), (U2, U6, [1, 2]), (U2, U8t, [1, 2]), (U3, U6, [1, 2, 3]), (U3, U9, [1, 2, 3]), (U4, U8t, [1, 2, 3, 4]),
    (u8, u16, [1, 4, 8]), (u8, u32, [4, 8]), (u16, u32, [8, 12, 16]), (u16, u64, [12, 16]), (u32, u64, [16, 24, 32]), (u32, u128, [16, 24, 32]),
    (u8, u128, [4, 8]), (u16, u128, [8, 16]), (u64, u128, [24, 32, 48]), (u8, u64, [4, 8])
);
