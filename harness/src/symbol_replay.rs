//! Replay of spec-predicted Huffman codebooks and Exp-Golomb codewords on the real codebooks and bit coders.
use crate::common::*;
use constriction::symbol::exp_golomb::ExpGolomb;
use constriction::symbol::huffman::{DecoderHuffmanTree, EncoderHuffmanTree};
use constriction::symbol::{DecoderCodebook, EncoderCodebook, QueueEncoder, ReadBitStream, StackCoder, WriteBitStream};
use constriction::{Queue, Stack};
use core::convert::Infallible;
use serde_json::Value;

fn bits_of(v: &Value) -> Vec<bool> { v.as_array().unwrap().iter().map(|x| x.as_u64().unwrap() != 0).collect() }
fn prefix<C: EncoderCodebook>(c: &C, s: C::Symbol) -> Result<Vec<bool>, String> { let mut out = vec![]; c.encode_symbol_prefix(s, |b| { out.push(b); Ok::<(), Infallible>(()) }).map(|_| out).map_err(|e| format!("{:?}", e)) }
fn suffix<C: EncoderCodebook>(c: &C, s: C::Symbol) -> Result<Vec<bool>, String> { let mut out = vec![]; c.encode_symbol_suffix(s, |b| { out.push(b); Ok::<(), Infallible>(()) }).map(|_| out).map_err(|e| format!("{:?}", e)) }
fn decode<C: DecoderCodebook>(c: &C, bits: &[bool]) -> Result<(C::Symbol, usize), String> where C::InvalidCodeword: core::fmt::Debug {
    let mut it = bits.iter(); let mut used = 0usize;
    let r = c.decode_symbol((&mut it).map(|b| { used += 1; Ok::<bool, Infallible>(*b) }));
    r.map(|s| (s, used)).map_err(|e| format!("{:?}", e))
}

pub fn huffman_case(case: &Value, _mode: &str, rep: &mut Report) {
    let w: Vec<u32> = case["weights"].as_array().unwrap().iter().map(|x| x.as_u64().unwrap() as u32).collect();
    let cb: Vec<Vec<bool>> = case["codebook"].as_array().unwrap().iter().map(bits_of).collect();
    let n = w.len();
    let bad = |rep: &mut Report, d: String| rep.mismatch(case, d);
    if w.iter().any(|x| *x == 0) { rep.class("zero_weight"); }
    if (1..n).any(|i| w[..i].contains(&w[i])) { rep.class("tie"); }
    if n == 1 { rep.class("single_symbol"); }
    let r = guarded(|| {
        let wf32: Vec<f32> = w.iter().map(|x| *x as f32).collect(); let wf64: Vec<f64> = w.iter().map(|x| *x as f64 * 0.25).collect();
        let encs = vec![("from_probabilities::<u32>", EncoderHuffmanTree::from_probabilities::<u32, _>(&w)), ("from_float_probabilities::<f32>", EncoderHuffmanTree::from_float_probabilities::<f32, _>(&wf32).unwrap()), ("from_float_probabilities::<f64>", EncoderHuffmanTree::from_float_probabilities::<f64, _>(&wf64).unwrap())];
        let decs = vec![("from_probabilities::<u32>", DecoderHuffmanTree::from_probabilities::<u32, _>(&w)), ("from_float_probabilities::<f32>", DecoderHuffmanTree::from_float_probabilities::<f32, _>(&wf32).unwrap()), ("from_float_probabilities::<f64>", DecoderHuffmanTree::from_float_probabilities::<f64, _>(&wf64).unwrap())];
        let mut out: Vec<String> = vec![]; let mut checks = 0u64;
        for (name, e) in &encs {
            if e.num_symbols() != n { out.push(format!("EncoderHuffmanTree::{}: num_symbols() = {}", name, e.num_symbols())); }
            for s in 0..n {
                checks += 2;
                let p = prefix(e, s); let sfx = suffix(e, s);
                if p.as_ref() != Ok(&cb[s]) { out.push(format!("EncoderHuffmanTree::{}: codeword of symbol {} = {:?}, spec {:?}", name, s, p, cb[s])); }
                let mut r = cb[s].clone(); r.reverse();
                if sfx.as_ref() != Ok(&r) { out.push(format!("EncoderHuffmanTree::{}: suffix form of symbol {} = {:?}, expected reversed prefix {:?}", name, s, sfx, r)); }
            }
            for s in [n, n + 1, 2 * n, 2 * n + 1, usize::MAX, usize::MAX / 2] { checks += 1; let p = prefix(e, s); if !matches!(&p, Err(m) if m.contains("ImpossibleSymbol")) { out.push(format!("EncoderHuffmanTree::{}: symbol {} outside the alphabet of {} gives {:?}", name, s, n, p)); } }
        }
        for (name, d) in &decs {
            if d.num_symbols() != n { out.push(format!("DecoderHuffmanTree::{}: num_symbols() = {}", name, d.num_symbols())); }
            for s in 0..n {
                checks += 1;
                let mut bits = cb[s].clone(); bits.extend([true, false, true]);
                let r = decode(d, &bits);
                if r != Ok((s, cb[s].len())) { out.push(format!("DecoderHuffmanTree::{}: decoding {:?} gives {:?}, expected symbol {} after {} bits", name, cb[s], r, s, cb[s].len())); }
            }
        }
        // through the bit coders: queue (prefix order) and stack (suffix order)
        let mut q = QueueEncoder::<u8, Vec<u8>>::new(); let mut st = StackCoder::<u8, Vec<u8>>::new();
        let syms: Vec<usize> = (0..n).chain((0..n).rev()).collect();
        for s in &syms { WriteBitStream::<Queue>::encode_symbol(&mut q, *s, &encs[0].1).unwrap(); }
        st.encode_symbols_reverse(syms.iter().map(|s| (*s, &encs[0].1))).unwrap();
        let mut qd = q.into_decoder().unwrap();
        let gq: Vec<usize> = syms.iter().map(|_| ReadBitStream::<Queue>::decode_symbol(&mut qd, &decs[0].1).unwrap()).collect();
        let gs: Vec<usize> = syms.iter().map(|_| ReadBitStream::<Stack>::decode_symbol(&mut st, &decs[0].1).unwrap()).collect();
        checks += 2;
        if gq != syms { out.push(format!("queue coder with Huffman codebook: wrote {:?}, read {:?}", syms, gq)); }
        if gs != syms { out.push(format!("stack coder with Huffman codebook: wrote {:?} (reverse), read {:?}", syms, gs)); }
        if n >= 2 && !st.is_empty() { out.push("stack coder not empty after decoding everything".into()); }
        (out, checks)
    });
    match r { Ok((out, checks)) => { rep.checks += checks; for d in out { bad(rep, d); } } Err(m) => bad(rep, format!("panic: {}", m)) }
}

fn golomb_one<N>(n: N, cw: &[bool], what: &str) -> Vec<String>
where N: num_traits::Unsigned + num_traits::PrimInt + num_traits::WrappingAdd + num_traits::WrappingSub + core::fmt::Debug {
    let c = ExpGolomb::<N>::new(); let mut out = vec![];
    let p = prefix(&c, n); if p.as_deref() != Ok(cw) { out.push(format!("{}: codeword of {:?} = {:?}, spec {:?}", what, n, p, cw)); }
    let mut r = cw.to_vec(); r.reverse();
    let s = suffix(&c, n); if s.as_deref() != Ok(&r[..]) { out.push(format!("{}: suffix form of {:?} = {:?}, expected {:?}", what, n, s, r)); }
    let mut bits = cw.to_vec(); bits.extend([true, true, false]);
    let d = decode(&c, &bits); if d != Ok((n, cw.len())) { out.push(format!("{}: decoding the codeword of {:?} gives {:?}", what, n, d)); }
    // truncated codewords are errors, never wrong values
    if cw.len() > 1 { let d = decode(&c, &cw[..cw.len() - 1]); if d.is_ok() { out.push(format!("{}: truncated codeword of {:?} decodes to {:?}", what, n, d)); } }
    // through the bit coders
    let mut q = QueueEncoder::<u8, Vec<u8>>::new(); let mut st = StackCoder::<u8, Vec<u8>>::new();
    for _ in 0..2 { WriteBitStream::<Queue>::encode_symbol(&mut q, n, &c).unwrap(); WriteBitStream::<Stack>::encode_symbol(&mut st, n, &c).unwrap(); }
    let mut qd = q.into_decoder().unwrap();
    for _ in 0..2 { let a = ReadBitStream::<Queue>::decode_symbol(&mut qd, &c); let b = ReadBitStream::<Stack>::decode_symbol(&mut st, &c);
        if !matches!(a, Ok(x) if x == n) || !matches!(b, Ok(x) if x == n) { out.push(format!("{}: bit coders do not round-trip {:?}", what, n)); } }
    out
}

pub fn golomb_case(case: &Value, _mode: &str, rep: &mut Report) {
    let r = guarded(|| {
        let mut out = vec![]; let mut checks = 0u64;
        if case["k"] == "expgolomb" {
            let n = case["n"].as_u64().unwrap(); let cw = bits_of(&case["codeword"]); let b = case["B"].as_u64().unwrap();
            checks += 5;
            if b >= 8 && n <= u8::MAX as u64 { out.extend(golomb_one::<u8>(n as u8, &cw, "ExpGolomb<u8>")); }
            if b >= 16 && n <= u16::MAX as u64 { out.extend(golomb_one::<u16>(n as u16, &cw, "ExpGolomb<u16>")); }
            if b >= 16 { out.extend(golomb_one::<u32>(n as u32, &cw, "ExpGolomb<u32>")); out.extend(golomb_one::<u64>(n, &cw, "ExpGolomb<u64>")); out.extend(golomb_one::<usize>(n as usize, &cw, "ExpGolomb<usize>")); }
        } else {
            for b in [8u32, 16, 32, 64].iter() {
                for c in case["cases"][b.to_string().as_str()].as_array().unwrap() {
                    let d = c["d"].as_u64().unwrap(); let cw = bits_of(&c["codeword"]); checks += 1;
                    match b { 8 => out.extend(golomb_one::<u8>(u8::MAX - d as u8, &cw, "ExpGolomb<u8>")), 16 => out.extend(golomb_one::<u16>(u16::MAX - d as u16, &cw, "ExpGolomb<u16>")),
                              32 => out.extend(golomb_one::<u32>(u32::MAX - d as u32, &cw, "ExpGolomb<u32>")), _ => { out.extend(golomb_one::<u64>(u64::MAX - d, &cw, "ExpGolomb<u64>")); out.extend(golomb_one::<usize>(usize::MAX - d as usize, &cw, "ExpGolomb<usize>")); } }
                }
            }
        }
        (out, checks)
    });
    match r { Ok((out, checks)) => { rep.checks += checks; rep.class(case["k"].as_str().unwrap()); for d in out { rep.mismatch(case, d); } } Err(m) => rep.mismatch(case, format!("panic: {}", m)) }
}
