//! Replay of spec-predicted Huffman codebooks and Exp-Golomb codewords on the real codebooks and bit coders.
use crate::common::*;
use constriction::symbol::exp_golomb::ExpGolomb;
use constriction::symbol::huffman::{DecoderHuffmanTree, EncoderHuffmanTree};
use constriction::symbol::{DecoderCodebook, EncoderCodebook, QueueEncoder, ReadBitStream, StackCoder, WriteBitStream};
use constriction::{Queue, Stack};
use core::convert::Infallible;
use serde_json::Value;

fn bits_of(v: &Value) -> Vec<bool> { v.as_array().unwrap().iter().map(|x| x.as_u64().unwrap() != 0).collect() }
fn prefix<C: EncoderCodebook>(c: &C, s: C::Symbol) -> Result<Vec<bool>, String> { let mut out = vec![]; c.encode_symbol_prefix(s, |b| { out.push(b); Ok::<(), Infallible>(()) }).map(|_| out).map_err(|e| format!("{:?}", e)) }
fn suffix<C: EncoderCodebook>(c: &C, s: C::Symbol) -> Result<Vec<bool>, String> { let mut out = vec![]; c.encode_symbol_suffix(s, |b| { out.push(b); Ok::<(), Infallible>(()) }).map(|_| out).map_err(|e| format!("{:?}", e)) }
fn decode<C: DecoderCodebook>(c: &C, bits: &[bool]) -> Result<(C::Symbol, usize), String> where C::InvalidCodeword: core::fmt::Debug {
    let mut it = bits.iter(); let mut used = 0usize;
    let r = c.decode_symbol((&mut it).map(|b| { used += 1; Ok::<bool, Infallible>(*b) }));
    r.map(|s| (s, used)).map_err(|e| format!("{:?}", e))
}

pub fn huffman_case(case: &Value, _mode: &str, rep: &mut Report) {
    let w: Vec<u32> = case["weights"].as_array().unwrap().iter().map(|x| x.as_u64().unwrap() as u32).collect();
    let cb: Vec<Vec<bool>> = case["codebook"].as_array().unwrap().iter().map(bits_of).collect();
    let n = w.len();
    let bad = |rep: &mut Report, d: String| rep.mismatch(case, d);
    if w.iter().any(|x| *x == 0) { rep.class("zero_weight"); }
    if (1..n).any(|i| w[..i].contains(&w[i])) { rep.class("tie"); }
    if n == 1 { rep.class("single_symbol"); }
    let r = guarded(|| {
        let wf32: Vec<f32> = w.iter().map(|x| *x as f32).collect(); let wf64: Vec<f64> = w.iter().map(|x| *x as f64 * 0.25).collect();
        // tiny weights (exact multiples of 2^-40 / 2^-70, all far below the machine epsilon): the order of the weights is still exact
        let tf32: Vec<f32> = w.iter().map(|x| *x as f32 * 2f32.powi(-40)).collect(); let tf64: Vec<f64> = w.iter().map(|x| *x as f64 * 2f64.powi(-70)).collect();
        let encs = vec![("from_probabilities::<u32>", EncoderHuffmanTree::from_probabilities::<u32, _>(&w)), ("from_float_probabilities::<f32>", EncoderHuffmanTree::from_float_probabilities::<f32, _>(&wf32).unwrap()), ("from_float_probabilities::<f64>", EncoderHuffmanTree::from_float_probabilities::<f64, _>(&wf64).unwrap()),
                        ("from_float_probabilities::<f32> (weights * 2^-40)", EncoderHuffmanTree::from_float_probabilities::<f32, _>(&tf32).unwrap()), ("from_float_probabilities::<f64> (weights * 2^-70)", EncoderHuffmanTree::from_float_probabilities::<f64, _>(&tf64).unwrap())];
        let decs = vec![("from_probabilities::<u32>", DecoderHuffmanTree::from_probabilities::<u32, _>(&w)), ("from_float_probabilities::<f32>", DecoderHuffmanTree::from_float_probabilities::<f32, _>(&wf32).unwrap()), ("from_float_probabilities::<f64>", DecoderHuffmanTree::from_float_probabilities::<f64, _>(&wf64).unwrap()),
                        ("from_float_probabilities::<f32> (weights * 2^-40)", DecoderHuffmanTree::from_float_probabilities::<f32, _>(&tf32).unwrap()), ("from_float_probabilities::<f64> (weights * 2^-70)", DecoderHuffmanTree::from_float_probabilities::<f64, _>(&tf64).unwrap())];
        let mut out: Vec<String> = vec![]; let mut checks = 0u64;
        for (name, e) in &encs {
            if e.num_symbols() != n { out.push(format!("EncoderHuffmanTree::{}: num_symbols() = {}", name, e.num_symbols())); }
            for s in 0..n {
                checks += 2;
                let p = prefix(e, s); let sfx = suffix(e, s);
                if p.as_ref() != Ok(&cb[s]) { out.push(format!("EncoderHuffmanTree::{}: codeword of symbol {} = {:?}, spec {:?}", name, s, p, cb[s])); }
                let mut r = cb[s].clone(); r.reverse();
                if sfx.as_ref() != Ok(&r) { out.push(format!("EncoderHuffmanTree::{}: suffix form of symbol {} = {:?}, expected reversed prefix {:?}", name, s, sfx, r)); }
            }
            for s in [n, n + 1, 2 * n, 2 * n + 1, usize::MAX, usize::MAX / 2] { checks += 1; let p = prefix(e, s); if !matches!(&p, Err(m) if m.contains("ImpossibleSymbol")) { out.push(format!("EncoderHuffmanTree::{}: symbol {} outside the alphabet of {} gives {:?}", name, s, n, p)); } }
        }
        for (name, d) in &decs {
            if d.num_symbols() != n { out.push(format!("DecoderHuffmanTree::{}: num_symbols() = {}", name, d.num_symbols())); }
            for s in 0..n {
                checks += 1;
                let mut bits = cb[s].clone(); bits.extend([true, false, true]);
                let r = decode(d, &bits);
                if r != Ok((s, cb[s].len())) { out.push(format!("DecoderHuffmanTree::{}: decoding {:?} gives {:?}, expected symbol {} after {} bits", name, cb[s], r, s, cb[s].len())); }
            }
        }
        // through the bit coders: queue (prefix order) and stack (suffix order)
        let mut q = QueueEncoder::<u8, Vec<u8>>::new(); let mut st = StackCoder::<u8, Vec<u8>>::new();
        let syms: Vec<usize> = (0..n).chain((0..n).rev()).collect();
        for s in &syms { WriteBitStream::<Queue>::encode_symbol(&mut q, *s, &encs[0].1).unwrap(); }
        st.encode_symbols_reverse(syms.iter().map(|s| (*s, &encs[0].1))).unwrap();
        let mut qd = q.into_decoder().unwrap();
        let gq: Vec<usize> = syms.iter().map(|_| ReadBitStream::<Queue>::decode_symbol(&mut qd, &decs[0].1).unwrap()).collect();
        let gs: Vec<usize> = syms.iter().map(|_| ReadBitStream::<Stack>::decode_symbol(&mut st, &decs[0].1).unwrap()).collect();
        checks += 2;
        if gq != syms { out.push(format!("queue coder with Huffman codebook: wrote {:?}, read {:?}", syms, gq)); }
        if gs != syms { out.push(format!("stack coder with Huffman codebook: wrote {:?} (reverse), read {:?}", syms, gs)); }
        if n >= 2 && !st.is_empty() { out.push("stack coder not empty after decoding everything".into()); }
        (out, checks)
    });
    match r { Ok((out, checks)) => { rep.checks += checks; for d in out { bad(rep, d); } } Err(m) => bad(rep, format!("panic: {}", m)) }
}

/// Integer-valued f32 weights whose sums are rounded by f32 addition: the specification predicts the exact codebook of the
/// float constructors (merging with IEEE-754 round-to-nearest-even at 24 bits); encoder and decoder trees must both have it.
pub fn huffman_f32_case(case: &Value, _mode: &str, rep: &mut Report) {
    let w: Vec<u32> = case["weights"].as_array().unwrap().iter().map(|x| x.as_u64().unwrap() as u32).collect();
    let cb: Vec<Vec<bool>> = case["codebook"].as_array().unwrap().iter().map(bits_of).collect();
    let n = w.len();
    if case["exact_differs"].as_bool() == Some(true) { rep.class("f32_rounding_changes_the_code"); }
    let r = guarded(|| {
        let wf0: Vec<f32> = w.iter().map(|x| *x as f32).collect();
        let mut out: Vec<String> = vec![]; let mut checks = 0u64;
        for (x, f) in w.iter().zip(&wf0) { if *f as f64 != *x as f64 { out.push(format!("harness: weight {} is not an f32", x)); } }
        // the same weights scaled by powers of two (exact in binary floating point, so every sum rounds identically and the code must be
        // the same): by 2^-24 the weights sit one ulp apart around 1.0, by 2^-60 they are far below the machine epsilon.  Weights are
        // ordered by their VALUE, not "approximately".
        for scale in [1.0f32, 2f32.powi(-24), 2f32.powi(-60)] {
        let wf: Vec<f32> = wf0.iter().map(|x| *x * scale).collect();
        let e = EncoderHuffmanTree::from_float_probabilities::<f32, _>(&wf).unwrap();
        let d = DecoderHuffmanTree::from_float_probabilities::<f32, _>(&wf).unwrap();
        for s in 0..n {
            checks += 3;
            let p = prefix(&e, s); let sfx = suffix(&e, s);
            if p.as_ref() != Ok(&cb[s]) { out.push(format!("EncoderHuffmanTree::from_float_probabilities::<f32>({:?}): codeword of symbol {} = {:?}, spec (f32 sums) {:?}", wf, s, p, cb[s])); }
            let mut rv = cb[s].clone(); rv.reverse();
            if sfx.as_ref() != Ok(&rv) { out.push(format!("EncoderHuffmanTree::from_float_probabilities::<f32>({:?}): suffix form of symbol {} = {:?}", wf, s, sfx)); }
            let mut bits = cb[s].clone(); bits.extend([false, true]);
            let r = decode(&d, &bits);
            if r != Ok((s, cb[s].len())) { out.push(format!("DecoderHuffmanTree::from_float_probabilities::<f32>({:?}): decoding {:?} gives {:?}, expected symbol {}", wf, cb[s], r, s)); }
            // what the encoder emits must decode to the same symbol with the decoder built from the same weights
            if let Ok(pb) = &p { let mut b2 = pb.clone(); b2.extend([true, false]); let r2 = decode(&d, &b2); if r2 != Ok((s, pb.len())) { out.push(format!("f32 Huffman trees disagree for weights {:?}: encoder emits {:?} for symbol {}, decoder reads {:?}", wf, pb, s, r2)); } }
        }
        }
        (out, checks)
    });
    match r { Ok((out, checks)) => { rep.checks += checks; for d in out { rep.mismatch(case, d); } } Err(m) => rep.mismatch(case, format!("panic: {}", m)) }
}

fn golomb_one<N>(n: N, cw: &[bool], what: &str) -> Vec<String>
where N: num_traits::Unsigned + num_traits::PrimInt + num_traits::WrappingAdd + num_traits::WrappingSub + core::fmt::Debug {
    let c = ExpGolomb::<N>::new(); let mut out = vec![];
    let p = prefix(&c, n); if p.as_deref() != Ok(cw) { out.push(format!("{}: codeword of {:?} = {:?}, spec {:?}", what, n, p, cw)); }
    let mut r = cw.to_vec(); r.reverse();
    let s = suffix(&c, n); if s.as_deref() != Ok(&r[..]) { out.push(format!("{}: suffix form of {:?} = {:?}, expected {:?}", what, n, s, r)); }
    let mut bits = cw.to_vec(); bits.extend([true, true, false]);
    let d = decode(&c, &bits); if d != Ok((n, cw.len())) { out.push(format!("{}: decoding the codeword of {:?} gives {:?}", what, n, d)); }
    // truncated codewords are errors, never wrong values
    if cw.len() > 1 { let d = decode(&c, &cw[..cw.len() - 1]); if d.is_ok() { out.push(format!("{}: truncated codeword of {:?} decodes to {:?}", what, n, d)); } }
    // through the bit coders
    let mut q = QueueEncoder::<u8, Vec<u8>>::new(); let mut st = StackCoder::<u8, Vec<u8>>::new();
    for _ in 0..2 { WriteBitStream::<Queue>::encode_symbol(&mut q, n, &c).unwrap(); WriteBitStream::<Stack>::encode_symbol(&mut st, n, &c).unwrap(); }
    let mut qd = q.into_decoder().unwrap();
    for _ in 0..2 { let a = ReadBitStream::<Queue>::decode_symbol(&mut qd, &c); let b = ReadBitStream::<Stack>::decode_symbol(&mut st, &c);
        if !matches!(a, Ok(x) if x == n) || !matches!(b, Ok(x) if x == n) { out.push(format!("{}: bit coders do not round-trip {:?}", what, n)); } }
    out
}

pub fn golomb_case(case: &Value, _mode: &str, rep: &mut Report) {
    let r = guarded(|| {
        let mut out = vec![]; let mut checks = 0u64;
        if case["k"] == "expgolomb" {
            let n = case["n"].as_u64().unwrap(); let cw = bits_of(&case["codeword"]); let b = case["B"].as_u64().unwrap();
            checks += 5;
            if b >= 8 && n <= u8::MAX as u64 { out.extend(golomb_one::<u8>(n as u8, &cw, "ExpGolomb<u8>")); }
            if b >= 16 && n <= u16::MAX as u64 { out.extend(golomb_one::<u16>(n as u16, &cw, "ExpGolomb<u16>")); }
            if b >= 16 { out.extend(golomb_one::<u128>(n as u128, &cw, "ExpGolomb<u128>")); out.extend(golomb_one::<u32>(n as u32, &cw, "ExpGolomb<u32>")); out.extend(golomb_one::<u64>(n, &cw, "ExpGolomb<u64>")); out.extend(golomb_one::<usize>(n as usize, &cw, "ExpGolomb<usize>")); }
        } else {
            for b in [8u32, 16, 32, 64, 128].iter() {
                for c in case["cases"][b.to_string().as_str()].as_array().unwrap() {
                    let d = c["d"].as_u64().unwrap(); let cw = bits_of(&c["codeword"]); checks += 1;
                    match b { 8 => out.extend(golomb_one::<u8>(u8::MAX - d as u8, &cw, "ExpGolomb<u8>")), 16 => out.extend(golomb_one::<u16>(u16::MAX - d as u16, &cw, "ExpGolomb<u16>")),
                              32 => out.extend(golomb_one::<u32>(u32::MAX - d as u32, &cw, "ExpGolomb<u32>")), 128 => out.extend(golomb_one::<u128>(u128::MAX - d as u128, &cw, "ExpGolomb<u128>")), _ => { out.extend(golomb_one::<u64>(u64::MAX - d, &cw, "ExpGolomb<u64>")); out.extend(golomb_one::<usize>(usize::MAX - d as usize, &cw, "ExpGolomb<usize>")); } }
                }
            }
        }
        (out, checks)
    });
    match r { Ok((out, checks)) => { rep.checks += checks; rep.class(case["k"].as_str().unwrap()); for d in out { rep.mismatch(case, d); } } Err(m) => rep.mismatch(case, format!("panic: {}", m)) }
}

/// impl -> spec: codebooks of large alphabets (code words longer than 64 bits) recorded for TraceHuffman.tla
pub fn drive_huffman(seed: u64, out: &str) -> Report {
    use rand::{Rng, SeedableRng};
    use std::io::Write;
    let mut rng = rand_xoshiro::Xoshiro256StarStar::seed_from_u64(seed ^ 0x4aff);
    let mut rep = Report::default();
    let mut f = std::io::BufWriter::new(std::fs::File::create(out).unwrap());
    let fib = |n: usize| -> Vec<u64> { let mut v = vec![1u64, 1]; while v.len() < n { let l = v.len(); v.push(v[l - 1] + v[l - 2]); } v.truncate(n); v };
    let mut tables: Vec<(String, Vec<u64>, Option<Vec<f64>>)> = vec![];
    for n in [66usize, 70, 90] { tables.push((format!("fibonacci u64 n={}", n), fib(n), None)); let mut r = fib(n); r.reverse(); tables.push((format!("reversed fibonacci u64 n={}", n), r, None)); }
    tables.push(("geometric f64 n=80".into(), vec![], Some((0..80).map(|i| 2f64.powi(i)).collect())));
    tables.push(("geometric f64 decreasing n=75".into(), vec![], Some((0..75).map(|i| 2f64.powi(-i)).collect())));
    for k in 0..6 { let n = rng.gen_range(2..40usize); tables.push((format!("random with ties and zeros #{} n={}", k, n), (0..n).map(|_| rng.gen_range(0..4u64)).collect(), None)); }
    for (name, w, wf) in tables {
        set_thread_case(rep.cases as usize, &serde_json::json!({"k": "drive_huffman", "name": name}).to_string());
        let r = guarded(|| {
            let (enc, dec) = match &wf { Some(x) => (EncoderHuffmanTree::from_float_probabilities::<f64, _>(x).unwrap(), DecoderHuffmanTree::from_float_probabilities::<f64, _>(x).unwrap()), None => (EncoderHuffmanTree::from_probabilities::<u64, _>(&w), DecoderHuffmanTree::from_probabilities::<u64, _>(&w)) };
            let n = enc.num_symbols();
            let prefix: Vec<Vec<bool>> = (0..n).map(|s| prefix(&enc, s).unwrap()).collect();
            let sfx: Vec<Vec<bool>> = (0..n).map(|s| suffix(&enc, s).unwrap()).collect();
            let decoded: Vec<i64> = prefix.iter().map(|cw| decode(&dec, cw).map(|(s, used)| if used == cw.len() { s as i64 } else { -2 }).unwrap_or(-1)).collect();
            let syms: Vec<usize> = (0..n).chain((0..n).rev()).collect();
            let mut q = QueueEncoder::<u32, Vec<u32>>::new(); let mut st = StackCoder::<u32, Vec<u32>>::new();
            for s in &syms { WriteBitStream::<Queue>::encode_symbol(&mut q, *s, &enc).unwrap(); }
            st.encode_symbols_reverse(syms.iter().map(|s| (*s, &enc))).unwrap();
            let mut qd = q.into_decoder().unwrap();
            let gq: Vec<usize> = syms.iter().map(|_| ReadBitStream::<Queue>::decode_symbol(&mut qd, &dec).unwrap_or(usize::MAX)).collect();
            let gs: Vec<usize> = syms.iter().map(|_| ReadBitStream::<Stack>::decode_symbol(&mut st, &dec).unwrap_or(usize::MAX)).collect();
            let rejects = [n, n + 1, 2 * n, usize::MAX].iter().all(|s| prefix_err(&enc, *s));
            (n, prefix, sfx, decoded, gq == syms, gs == syms, rejects)
        });
        fn prefix_err(e: &EncoderHuffmanTree, s: usize) -> bool { prefix(e, s).is_err() }
        let b2 = |v: &Vec<Vec<bool>>| -> Vec<Vec<u8>> { v.iter().map(|c| c.iter().map(|b| *b as u8).collect()).collect() };
        let rec = match r {
            Ok((n, p, s, d, qr, sr, rj)) => { if p.iter().any(|c| c.len() > 64) { rep.class("codeword_longer_than_64_bits"); } serde_json::json!({"name": name, "n": n, "prefix": b2(&p), "suffix": b2(&s), "decoded": d, "queue_roundtrip": qr, "stack_roundtrip": sr, "rejects_outside": rj, "panic": ""}) }
            Err(m) => serde_json::json!({"name": name, "n": 0, "prefix": [], "suffix": [], "decoded": [], "queue_roundtrip": false, "stack_roundtrip": false, "rejects_outside": false, "panic": m}),
        };
        writeln!(f, "{}", rec).unwrap(); rep.cases += 1;
    }
    rep.checks = rep.cases;
    rep
}
