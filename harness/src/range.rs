//! Dynamic (width-erased) access to the real `RangeEncoder` / `RangeDecoder` (Vec / Cursor backends).
use crate::tab::Tab;
use crate::tiny::*;
use constriction::backends::Cursor;
use constriction::stream::queue::{EncoderSituation, RangeCoderState, RangeDecoder, RangeEncoder};
use constriction::stream::{Decode, Encode};
use constriction::{CoderError, DefaultEncoderFrontendError, Pos, Seek};
use core::num::NonZeroUsize;

pub type Words = Vec<u128>;

#[derive(Clone, Debug, PartialEq, Eq)]
pub struct EncRaw { pub bulk: Words, pub lower: u128, pub range: u128, pub sit_n: usize, pub sit_w: u128 }
#[derive(Clone, Debug, PartialEq, Eq)]
pub struct DecRaw { pub lower: u128, pub range: u128, pub point: u128, pub pos: usize }

pub trait REncDyn {
    fn clone_box(&self) -> Box<dyn REncDyn>;
    fn raw(&self) -> EncRaw;
    fn enc(&mut self, prec: usize, cdf: &[u64], sym: usize) -> Result<(), String>;
    fn enc_iid(&mut self, prec: usize, cdf: &[u64], syms: &[usize]) -> Result<(), String>;
    fn enc_symbols(&mut self, prec: usize, items: &[(usize, Vec<u64>)]) -> Result<(), String>;
    fn into_compressed(self: Box<Self>) -> Words;
    fn into_decoder(self: Box<Self>) -> Box<dyn RDecDyn>;
    fn get_compressed(&mut self) -> Words;
    /// decode `tabs` with the temporary decoder returned by `decoder()`, then drop it
    fn temp_decode(&mut self, prec: usize, tabs: &[Vec<u64>]) -> Vec<Result<usize, String>>;
    fn num_words(&self) -> usize;
    fn num_bits(&self) -> usize;
    fn is_empty(&self) -> bool;
    fn pos(&self) -> (usize, u128, u128);
    fn clear(&mut self);
}
pub trait RDecDyn {
    fn clone_box(&self) -> Box<dyn RDecDyn>;
    fn raw(&self) -> DecRaw;
    fn dec(&mut self, prec: usize, cdf: &[u64]) -> Result<usize, String>;
    fn dec_iid(&mut self, prec: usize, cdf: &[u64], n: usize) -> Vec<Result<usize, String>>;
    fn dec_symbols(&mut self, prec: usize, tabs: &[Vec<u64>]) -> Vec<Result<usize, String>>;
    fn maybe_exhausted(&self) -> bool;
    fn seek(&mut self, pos: usize, lower: u128, range: u128) -> Result<(), ()>;
}

pub struct EInst<W: constriction::BitArray, S: constriction::BitArray>(pub RangeEncoder<W, S, Vec<W>>);
pub struct DInst<W: constriction::BitArray + Into<S>, S: constriction::BitArray + num_traits::AsPrimitive<W>>(pub RangeDecoder<W, S, Cursor<W, Vec<W>>>);

fn enc_err<E: core::fmt::Debug>(e: CoderError<DefaultEncoderFrontendError, E>) -> String {
    match e {
        CoderError::Frontend(DefaultEncoderFrontendError::ImpossibleSymbol) => "impossible".into(),
        CoderError::Backend(b) => format!("backend:{:?}", b),
    }
}
fn dec_err<F: core::fmt::Debug, E: core::fmt::Debug>(e: CoderError<F, E>) -> String {
    match e { CoderError::Frontend(f) => format!("{:?}", f), CoderError::Backend(b) => format!("backend:{:?}", b) }
}

macro_rules! range_inst {
    ($W:ty, $S:ty, [$($P:literal),*]) => {
        impl REncDyn for EInst<$W, $S> {
            fn clone_box(&self) -> Box<dyn REncDyn> { Box::new(EInst::<$W, $S>(self.0.clone())) }
            fn raw(&self) -> EncRaw {
                let (b, st, sit) = self.0.clone().into_raw_parts();
                let (n, w) = match sit { EncoderSituation::Normal => (0, 0), EncoderSituation::Inverted(n, w) => (n.get(), w.to_u128()) };
                EncRaw { bulk: b.into_iter().map(|w| w.to_u128()).collect(), lower: st.lower().to_u128(), range: constriction::NonZeroBitArray::get(st.range()).to_u128(), sit_n: n, sit_w: w }
            }
            fn enc(&mut self, prec: usize, cdf: &[u64], sym: usize) -> Result<(), String> {
                match prec { $($P => if crate::tab::narrow::<<$W as crate::tab::NarrowOf>::N, $P>() { self.0.encode_symbol(sym, Tab::<<$W as crate::tab::NarrowOf>::N, $P>::new(cdf)).map_err(enc_err) } else { self.0.encode_symbol(sym, Tab::<$W, $P>::new(cdf)).map_err(enc_err) },)* _ => panic!("unsupported precision {}", prec) }
            }
            fn enc_iid(&mut self, prec: usize, cdf: &[u64], syms: &[usize]) -> Result<(), String> {
                match prec { $($P => if crate::tab::narrow::<<$W as crate::tab::NarrowOf>::N, $P>() { self.0.encode_iid_symbols(syms, Tab::<<$W as crate::tab::NarrowOf>::N, $P>::new(cdf)).map_err(enc_err) } else { self.0.encode_iid_symbols(syms, Tab::<$W, $P>::new(cdf)).map_err(enc_err) },)* _ => panic!("unsupported precision {}", prec) }
            }
            fn enc_symbols(&mut self, prec: usize, items: &[(usize, Vec<u64>)]) -> Result<(), String> {
                match prec { $($P => if crate::tab::narrow::<<$W as crate::tab::NarrowOf>::N, $P>() { self.0.encode_symbols(items.iter().map(|(s, c)| (*s, Tab::<<$W as crate::tab::NarrowOf>::N, $P>::new(c)))).map_err(enc_err) } else { self.0.encode_symbols(items.iter().map(|(s, c)| (*s, Tab::<$W, $P>::new(c)))).map_err(enc_err) },)* _ => panic!("unsupported precision {}", prec) }
            }
            fn into_compressed(self: Box<Self>) -> Words { self.0.into_compressed().unwrap().into_iter().map(|w| w.to_u128()).collect() }
            fn into_decoder(self: Box<Self>) -> Box<dyn RDecDyn> { Box::new(DInst::<$W, $S>(self.0.into_decoder().unwrap())) }
            fn get_compressed(&mut self) -> Words { let g = self.0.get_compressed(); g.iter().map(|w| w.to_u128()).collect() }
            fn temp_decode(&mut self, prec: usize, tabs: &[Vec<u64>]) -> Vec<Result<usize, String>> {
                let mut d = self.0.decoder();
                tabs.iter().map(|c| match prec { $($P => if crate::tab::narrow::<<$W as crate::tab::NarrowOf>::N, $P>() { d.decode_symbol(Tab::<<$W as crate::tab::NarrowOf>::N, $P>::new(c)).map_err(dec_err) } else { d.decode_symbol(Tab::<$W, $P>::new(c)).map_err(dec_err) },)* _ => panic!("unsupported precision {}", prec) }).collect()
            }
            fn num_words(&self) -> usize { self.0.num_words() }
            fn num_bits(&self) -> usize { self.0.num_bits() }
            fn is_empty(&self) -> bool { self.0.is_empty() }
            fn pos(&self) -> (usize, u128, u128) { let (p, st) = self.0.pos(); (p, st.lower().to_u128(), constriction::NonZeroBitArray::get(st.range()).to_u128()) }
            fn clear(&mut self) { self.0.clear() }
        }
        impl RDecDyn for DInst<$W, $S> {
            fn clone_box(&self) -> Box<dyn RDecDyn> { Box::new(DInst::<$W, $S>(self.0.clone())) }
            fn raw(&self) -> DecRaw {
                let (b, st, point) = self.0.clone().into_raw_parts();
                DecRaw { lower: st.lower().to_u128(), range: constriction::NonZeroBitArray::get(st.range()).to_u128(), point: point.to_u128(), pos: b.pos() }
            }
            fn dec(&mut self, prec: usize, cdf: &[u64]) -> Result<usize, String> {
                match prec { $($P => if crate::tab::narrow::<<$W as crate::tab::NarrowOf>::N, $P>() { self.0.decode_symbol(Tab::<<$W as crate::tab::NarrowOf>::N, $P>::new(cdf)).map_err(dec_err) } else { self.0.decode_symbol(Tab::<$W, $P>::new(cdf)).map_err(dec_err) },)* _ => panic!("unsupported precision {}", prec) }
            }
            fn dec_iid(&mut self, prec: usize, cdf: &[u64], n: usize) -> Vec<Result<usize, String>> {
                match prec { $($P => if crate::tab::narrow::<<$W as crate::tab::NarrowOf>::N, $P>() { self.0.decode_iid_symbols(n, Tab::<<$W as crate::tab::NarrowOf>::N, $P>::new(cdf)).take(n + 5).map(|r| r.map_err(dec_err)).collect() } else { self.0.decode_iid_symbols(n, Tab::<$W, $P>::new(cdf)).take(n + 5).map(|r| r.map_err(dec_err)).collect() },)* _ => panic!("unsupported precision {}", prec) }
            }
            fn dec_symbols(&mut self, prec: usize, tabs: &[Vec<u64>]) -> Vec<Result<usize, String>> {
                match prec { $($P => if crate::tab::narrow::<<$W as crate::tab::NarrowOf>::N, $P>() { self.0.decode_symbols(tabs.iter().map(|c| Tab::<<$W as crate::tab::NarrowOf>::N, $P>::new(c))).map(|r| r.map_err(dec_err)).collect() } else { self.0.decode_symbols(tabs.iter().map(|c| Tab::<$W, $P>::new(c))).map(|r| r.map_err(dec_err)).collect() },)* _ => panic!("unsupported precision {}", prec) }
            }
            fn maybe_exhausted(&self) -> bool { self.0.maybe_exhausted() }
            fn seek(&mut self, pos: usize, lower: u128, range: u128) -> Result<(), ()> {
                let st = RangeCoderState::<$W, $S>::new(<$S>::from_u128_trunc(lower), <$S>::from_u128_trunc(range))?;
                self.0.seek((pos, st))
            }
        }
    };
}

macro_rules! range_table {
    ($( ($W:ty, $S:ty, [$($P:literal),*]) ),* $(,)?) => {
        $( range_inst!($W, $S, [$($P),*]); )*
        fn conv<T: VInt>(v: &[u128]) -> Vec<T> { v.iter().map(|x| { assert!(T::nbits() == 128 || *x >> T::nbits() == 0, "word {} too wide", x); T::from_u128_trunc(*x) }).collect() }
        pub fn renc_new(w: u32, s: u32) -> Box<dyn REncDyn> {
            $( if w == <$W>::nbits() && s == <$S>::nbits() { return Box::new(EInst::<$W, $S>(RangeEncoder::new())); } )*
            panic!("unsupported widths {}/{}", w, s)
        }
        /// encoder writing after existing content of the sink
        pub fn renc_with_backend(w: u32, s: u32, prefix: &[u128]) -> Box<dyn REncDyn> {
            $( if w == <$W>::nbits() && s == <$S>::nbits() { return Box::new(EInst::<$W, $S>(RangeEncoder::with_backend(conv::<$W>(prefix)))); } )*
            panic!("unsupported widths {}/{}", w, s)
        }
        pub fn renc_from_raw(w: u32, s: u32, r: &EncRaw) -> Box<dyn REncDyn> {
            $( if w == <$W>::nbits() && s == <$S>::nbits() {
                let st = RangeCoderState::<$W, $S>::new(<$S>::from_u128_trunc(r.lower), <$S>::from_u128_trunc(r.range)).expect("range invariant");
                let sit = if r.sit_n == 0 { EncoderSituation::Normal } else { EncoderSituation::Inverted(NonZeroUsize::new(r.sit_n).unwrap(), <$W>::from_u128_trunc(r.sit_w)) };
                return Box::new(EInst::<$W, $S>(RangeEncoder::from_raw_parts(conv::<$W>(&r.bulk), st, sit)));
            } )*
            panic!("unsupported widths {}/{}", w, s)
        }
        pub fn rdec_from_compressed(w: u32, s: u32, words: &[u128]) -> Box<dyn RDecDyn> {
            $( if w == <$W>::nbits() && s == <$S>::nbits() { return Box::new(DInst::<$W, $S>(RangeDecoder::from_compressed(conv::<$W>(words)).unwrap())); } )*
            panic!("unsupported widths {}/{}", w, s)
        }
        pub fn range_supported() -> Vec<(u32, u32)> { vec![$( (<$W>::nbits(), <$S>::nbits()) ),*] }
    };
}

range_table!(
    (U2, U4, [1, 2]), (U2, U6, [1, 2]), (U2, U8t, [1, 2]),
    (U3, U6, [1, 2, 3]), (U3, U9, [1, 2, 3]), (U4, U8t, [1, 2, 3, 4]), (U4, U12, [1, 2, 3, 4]),
    (u8, u16, [1, 2, 3, 4, 5, 6, 7, 8]), (u8, u32, [1, 4, 8]),
    (u16, u32, [1, 4, 8, 12, 16]), (u16, u64, [1, 8, 12, 16]),
    (u32, u64, [1, 8, 12, 16, 24, 32]), (u32, u128, [1, 16, 24, 32]),
    (u64, u128, [1, 16, 24, 32, 40, 48]), (u8, u128, [1, 4, 8]), (u16, u128, [1, 8, 16]), (u8, u64, [1, 4, 8])
);
