mod tiny;
mod common;
mod tab;
mod ans;
mod ans_replay;
mod range;
mod range_replay;
mod models;
mod backend_replay;
mod bits_replay;
mod symbol_replay;
mod chain;
mod drive;
mod selftest;
mod drive_models;
mod ans_bounded;
mod ans_seek;
mod chain_replay;
mod pydiff;

fn optc<T: std::str::FromStr>(args: &[String], name: &str) -> Option<T> { args.iter().position(|a| a == name).and_then(|i| args.get(i + 1)).and_then(|s| s.parse().ok()) }

fn main() {
    common::install_panic_hook();
    let args: Vec<String> = std::env::args().collect();
    if args.len() < 2 { eprintln!("usage: vh <cmd> ..."); std::process::exit(2); }
    let opt = |name: &str| -> Option<String> { args.iter().position(|a| a == name).and_then(|i| args.get(i + 1).cloned()) };
    let out = opt("--out").unwrap_or_else(|| "/dev/stdout".into());
    let input = opt("--in");
    let seed: u64 = opt("--seed").and_then(|s| s.parse().ok()).unwrap_or(0);
    let n: u64 = opt("--n").and_then(|s| s.parse().ok()).unwrap_or(100);
    let cmd = args[1].clone();
    let argv = args.clone();
    *common::ABORT_FILE.lock().unwrap() = format!("{}.abort", out);
    let skip: std::collections::HashSet<usize> = opt("--skip").map(|s| s.split(',').filter_map(|x| x.parse().ok()).collect()).unwrap_or_default();
    let mode = opt("--mode").unwrap_or_default();
    if args.iter().any(|a| a == "--narrow") { tab::NARROW.store(true, std::sync::atomic::Ordering::Relaxed); }
    common::run_with_watchdog(&out, 30, move || match cmd.as_str() {
        "drive_ans" => {
            let w: u32 = optc(&argv, "--w").unwrap(); let s: u32 = optc(&argv, "--s").unwrap();
            let precs: Vec<usize> = optc::<String>(&argv, "--precs").unwrap().split(',').map(|x| x.parse().unwrap()).collect();
            drive::drive_ans(w, s, &precs, seed, n as usize, &optc::<String>(&argv, "--trace").unwrap())
        }
        "drive_bits" => bits_replay::drive_bits(seed, n as usize, &optc::<String>(&argv, "--trace").unwrap()),
        "drive_huffman" => symbol_replay::drive_huffman(seed, &optc::<String>(&argv, "--trace").unwrap()),
        "selftest_tiny" => selftest::selftest_tiny(),
        "drive_models" => drive_models::drive_models(seed, n as usize, &optc::<String>(&argv, "--trace").unwrap()),
        "drive_range_steered" => {
            let w: u32 = optc(&argv, "--w").unwrap(); let s: u32 = optc(&argv, "--s").unwrap(); let p: usize = optc(&argv, "--p").unwrap();
            drive::drive_range_steered(w, s, p, seed, argv.iter().any(|a| a == "--long"), &optc::<String>(&argv, "--trace").unwrap())
        }
        "drive_bound" => drive::drive_bound(seed, n as usize),
        "drive_chain" => {
            let w: u32 = optc(&argv, "--w").unwrap(); let s: u32 = optc(&argv, "--s").unwrap();
            let precs: Vec<usize> = optc::<String>(&argv, "--precs").unwrap().split(',').map(|x| x.parse().unwrap()).collect();
            drive::drive_chain(w, s, &precs, seed, n as usize, &optc::<String>(&argv, "--trace").unwrap())
        }
        "drive_range" => {
            let w: u32 = optc(&argv, "--w").unwrap(); let s: u32 = optc(&argv, "--s").unwrap();
            let precs: Vec<usize> = optc::<String>(&argv, "--precs").unwrap().split(',').map(|x| x.parse().unwrap()).collect();
            drive::drive_range(w, s, &precs, seed, n as usize, &optc::<String>(&argv, "--trace").unwrap())
        }
        "pydiff" => pydiff::pydiff(&input.expect("--in")),
        "replay" => ans_replay::replay_file(&input.expect("--in"), &mode, &skip),
        _ => { eprintln!("unknown command {} (seed {}, n {})", cmd, seed, n); std::process::exit(2) }
    });
}
