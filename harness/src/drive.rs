//! Drivers (impl -> spec): run the real coders through seeded random histories and record one ndjson event per public
//! call, after it returned, for trace validation by TLC (TraceAns.tla exact, AbsAns.tla format-agnostic, ...).
use crate::ans::*;
use crate::common::*;
use rand::{Rng, SeedableRng};
use rand_xoshiro::Xoshiro256StarStar;
use serde_json::{json, Value};
use std::io::Write;

pub fn hexwords(v: &[u128]) -> Value { Value::Array(v.iter().map(|x| json!(format!("{:x}", x))).collect()) }

/// random table with 2..=5 entries at precision `prec`, biased towards extreme probabilities (1 and 2^P - 1 quanta)
pub fn random_cdf(rng: &mut Xoshiro256StarStar, prec: usize) -> Vec<u64> {
    let t = 1u64 << prec;
    if t == 2 { return vec![0, 1, 2]; }
    match rng.gen_range(0..6) {
        0 => vec![0, 1, t], 1 => vec![0, t - 1, t],
        2 => { let c = rng.gen_range(1..t); vec![0, c, t] }
        _ => { let n = rng.gen_range(2..=5usize.min(t as usize)); let mut cuts: Vec<u64> = (0..n - 1).map(|_| rng.gen_range(1..t)).collect(); cuts.sort(); cuts.dedup(); let mut v = vec![0]; v.extend(cuts); v.push(t); v }
    }
}
fn model_id(prec: usize, cdf: &[u64]) -> String { format!("{}:{:?}", prec, cdf) }

/// ANS driver. `precs`: precisions instantiated for (w, s). Writes `<out>.exact.ndjson` (numeric, only when s <= 16)
/// and `<out>.abs.ndjson` (format-agnostic).
pub fn drive_ans(w: u32, s: u32, precs: &[usize], seed: u64, n_events: usize, out: &str) -> Report {
    let mut rep = Report::default();
    let mut rng = Xoshiro256StarStar::seed_from_u64(seed ^ ((w as u64) << 32) ^ ((s as u64) << 40));
    let exact = true; // all widths: validated by TraceAns.tla (s <= 16) and, as limb sequences, by TraceBigAns.tla (any width)
    let mut fe = std::io::BufWriter::new(std::fs::File::create(format!("{}.exact.ndjson", out)).unwrap());
    let mut fa = std::io::BufWriter::new(std::fs::File::create(format!("{}.abs.ndjson", out)).unwrap());
    let wmask: u128 = if w >= 128 { u128::MAX } else { (1u128 << w) - 1 };
    let mut base_id = 0u64;
    let mut coder = ans_new(w, s);
    let raw_json = |c: &Box<dyn AnsDyn>| { let (b, st) = c.raw(); (vals(&b), to_val(st)) };
    macro_rules! ex { ($($t:tt)*) => { if exact { writeln!(fe, "{}", json!($($t)*)).unwrap(); } } }
    macro_rules! ab { ($($t:tt)*) => { writeln!(fa, "{}", json!($($t)*)).unwrap(); } }
    ex!({"ev": "new", "state": 0, "bulk": []}); ab!({"ev": "base", "id": base_id});
    // shadow of the abstract state, to pick sensible operations
    let mut stack: Vec<(usize, Vec<u64>, usize)> = vec![];
    let mut debt: Vec<(usize, Vec<u64>, usize)> = vec![];
    let mut exported: std::collections::HashSet<String> = Default::default();
    let mut force_export = false;
    for ev in 0..n_events {
        rep.cases += 1;
        let key = format!("{}|{:?}|{:?}", base_id, debt, stack);
        // revisit: when the abstract state was exported before, export again (that is what the specification compares)
        let mut choice = rng.gen_range(0..100);
        if force_export && exported.contains(&key) && rng.gen_bool(0.85) { choice = 80; rep.class("export_revisit"); }
        force_export = false;
        if ev % 200 == 199 || choice < 1 {
            // restart from fresh words (compressed or binary import)
            let len = rng.gen_range(0..(2 * (s / w) as usize + 3));
            let mut words: Vec<u128> = (0..len).map(|_| match rng.gen_range(0..5) { 0 => 0, 1 => wmask, _ => rng.gen::<u128>() & wmask }).collect();
            base_id += 1; stack.clear(); debt.clear();
            if rng.gen_bool(0.5) {
                match ans_from_compressed(w, s, &words) {
                    Ok(c) => { coder = c; let (b, st) = raw_json(&coder); ex!({"ev": "from_compressed", "words": vals(&words), "state": st, "bulk": b}); ab!({"ev": "base", "id": base_id}); rep.class("from_compressed"); }
                    Err(_) => { ex!({"ev": "from_compressed_refused", "words": vals(&words)}); if let Some(l) = words.last_mut() { *l = 1; } coder = ans_from_compressed(w, s, &words).ok().expect("accepts non-zero last word");
                        let (b, st) = raw_json(&coder); ex!({"ev": "from_compressed", "words": vals(&words), "state": st, "bulk": b}); ab!({"ev": "base", "id": base_id}); rep.class("from_compressed_refused"); }
                }
            } else {
                coder = ans_from_binary(w, s, &words); let (b, st) = raw_json(&coder);
                ex!({"ev": "from_binary", "words": vals(&words), "state": st, "bulk": b}); ab!({"ev": "base", "id": base_id}); rep.class("from_binary");
                // binary export of untouched binary data returns it (C04), num_valid_bits exact
                let ib = coder.clone_box().into_binary();
                if ib.as_ref() != Ok(&words) || coder.num_valid_bits() != words.len() * w as usize { rep.mismatch(&json!({"k": "drive_ans", "w": w, "s": s, "seed": seed, "words": vals(&words)}), format!("from_binary({:?}): into_binary = {:?}, num_valid_bits = {}", words, ib, coder.num_valid_bits())); }
            }
            continue;
        }
        if choice < 40 || (stack.is_empty() && debt.is_empty() && choice < 60) {
            // push: prefer cancelling debt
            let (prec, cdf, sym) = if stack.is_empty() && !debt.is_empty() && rng.gen_bool(0.8) { debt.last().unwrap().clone() } else {
                let prec = precs[rng.gen_range(0..precs.len())]; let cdf = random_cdf(&mut rng, prec); let sym = rng.gen_range(0..cdf.len() - 1); (prec, cdf, sym) };
            coder.enc(prec, &cdf, sym).expect("encode in-support symbol");
            let (b, st) = raw_json(&coder);
            ex!({"ev": "enc", "P": prec, "c": cdf[sym], "p": cdf[sym + 1] - cdf[sym], "state": st, "bulk": b});
            ab!({"ev": "enc", "model": model_id(prec, &cdf), "sym": sym});
            if stack.is_empty() && debt.last() == Some(&(prec, cdf.clone(), sym)) { debt.pop(); rep.class("debt_cancelled"); } else { stack.push((prec, cdf, sym)); }
            rep.class("enc"); force_export = true;
        } else if choice < 75 {
            // pop: with the top frame's model, or (below the base) with a random model
            let (prec, cdf) = match stack.last() { Some((p, c, _)) => (*p, c.clone()), None => { let prec = precs[rng.gen_range(0..precs.len())]; (prec, random_cdf(&mut rng, prec)) } };
            let sym = coder.dec(prec, &cdf);
            let (b, st) = raw_json(&coder);
            ex!({"ev": "dec", "P": prec, "c": cdf[sym], "p": cdf[sym + 1] - cdf[sym], "state": st, "bulk": b});
            ab!({"ev": "dec", "model": model_id(prec, &cdf), "sym": sym});
            if stack.pop().is_none() { debt.push((prec, cdf, sym)); rep.class("dec_below_base"); } else { rep.class("dec"); }
            force_export = true;
        } else if choice < 90 {
            // inspections / exports
            exported.insert(key.clone());
            let how = rng.gen_range(0..4);
            let words = match how { 0 => coder.clone_box().into_compressed(), 1 => coder.get_compressed(), 2 => coder.iter_compressed(), _ => coder.clone_box().into_compressed() };
            let (b, st) = raw_json(&coder);
            ex!({"ev": "export", "words": vals(&words), "num_words": coder.num_words(), "num_bits": coder.num_bits(), "is_empty": coder.is_empty(), "num_valid_bits": coder.num_valid_bits(), "state": st, "bulk": b});
            ab!({"ev": "export", "how": "compressed", "words": hexwords(&words), "num_words": coder.num_words(), "num_bits": coder.num_bits(), "wbits": w, "is_empty": coder.is_empty()});
            let bin = if rng.gen_bool(0.5) { coder.get_binary() } else { coder.clone_box().into_binary() };
            let (b, st) = raw_json(&coder);
            match &bin { Ok(bw) => { ex!({"ev": "export_binary", "ok": true, "words": vals(bw), "state": st, "bulk": b});
                    ab!({"ev": "export", "how": "binary", "words": hexwords(bw), "num_words": bw.len(), "num_bits": coder.num_valid_bits(), "wbits": w, "is_empty": bw.is_empty()}); rep.class("export_binary_ok"); }
                Err(()) => { ex!({"ev": "export_binary", "ok": false, "words": [], "state": st, "bulk": b}); ab!({"ev": "noop"}); } }
            rep.class("export");
        } else if choice < 95 {
            // re-import / clone swap
            if rng.gen_bool(0.5) {
                let words = coder.clone_box().into_compressed();
                match ans_from_compressed(w, s, &words) { Ok(c) => { coder = c; } Err(_) => { rep.mismatch(&json!({"k": "drive_ans", "w": w, "s": s, "seed": seed, "event": ev}), format!("from_compressed refused exported words {:?}", words)); } }
                let (b, st) = raw_json(&coder); ex!({"ev": "reimport", "state": st, "bulk": b}); ab!({"ev": "noop"}); rep.class("reimport");
            } else { coder = coder.clone_box(); ab!({"ev": "noop"}); rep.class("clone"); }
        } else {
            // impossible symbol
            let prec = precs[rng.gen_range(0..precs.len())]; let t = 1u64 << prec;
            let r = coder.enc(prec, &[0, 0, t], 0);
            let (b, st) = raw_json(&coder);
            if r != Err("impossible".into()) { rep.mismatch(&json!({"k": "drive_ans", "w": w, "s": s, "seed": seed, "event": ev}), format!("impossible symbol returned {:?}", r)); }
            ex!({"ev": "enc_impossible", "state": st, "bulk": b}); ab!({"ev": "enc_failed"}); rep.class("enc_impossible");
        }
    }
    rep.checks += n_events as u64;
    rep
}

/// Range coder driver: messages of random length with adversarial models (symbols that straddle the word boundary are
/// preferred, to provoke held-back words), inspections between symbols, sealing, decoding and seeking.
pub fn drive_range(w: u32, s: u32, precs: &[usize], seed: u64, n_events: usize, out: &str) -> Report {
    use crate::range::*;
    let mut rep = Report::default();
    let mut rng = Xoshiro256StarStar::seed_from_u64(seed ^ 0x5eed ^ ((w as u64) << 32) ^ ((s as u64) << 40));
    let mut f = std::io::BufWriter::new(std::fs::File::create(format!("{}.exact.ndjson", out)).unwrap());
    let tail3 = |v: &[u128]| vals(&v[v.len().saturating_sub(3)..]);
    let encj = |e: &Box<dyn REncDyn>| { let r = e.raw(); json!({"lower": to_val(r.lower), "range": to_val(r.range), "sitN": r.sit_n, "sitW": to_val(r.sit_w), "bulk_len": r.bulk.len(), "bulk_tail": tail3(&r.bulk)}) };
    let mut ev = 0usize;
    while ev < n_events {
        let mut enc = renc_new(w, s);
        let mut o = encj(&enc); o["ev"] = json!("new"); writeln!(f, "{}", o).unwrap(); ev += 1;
        let n = rng.gen_range(0..120usize);
        let mut msg: Vec<(usize, Vec<u64>, usize)> = vec![];
        let mut snaps = vec![enc.pos()];
        for _ in 0..n {
            let prec = precs[rng.gen_range(0..precs.len())];
            // adversarial choice: try a few models/symbols and prefer one that leaves the encoder inverted
            let mut best: Option<(Vec<u64>, usize)> = None;
            for _ in 0..4 { let cdf = random_cdf(&mut rng, prec); let sym = rng.gen_range(0..cdf.len() - 1);
                let mut t = enc.clone_box(); t.enc(prec, &cdf, sym).unwrap(); let inv = t.raw().sit_n > 0; if best.is_none() || inv { best = Some((cdf, sym)); if inv && rng.gen_bool(0.7) { break; } } }
            let (cdf, sym) = best.unwrap();
            enc.enc(prec, &cdf, sym).unwrap();
            let mut o = encj(&enc); o["ev"] = json!("enc"); o["P"] = json!(prec); o["c"] = json!(cdf[sym]); o["p"] = json!(cdf[sym + 1] - cdf[sym]); writeln!(f, "{}", o).unwrap(); ev += 1;
            let sn = enc.raw().sit_n; if sn > 0 { rep.class("inverted"); } if sn > 1 { rep.class("inverted_2plus"); }
            msg.push((prec, cdf, sym)); snaps.push(enc.pos());
            if rng.gen_range(0..10) == 0 {
                let view = enc.get_compressed();
                let mut o = encj(&enc); o["ev"] = json!("inspect"); o["num_words"] = json!(enc.num_words()); o["is_empty"] = json!(enc.is_empty()); o["pos"] = json!(enc.pos().0);
                o["view_len"] = json!(view.len()); o["view_tail"] = tail3(&view); writeln!(f, "{}", o).unwrap(); ev += 1; rep.class("inspect");
            }
            if rng.gen_range(0..25) == 0 { let prec = precs[rng.gen_range(0..precs.len())]; let _ = enc.enc(prec, &[0, 0, 1u64 << prec], 0); let mut o = encj(&enc); o["ev"] = json!("enc_impossible"); writeln!(f, "{}", o).unwrap(); ev += 1; }
        }
        let words = enc.clone_box().into_compressed();
        let mut dec = rdec_from_compressed(w, s, &words);
        let dj = |d: &Box<dyn RDecDyn>| { let r = d.raw(); json!({"lower": to_val(r.lower), "range": to_val(r.range), "point": to_val(r.point), "pos": r.pos}) };
        let mut o = dj(&dec); o["ev"] = json!("seal"); o["words_len"] = json!(words.len()); o["words_tail"] = tail3(&words); writeln!(f, "{}", o).unwrap(); ev += 1; rep.class("seal");
        let mut at = 0usize;
        let mut steps = 0;
        while steps < 2 * n + 2 {
            steps += 1;
            if at < msg.len() && rng.gen_range(0..8) != 0 {
                let (prec, cdf, sym) = &msg[at];
                let r = dec.dec(*prec, cdf);
                if r != Ok(*sym) { rep.mismatch(&json!({"k": "drive_range", "w": w, "s": s, "seed": seed}), format!("symbol {} of a {}-symbol message decoded as {:?}, expected {} (words {:?})", at, n, r, sym, words)); break; }
                let mut o = dj(&dec); o["ev"] = json!("dec"); o["P"] = json!(prec); o["c"] = json!(cdf[*sym]); o["p"] = json!(cdf[sym + 1] - cdf[*sym]); o["maybe_exhausted"] = json!(dec.maybe_exhausted()); writeln!(f, "{}", o).unwrap(); ev += 1;
                at += 1; rep.class("dec");
            } else if !snaps.is_empty() {
                let k = rng.gen_range(0..snaps.len()); let (pos, lo, ra) = snaps[k];
                if dec.seek(pos, lo, ra).is_err() { rep.mismatch(&json!({"k": "drive_range", "w": w, "s": s, "seed": seed}), format!("seek to snapshot {} refused", k)); break; }
                let mut o = dj(&dec); o["ev"] = json!("seek"); o["target"] = json!(pos); writeln!(f, "{}", o).unwrap(); ev += 1; at = k; rep.class("seek");
            }
            if at == msg.len() && rng.gen_bool(0.5) { break; }
        }
        rep.cases += 1;
    }
    rep.checks += ev as u64;
    rep
}

/// Chain coder driver: random data, random decode histories with precision changes, the three restore modes (checked
/// here, format-agnostic) and an exact event trace for TraceChain.tla (validated where the heads fit TLC's integers).
pub fn drive_chain(w: u32, s: u32, precs: &[usize], seed: u64, n_rounds: usize, out: &str) -> Report {
    use crate::chain::*;
    let mut rep = Report::default();
    let mut rng = Xoshiro256StarStar::seed_from_u64(seed ^ 0xc4a1 ^ ((w as u64) << 32) ^ ((s as u64) << 40));
    let mut f = std::io::BufWriter::new(std::fs::File::create(format!("{}.exact.ndjson", out)).unwrap());
    let wmask: u128 = if w >= 128 { u128::MAX } else { (1u128 << w) - 1 };
    let tail3 = |v: &[u128]| vals(&v[v.len().saturating_sub(3)..]);
    let snap = |c: &Box<dyn ChainDyn>| { let (hc, hr) = c.heads(); let (comp, rem) = c.clone_box().into_remainders();
        // into_remainders flushes the heads onto `rem`: remove what it appended (the spec's IntoRemainders does the same)
        let mut extra = 1usize; let mut h = hr; while h != 0 { extra += 1; h >>= w; }
        let rem_only = &rem[..rem.len() - extra];
        json!({"hc": to_val(hc), "hr": to_val(hr), "comp_len": comp.len(), "comp_tail": tail3(&comp), "rem_len": rem_only.len(), "rem_tail": tail3(rem_only)}) };
    let ctxv = |seed: u64| json!({"k": "drive_chain", "w": w, "s": s, "seed": seed});
    for round in 0..n_rounds {
        rep.cases += 1;
        let binary = rng.gen_bool(0.5);
        let len = rng.gen_range(0..(12usize.max(2 * (s / w) as usize + 4)));
        let mut data: Vec<u128> = (0..len).map(|_| match rng.gen_range(0..6) { 0 => 0, 1 => wmask, 2 => 1, _ => rng.gen::<u128>() & wmask }).collect();
        if rng.gen_range(0..8) == 0 { let k = rng.gen_range(1..=(s / w) as usize + 1).min(data.len()); let n0 = data.len(); for x in &mut data[n0 - k..] { *x = wmask; } }
        if !binary { if let Some(l) = data.last_mut() { if *l == 0 && rng.gen_bool(0.8) { *l = 1 + (rng.gen::<u128>() & wmask).min(wmask - 1); } } }
        let mut p = precs[rng.gen_range(0..precs.len())];
        let mut cd = match chain_new(w, s, p, if binary { 0 } else { 1 }, &data) {
            Ok(c) => c,
            Err(()) => { writeln!(f, "{}", json!({"ev": "refused", "binary": binary, "words": vals(&data), "P": p})).unwrap(); rep.class("refused"); continue; }
        };
        let mut o = snap(&cd); o["ev"] = json!(if binary { "from_binary" } else { "from_compressed" }); o["words"] = vals(&data); o["P"] = json!(p); writeln!(f, "{}", o).unwrap();
        let mut hist: Vec<(usize, Vec<u64>, usize, usize)> = vec![];    // (P, cdf, sym) or precision change (oldP, [], usize::MAX, newP)
        for _ in 0..rng.gen_range(0..25usize) {
            if precs.len() > 1 && rng.gen_range(0..6) == 0 {
                let np = precs[rng.gen_range(0..precs.len())]; if np == p { continue; }
                match cd.clone_box().change(np) { Ok(c) => { cd = c; let mut o = snap(&cd); o["ev"] = json!("change"); o["P"] = json!(p); o["NP"] = json!(np); writeln!(f, "{}", o).unwrap(); hist.push((p, vec![], usize::MAX, np)); p = np; rep.class("precision_change"); }
                    Err(_) => { writeln!(f, "{}", json!({"ev": "change_failed", "P": p, "NP": np})).unwrap(); rep.class("precision_change_failed"); } }
                continue;
            }
            let cdf = random_cdf(&mut rng, p);
            match cd.dec(&cdf) {
                Ok(sym) => { let mut o = snap(&cd); o["ev"] = json!("dec"); o["P"] = json!(p); o["c"] = json!(cdf[sym]); o["p"] = json!(cdf[sym + 1] - cdf[sym]); writeln!(f, "{}", o).unwrap(); hist.push((p, cdf, sym, 0)); rep.class("dec"); }
                Err(e) => { if e != "OutOfCompressedData" { rep.mismatch(&ctxv(seed), format!("round {}: decode reported {}", round, e)); } let mut o = snap(&cd); o["ev"] = json!("dec_out_of_data"); o["P"] = json!(p); writeln!(f, "{}", o).unwrap(); rep.class("out_of_data"); break; }
            }
        }
        // restore in one of the three documented ways
        let mode = rng.gen_range(0..3);
        let (mut c2, keep): (Box<dyn ChainDyn>, Vec<u128>) = match mode {
            0 => (cd.clone_box(), vec![]),
            m => { let (pre, suf) = cd.clone_box().into_remainders(); let concat = m == 2; let mut input = if concat { pre.clone() } else { vec![] }; input.extend(suf.iter().cloned());
                match chain_new(w, s, p, 2, &input) { Ok(c) => { let mut o = snap(&c); o["ev"] = json!("from_remainders"); o["concat"] = json!(concat); o["P"] = json!(p); writeln!(f, "{}", o).unwrap(); (c, if concat { vec![] } else { pre }) }
                    Err(()) => { rep.mismatch(&ctxv(seed), format!("round {}: from_remainders refused what into_remainders returned", round)); continue; } } }
        };
        let mut failed = false;
        for h in hist.iter().rev() {
            if h.2 == usize::MAX { match c2.clone_box().change(h.0) { Ok(c) => { c2 = c; let mut o = snap(&c2); o["ev"] = json!("change"); o["P"] = json!(h.3); o["NP"] = json!(h.0); writeln!(f, "{}", o).unwrap(); } Err(e) => { rep.mismatch(&ctxv(seed), format!("round {}: undoing a precision change failed: {}", round, e)); failed = true; break; } } continue; }
            match c2.enc(&h.1, h.2) { Ok(()) => { let mut o = snap(&c2); o["ev"] = json!("enc"); o["P"] = json!(h.0); o["c"] = json!(h.1[h.2]); o["p"] = json!(h.1[h.2 + 1] - h.1[h.2]); writeln!(f, "{}", o).unwrap(); }
                Err(e) => { rep.mismatch(&ctxv(seed), format!("round {}: re-encoding failed: {}", round, e)); failed = true; break; } }
        }
        if failed { continue; }
        rep.checks += 1;
        let fin = if binary { c2.into_binary() } else { c2.into_compressed() };
        match fin { Ok((a, b)) => { let mut r = keep.clone(); r.extend(a); r.extend(b); if r != data { rep.mismatch(&ctxv(seed), format!("round {} (mode {}, binary {}): restored {:?}, original {:?}", round, mode, binary, r, data)); } rep.class(["restore_same", "restore_suffix", "restore_concat"][mode]); }
            Err(()) => rep.mismatch(&ctxv(seed), format!("round {}: export refused after re-encoding everything", round)) }
    }
    rep
}

/// C12 at the real presets: from an empty coder, after every symbol the occupied bits stay within
/// sum of information contents + n * log2(1 + 2^-(S-W-P)) (range coder: -log2(1 - 2^-(S-W-P))) + S + 2W, and words <= n + S/W + 1.
pub fn drive_bound(seed: u64, n_syms: usize) -> Report {
    use crate::range::*;
    let mut rep = Report::default();
    for (w, s, precs) in [(32u32, 64u32, vec![24usize, 16, 32, 8]), (16, 32, vec![12, 16, 8]), (16, 64, vec![16, 12]), (8, 32, vec![8, 4]), (8, 64, vec![8, 4]), (8, 16, vec![8, 4, 1]), (64, 128, vec![32, 24])] {
        let mut rng = Xoshiro256StarStar::seed_from_u64(seed ^ 0xb0d ^ ((w as u64) << 8) ^ s as u64);
        let ctxv = json!({"k": "drive_bound", "w": w, "s": s, "seed": seed});
        for mode in 0..3 {
            let fixed_p = mode != 1;
            // mode 2: adversarial message: of six random candidates take the symbol that wastes most (bits gained minus
            // information content) on the ANS coder; the bound is a worst-case statement, so it must survive that
            let n_syms = if mode == 2 { n_syms.min(1500) } else { n_syms };
            let mut ans = ans_new(w, s); let mut enc = renc_new(w, s);
            let (mut info, mut eps_ans, mut eps_rng) = (0f64, 0f64, 0f64);
            for n in 1..=n_syms {
                let prec = if fixed_p { precs[0] } else { precs[rng.gen_range(0..precs.len())] };
                let (cdf, sym) = if mode == 2 {
                    let mut best: Option<(f64, Vec<u64>, usize)> = None;
                    let before = ans.num_valid_bits() as f64;
                    for _ in 0..6 { let cdf = random_cdf(&mut rng, prec); let sym = rng.gen_range(0..cdf.len() - 1);
                        let mut t = ans.clone_box(); t.enc(prec, &cdf, sym).unwrap();
                        let waste = t.num_valid_bits() as f64 - before - (prec as f64 - ((cdf[sym + 1] - cdf[sym]) as f64).log2());
                        if best.as_ref().map_or(true, |b| waste > b.0) { best = Some((waste, cdf, sym)); } }
                    let b = best.unwrap(); (b.1, b.2)
                } else { let cdf = random_cdf(&mut rng, prec); let sym = rng.gen_range(0..cdf.len() - 1); (cdf, sym) };
                let p = (cdf[sym + 1] - cdf[sym]) as f64;
                info += prec as f64 - p.log2();
                let k = (s - w) as i32 - prec as i32;
                eps_ans += (1.0 + 2f64.powi(-k)).log2();
                eps_rng += if k > 0 { -(1.0 - 2f64.powi(-k)).log2() } else { f64::INFINITY };
                ans.enc(prec, &cdf, sym).unwrap(); enc.enc(prec, &cdf, sym).unwrap();
                rep.checks += 2;
                let bits = ans.num_valid_bits() as f64;
                if bits > info + eps_ans + (s + 2 * w) as f64 + 1e-6 { rep.mismatch(&ctxv, format!("AnsCoder<{},{}>: {} valid bits after {} symbols, bound {:.3} + {:.3} + {}", w, s, bits, n, info, eps_ans, s + 2 * w)); return rep; }
                if ans.num_words() > n + (s / w) as usize + 1 { rep.mismatch(&ctxv, format!("AnsCoder<{},{}>: {} words after {} symbols", w, s, ans.num_words(), n)); return rep; }
                let rbits = enc.num_bits() as f64;
                if eps_rng.is_finite() && rbits > info + eps_rng + (s + 2 * w) as f64 + 1e-6 { rep.mismatch(&ctxv, format!("RangeEncoder<{},{}>: {} bits after {} symbols, bound {:.3} + {:.3} + {}", w, s, rbits, n, info, eps_rng, s + 2 * w)); return rep; }
                if enc.num_words() > n + (s / w) as usize { rep.mismatch(&ctxv, format!("RangeEncoder<{},{}>: {} words after {} symbols", w, s, enc.num_words(), n)); return rep; }
                if n % 97 == 0 { let _ = enc.get_compressed(); let _ = ans.get_compressed(); let _ = ans.get_binary(); }
            }
            rep.cases += 1; rep.class(match mode { 0 => "bound_fixed_precision", 1 => "bound_varying_precision", _ => "bound_adversarial_message" });
            if w == 32 && mode == 0 { let per_symbol = eps_ans / n_syms as f64; if per_symbol >= 0.006 { rep.mismatch(&ctxv, format!("default preset rounding term {} >= 0.006 bit", per_symbol)); } rep.class("default_preset_overhead_below_0.006"); }
        }
    }
    rep
}

// ------------------------------------------------------------------------------------------------------------------
// Steered range-coder scenarios: long runs of held-back words (9, 17, 65, 257, ... words), resolved with or without a
// carry or sealed directly, with and without a temporary view in the middle; and views taken while the range is
// minimal (the seal then needs its zero padding).  These situations have probability ~2^-(W*L) under random data.
// ------------------------------------------------------------------------------------------------------------------
fn mask_s(s: u32) -> u128 { if s >= 128 { u128::MAX } else { (1u128 << s) - 1 } }

/// slot (c, p) at precision `prec` (must equal W for guaranteed renormalisation) that keeps / makes the encoder inverted
fn steer_inverted(lower: u128, range: u128, sit_n: usize, w: u32, s: u32, prec: usize) -> Option<(u64, u64)> {
    let k = s - w; let scale = range >> prec; if scale == 0 { return None; }
    let off = if sit_n > 0 { lower.wrapping_neg() & mask_s(s) } else { let next = ((lower >> k) + 1) << k; (next.wrapping_sub(lower)) & mask_s(s) };
    if off == 0 { return None; }
    let q = off / scale; if q >= (1u128 << prec) { return None; }
    Some((q as u64, 1))
}

pub fn drive_range_steered(w: u32, s: u32, prec: usize, seed: u64, long: bool, out: &str) -> Report {
    use crate::range::*;
    let mut rep = Report::default();
    let mut rng = Xoshiro256StarStar::seed_from_u64(seed ^ 0x57ee ^ ((w as u64) << 32) ^ ((s as u64) << 40));
    let mut f = std::io::BufWriter::new(std::fs::File::create(format!("{}.exact.ndjson", out)).unwrap());
    let tail3 = |v: &[u128]| vals(&v[v.len().saturating_sub(3)..]);
    let encj = |e: &Box<dyn REncDyn>| { let r = e.raw(); json!({"lower": to_val(r.lower), "range": to_val(r.range), "sitN": r.sit_n, "sitW": to_val(r.sit_w), "bulk_len": r.bulk.len(), "bulk_tail": tail3(&r.bulk)}) };
    let ctxv = json!({"k": "drive_range_steered", "w": w, "s": s, "P": prec, "seed": seed});
    let t = 1u64 << prec;
    let mut lengths: Vec<usize> = vec![1, 2, 3, 8, 9, 10, 16, 17, 33];
    if long { lengths.extend([64, 65, 70, 129, 256, 257, 300]); }
    let mut scenarios: Vec<(usize, u8, bool)> = vec![];           // (run length, ending: 0 carry, 1 no carry, 2 seal; peek)
    for &l in &lengths { for ending in 0..3u8 { for peek in [false, true] { scenarios.push((l, ending, peek)); } } }
    for _ in 0..24 { scenarios.push((0, 3, true)); }                // 3 = narrow-range peek
    for (run, ending, peek) in scenarios {
        rep.cases += 1;
        let mut enc = renc_new(w, s);
        let mut o = encj(&enc); o["ev"] = json!("new"); writeln!(f, "{}", o).unwrap();
        let mut msg: Vec<(Vec<u64>, usize)> = vec![];
        let mut snaps: Vec<(usize, u128, u128, usize)> = vec![{ let p = enc.pos(); (p.0, p.1, p.2, 0) }];
        macro_rules! push { ($cdf:expr, $sym:expr) => {{ let cdf: Vec<u64> = $cdf; let sym: usize = $sym; enc.enc(prec, &cdf, sym).unwrap(); { let p = enc.pos(); snaps.push((p.0, p.1, p.2, enc.raw().sit_n)); }
            let mut o = encj(&enc); o["ev"] = json!("enc"); o["P"] = json!(prec); o["c"] = json!(cdf[sym]); o["p"] = json!(cdf[sym + 1] - cdf[sym]); writeln!(f, "{}", o).unwrap(); msg.push((cdf, sym)); }} }
        macro_rules! peek { () => {{ let view = enc.get_compressed(); let nwords = enc.num_words(); if nwords != view.len() { rep.mismatch(&ctxv, format!("num_words() = {} but the view has {} words (run {}, {} held back)", nwords, view.len(), run, enc.raw().sit_n)); }
            let mut o = encj(&enc); o["ev"] = json!("inspect"); o["num_words"] = json!(nwords); o["is_empty"] = json!(enc.is_empty()); o["pos"] = json!(enc.pos().0); o["view_len"] = json!(view.len()); o["view_tail"] = tail3(&view); writeln!(f, "{}", o).unwrap(); }} }
        for _ in 0..rng.gen_range(0..4) { let cdf = random_cdf(&mut rng, prec); let sym = rng.gen_range(0..cdf.len() - 1); push!(cdf, sym); }
        if ending == 3 {
            // steer the range to just above 2^(S-W), look at the coder, go on
            for _ in 0..rng.gen_range(1..4) {
                let r = enc.raw(); let scale = r.range >> prec; let k = s - w;
                let need = ((1u128 << k) + scale - 1) / scale;           // smallest p with scale * p >= 2^(S-W)
                if need >= 1 && need < t as u128 { let p = need as u64; let c = rng.gen_range(0..=(t - p)); let mut cdf = vec![0u64]; if c > 0 { cdf.push(c); } cdf.push(c + p); if c + p < t { cdf.push(t); } let sym = if c > 0 { 1 } else { 0 }; push!(cdf, sym); rep.class("narrow_range"); }
                else { let cdf = random_cdf(&mut rng, prec); let sym = rng.gen_range(0..cdf.len() - 1); push!(cdf, sym); }
                peek!();
                let cdf = random_cdf(&mut rng, prec); let sym = rng.gen_range(0..cdf.len() - 1); push!(cdf, sym);
            }
        } else {
            let mut guard = 0;
            while enc.raw().sit_n < run && guard < 4 * run + 64 {
                guard += 1;
                let r = enc.raw();
                match steer_inverted(r.lower, r.range, r.sit_n, w, s, prec) {
                    Some((c, p)) => { let mut cdf = vec![0u64]; if c > 0 { cdf.push(c); } cdf.push(c + p); if c + p < t { cdf.push(t); } push!(cdf, if c > 0 { 1 } else { 0 }); }
                    None => { let cdf = random_cdf(&mut rng, prec); let sym = rng.gen_range(0..cdf.len() - 1); push!(cdf, sym); }
                }
                if enc.raw().sit_n > 0 && peek && enc.raw().sit_n == run / 2 + 1 { peek!(); }
            }
            let reached = enc.raw().sit_n;
            if reached >= run { rep.class("long_run_reached"); if run >= 9 { rep.class("run_of_9_or_more"); } if run >= 65 { rep.class("run_of_65_or_more"); } if run >= 256 { rep.class("run_of_256_or_more"); } }
            if peek { peek!(); rep.class("peek_while_holding_back"); }
            if ending < 2 && reached > 0 {
                // resolve: a slot entirely above the wrap point (carry) or entirely below it (no carry)
                let r = enc.raw(); let scale = r.range >> prec; let off = r.lower.wrapping_neg() & mask_s(s); let q = (off / scale.max(1)).min((t - 1) as u128) as u64;
                let (c, p) = if ending == 0 { if q + 1 < t { (q + 1, (t - q - 1).min(3).max(1)) } else { (0, 1) } } else { if q >= 1 { (q.saturating_sub(2), (q - q.saturating_sub(2)).max(1).min(q)) } else { (t - 1, 1) } };
                let mut cdf = vec![0u64]; if c > 0 { cdf.push(c); } cdf.push(c + p); if c + p < t { cdf.push(t); } push!(cdf, if c > 0 { 1 } else { 0 });
                if enc.raw().sit_n == 0 { rep.class(if ending == 0 { "resolved_by_later_symbol_carry_attempt" } else { "resolved_by_later_symbol_nocarry_attempt" }); }
            }
            if peek { peek!(); }
            for _ in 0..rng.gen_range(0..4) { let cdf = random_cdf(&mut rng, prec); let sym = rng.gen_range(0..cdf.len() - 1); push!(cdf, sym); }
        }
        let words = enc.clone_box().into_compressed();
        if enc.num_words() != words.len() { rep.mismatch(&ctxv, format!("num_words() = {}, sealed stream has {} words", enc.num_words(), words.len())); }
        let mut dec = rdec_from_compressed(w, s, &words);
        let dj = |d: &Box<dyn RDecDyn>| { let r = d.raw(); json!({"lower": to_val(r.lower), "range": to_val(r.range), "point": to_val(r.point), "pos": r.pos}) };
        let mut o = dj(&dec); o["ev"] = json!("seal"); o["words_len"] = json!(words.len()); o["words_tail"] = tail3(&words); writeln!(f, "{}", o).unwrap();
        rep.checks += msg.len() as u64;
        // random access: seek to snapshots taken while many words were held back (and to a few others), decode from there
        { let mut picks: Vec<usize> = vec![0, snaps.len() - 1, snaps.len() / 2];
          if let Some(i) = (0..snaps.len()).max_by_key(|i| snaps[*i].3) { picks.push(i); if i > 0 { picks.push(i - 1); } }
          for k in picks { let (pos, lo, ra, held) = snaps[k];
              if dec.seek(pos, lo, ra).is_err() { rep.mismatch(&ctxv, format!("seek to snapshot {} (position {}, {} words held back) refused", k, pos, held)); break; }
              let mut o = dj(&dec); o["ev"] = json!("seek"); o["target"] = json!(pos); writeln!(f, "{}", o).unwrap(); if held >= 256 { rep.class("seek_to_snapshot_with_256_held_back"); }
              let mut ok = true;
              for i in k..msg.len().min(k + 40) { let (cdf, sym) = &msg[i]; let r = dec.dec(prec, cdf); if r != Ok(*sym) { rep.mismatch(&ctxv, format!("after seeking to snapshot {} ({} words held back): symbol {} decoded as {:?}, expected {}", k, held, i, r, sym)); ok = false; break; }
                  let mut o = dj(&dec); o["ev"] = json!("dec"); o["P"] = json!(prec); o["c"] = json!(cdf[*sym]); o["p"] = json!(cdf[sym + 1] - cdf[*sym]); o["maybe_exhausted"] = json!(dec.maybe_exhausted()); writeln!(f, "{}", o).unwrap(); }
              if !ok { break; } }
          if dec.seek(0, snaps[0].1, snaps[0].2).is_ok() { let mut o = dj(&dec); o["ev"] = json!("seek"); o["target"] = json!(0); writeln!(f, "{}", o).unwrap(); } }
        for (i, (cdf, sym)) in msg.iter().enumerate() {
            let r = dec.dec(prec, cdf);
            if r != Ok(*sym) { rep.mismatch(&ctxv, format!("scenario (run {}, ending {}, peek {}): symbol {} of {} decoded as {:?}, expected {} ({} words)", run, ending, peek, i, msg.len(), r, sym, words.len())); break; }
            let mut o = dj(&dec); o["ev"] = json!("dec"); o["P"] = json!(prec); o["c"] = json!(cdf[*sym]); o["p"] = json!(cdf[sym + 1] - cdf[*sym]); o["maybe_exhausted"] = json!(dec.maybe_exhausted()); writeln!(f, "{}", o).unwrap();
        }
    }
    rep
}
