//! Replay of TLC-emitted `backend` cases (Backend.tla) on the real word sources / sinks.
use crate::common::*;
use constriction::backends::*;
use constriction::{Pos, Queue, Seek, Stack};
use serde_json::Value;
use smallvec::SmallVec;

/// positions far beyond any buffer (values that alias small positions when truncated to 8, 16 or 32 bits)
const FAR: [usize; 8] = [1 << 8, 1 << 16, 1 << 32, (1 << 32) + 1, 1 << 40, 1 << 63, usize::MAX - 8, (1 << 33) | (1 << 17)];
const EOF: u64 = 100; const FULL: u64 = 101; const REFUSED: u64 = 102; const OK: u64 = 103;
type Snap = (u64, Vec<u32>, usize);     // (result, buf, pos)

fn exp_of(v: &Value) -> Snap { (v["res"].as_u64().unwrap(), v["buf"].as_array().unwrap().iter().map(|x| x.as_u64().unwrap() as u32).collect(), v["pos"].as_u64().unwrap() as usize) }
fn sl<B: AsRef<[u32]>>(b: &B) -> Vec<u32> { b.as_ref().to_vec() }
fn rd(r: Result<Option<u32>, core::convert::Infallible>) -> u64 { match r { Ok(Some(w)) => w as u64, Ok(None) => EOF, Err(e) => match e {} } }

macro_rules! cmp { ($rep:expr, $case:expr, $ty:expr, $op:expr, $got:expr, $exp:expr) => {{ $rep.checks += 1; let g = $got; if g != $exp { $rep.mismatch($case, format!("{} {}: impl (result, buf, pos) = {:?}, spec {:?}", $ty, $op, g, $exp)); } }} }
macro_rules! cmpn { ($rep:expr, $case:expr, $ty:expr, $op:expr, $got:expr, $exp:expr) => {{ $rep.checks += 1; let g = $got; if g != $exp { $rep.mismatch($case, format!("{} {} = {:?}, spec {:?}", $ty, $op, g, $exp)); } }} }

/// iterator adapters over a source that is NOT fused (yields None and later words again): end-of-data must be sticky
pub fn adapters_case(case: &Value, rep: &mut Report) {
    for src in case["sources"].as_array().unwrap() {
        let s: Vec<u32> = src["src"].as_array().unwrap().iter().map(|x| x.as_u64().unwrap() as u32).collect();
        let exp: Vec<u64> = src["reads"].as_array().unwrap().iter().map(|x| x.as_u64().unwrap()).collect();
        let r = guarded(|| {
            let mut out = vec![];
            let unfused = |s: Vec<u32>| { let mut i = 0usize; std::iter::from_fn(move || { let r = s.get(i).and_then(|w| if *w == 0 { None } else { Some(*w) }); i += 1; r }) };
            { let mut b = FallibleIteratorReadWords::new(unfused(s.clone()).map(Ok::<u32, ()>));
              let got: Vec<u64> = exp.iter().map(|_| match ReadWords::<u32, Stack>::read(&mut b) { Ok(Some(w)) => w as u64, Ok(None) => EOF, Err(()) => 999 }).collect();
              if got != exp { out.push(format!("FallibleIteratorReadWords over source {:?} (0 = None): reads {:?}, spec {:?}", s, got, exp)); } }
            { let mut b = FallibleIteratorReadWords::new(unfused(s.clone()).map(Ok::<u32, ()>));
              let got: Vec<u64> = exp.iter().map(|_| match ReadWords::<u32, Queue>::read(&mut b) { Ok(Some(w)) => w as u64, Ok(None) => EOF, Err(()) => 999 }).collect();
              if got != exp { out.push(format!("FallibleIteratorReadWords (queue) over source {:?}: reads {:?}, spec {:?}", s, got, exp)); } }
            // (InfallibleIteratorReadWords::new only accepts iterators over Result, while its ReadWords impl takes the items as words:
            //  it cannot be constructed for plain word iterators, so there is nothing to drive)
            // ExactSizeIterator sources: remaining() is exact
            { let words: Vec<u32> = s.iter().cloned().filter(|w| *w != 0).collect(); let mut b = FallibleIteratorReadWords::new(words.clone().into_iter().map(Ok::<u32, ()>));
              for k in 0..=words.len() { let rem = BoundedReadWords::<u32, Stack>::remaining(&b); if rem != words.len() - k { out.push(format!("FallibleIteratorReadWords::remaining() = {} with {} words left", rem, words.len() - k)); } let _ = ReadWords::<u32, Stack>::read(&mut b); } }
            // callback sinks: a failing callback reports the error and nothing is stored; the infallible one stores everything
            { let mut sink: Vec<u32> = vec![]; let cap = s.len() / 2;
              { let mut w = FallibleCallbackWriteWords::new(|x: u32| if sink.len() < cap { sink.push(x); Ok(()) } else { Err(()) });
                for (i, x) in s.iter().enumerate() { let r = w.write(*x); if r.is_ok() != (i < cap) { out.push(format!("FallibleCallbackWriteWords: write {} returned {:?} with capacity {}", i, r, cap)); } } }
              if sink != s[..cap] { out.push(format!("FallibleCallbackWriteWords stored {:?}, expected {:?}", sink, &s[..cap])); }
              let mut sink2: Vec<u32> = vec![]; { let mut w = InfallibleCallbackWriteWords::new(|x: u32| sink2.push(x)); for x in &s { w.write(*x).unwrap(); } } if sink2 != s { out.push("InfallibleCallbackWriteWords lost words".into()); } }
            out
        });
        rep.checks += 5; rep.class("adapters");
        match r { Ok(out) => for d in out { rep.mismatch(case, d); }, Err(m) => rep.mismatch(case, format!("panic: {}", m)) }
    }
}

/// C20: the buffer of a cursor is shrunk through the accessor the API hands out (`buf_mut`), then the cursor is used again.
/// Any result is acceptable except undefined behaviour (caught as an abort by the unsafe-precondition checks).
fn shrink_case(case: &Value, buf: &[u32], pos: usize, rev: bool, rep: &mut Report) {
    for k in 0..buf.len() {
        let r = guarded(|| {
            let mut c = Cursor::<u32, Vec<u32>>::new_at_pos(buf.to_vec(), pos).unwrap();
            c.buf_mut().truncate(k);
            if rev {
                let mut b = Reverse(c);
                let _ = WriteWords::write(&mut b, 7u32); let _ = ReadWords::<u32, Queue>::read(&mut b); let _ = ReadWords::<u32, Stack>::read(&mut b);
                let _ = BoundedWriteWords::<u32>::space_left(&b);
            } else {
                let _ = ReadWords::<u32, Stack>::read(&mut c); let _ = ReadWords::<u32, Stack>::read(&mut c); let _ = ReadWords::<u32, Queue>::read(&mut c);
                let _ = WriteWords::write(&mut c, 7u32);
                let _ = c.seek(pos);
                let mut c2 = Cursor::<u32, Vec<u32>>::new_at_pos(buf.to_vec(), pos).unwrap(); let _ = core::mem::take(c2.buf_mut()); let _ = ReadWords::<u32, Stack>::read(&mut c2);
            }
        });
        rep.checks += 1; rep.class("buf_mut_shrink");
        if let Err(m) = r { if is_ub_panic(&m) { rep.mismatch(case, format!("after buf_mut().truncate({}) on a cursor at pos {}: {}", k, pos, m)); } }
    }
}

pub fn backend_case(case: &Value, mode: &str, rep: &mut Report) {
    if case["k"] == "adapters" { adapters_case(case, rep); return; }
    if mode == "c20" && case["kind"] != "vec" {
        let buf: Vec<u32> = case["buf"].as_array().unwrap().iter().map(|x| x.as_u64().unwrap() as u32).collect();
        set_thread_case(usize::MAX - 1, &case.to_string());
        shrink_case(case, &buf, case["pos"].as_u64().unwrap() as usize, case["kind"] == "rev", rep);
    }
    let kind = case["kind"].as_str().unwrap();
    let buf: Vec<u32> = case["buf"].as_array().unwrap().iter().map(|x| x.as_u64().unwrap() as u32).collect();
    let pos = case["pos"].as_u64().unwrap() as usize;
    let rs = exp_of(&case["rs"]);
    let rq = case["rq"].as_array().and_then(|a| a.get(0)).map(exp_of);
    let w = exp_of(&case["w"]);
    let seeks: Vec<Snap> = case["seek"].as_array().unwrap().iter().map(exp_of).collect();
    let exts: Vec<Snap> = case["ext"].as_array().unwrap().iter().map(exp_of).collect();
    let ext_words = |n: usize| -> Vec<u32> { [7u32, 8, 7][..n].to_vec() };
    let rem_s = case["remS"].as_u64().unwrap() as usize;
    let rem_q = case["remQ"].as_u64().unwrap() as usize;
    let space = case["space"].as_u64().unwrap() as usize;
    rep.class(kind);
    let r = guarded(|| match kind {
        "vec" => {
            { let ty = "Vec<u32>";
              let mk = || buf.clone();
              let snap = |res: u64, b: &Vec<u32>| (res, b.clone(), b.len());
              let mut b = mk(); let res = rd(ReadWords::<u32, Stack>::read(&mut b)); cmp!(rep, case, ty, "read (stack)", snap(res, &b), rs);
              let mut b = mk(); WriteWords::write(&mut b, 7).unwrap(); cmp!(rep, case, ty, "write(7)", snap(OK, &b), w);
              for (i, e) in exts.iter().enumerate() { let mut b = mk(); WriteWords::extend_from_iter(&mut b, ext_words(i + 1).into_iter()).unwrap(); cmp!(rep, case, ty, format!("extend_from_iter({} words)", i + 1), snap(OK, &b), *e); }
              for (p, e) in seeks.iter().enumerate() { let mut b = mk(); let res = if b.seek(p).is_ok() { OK } else { REFUSED }; cmp!(rep, case, ty, format!("seek({})", p), snap(res, &b), *e); }
              for far in FAR { let mut b = mk(); let ok = b.seek(buf.len().wrapping_add(far)).is_ok(); cmpn!(rep, case, ty, format!("seek(len + {}) accepted", far), (ok, b.clone()), (false, buf.clone())); }
              let b = mk(); cmpn!(rep, case, ty, "remaining()", BoundedReadWords::<u32, Stack>::remaining(&b), rem_s); cmpn!(rep, case, ty, "pos()", b.pos(), pos);
              cmpn!(rep, case, ty, "is_exhausted()", BoundedReadWords::<u32, Stack>::is_exhausted(&b), rem_s == 0); cmpn!(rep, case, ty, "maybe_exhausted()", ReadWords::<u32, Stack>::maybe_exhausted(&b), rem_s == 0); }
            { let ty = "SmallVec<[u32; 2]>";
              let mk = || SmallVec::<[u32; 2]>::from_slice(&buf);
              let snap = |res: u64, b: &SmallVec<[u32; 2]>| (res, b.to_vec(), b.len());
              let mut b = mk(); let res = rd(ReadWords::<u32, Stack>::read(&mut b)); cmp!(rep, case, ty, "read (stack)", snap(res, &b), rs);
              let mut b = mk(); WriteWords::write(&mut b, 7).unwrap(); cmp!(rep, case, ty, "write(7)", snap(OK, &b), w);
              for (p, e) in seeks.iter().enumerate() { let mut b = mk(); let res = if b.seek(p).is_ok() { OK } else { REFUSED }; cmp!(rep, case, ty, format!("seek({})", p), snap(res, &b), *e); }
              let b = mk(); cmpn!(rep, case, ty, "remaining()", BoundedReadWords::<u32, Stack>::remaining(&b), rem_s); cmpn!(rep, case, ty, "pos()", b.pos(), pos); }
        }
        "cursor" | "rev" => {
            let rev = kind == "rev";
            let rev_exp = case["rev"].as_array().and_then(|a| a.get(0)).map(|v| (v["buf"].as_array().unwrap().iter().map(|x| x.as_u64().unwrap() as u32).collect::<Vec<u32>>(), v["pos"].as_u64().unwrap() as usize)).unwrap();
            macro_rules! cursor_suite { ($ty:expr, $mk:expr, $writable:expr) => {{
                let ty: String = if rev { format!("Reverse<{}>", $ty) } else { $ty.to_string() };
                macro_rules! with_b { ($b:ident, $body:expr) => {{ let mut store = buf.clone(); let _ = &mut store; #[allow(unused_mut)] let mut $b = $mk(&mut store); $body }} }
                if rev {
                    with_b!(c, { let mut b = Reverse(c); let res = rd(ReadWords::<u32, Stack>::read(&mut b)); cmp!(rep, case, ty, "read (stack)", (res, sl(b.0.buf()), b.0.pos()), rs); });
                    with_b!(c, { let mut b = Reverse(c); let res = rd(ReadWords::<u32, Queue>::read(&mut b)); cmp!(rep, case, ty, "read (queue)", (res, sl(b.0.buf()), b.0.pos()), rq.clone().unwrap()); });
                    for (p, e) in seeks.iter().enumerate() { with_b!(c, { let mut b = Reverse(c); let res = if b.seek(p).is_ok() { OK } else { REFUSED }; cmp!(rep, case, ty, format!("seek({})", p), (res, sl(b.0.buf()), b.0.pos()), *e); }); }
                    for far in FAR { with_b!(c, { let mut b = Reverse(c); let ok = b.seek(buf.len().wrapping_add(far)).is_ok(); cmpn!(rep, case, ty, format!("seek(len + {}) accepted", far), (ok, b.0.pos()), (false, pos)); }); }
                    with_b!(c, { let b = Reverse(c); cmpn!(rep, case, ty, "remaining() (stack)", BoundedReadWords::<u32, Stack>::remaining(&b), rem_s); cmpn!(rep, case, ty, "remaining() (queue)", BoundedReadWords::<u32, Queue>::remaining(&b), rem_q); cmpn!(rep, case, ty, "pos()", b.pos(), pos);
                        cmpn!(rep, case, ty, "is_exhausted() (stack)", BoundedReadWords::<u32, Stack>::is_exhausted(&b), rem_s == 0); cmpn!(rep, case, ty, "is_exhausted() (queue)", BoundedReadWords::<u32, Queue>::is_exhausted(&b), rem_q == 0);
                        cmpn!(rep, case, ty, "maybe_exhausted() (stack)", ReadWords::<u32, Stack>::maybe_exhausted(&b), rem_s == 0); cmpn!(rep, case, ty, "maybe_exhausted() (queue)", ReadWords::<u32, Queue>::maybe_exhausted(&b), rem_q == 0); });
                } else {
                    with_b!(b, { let res = rd(ReadWords::<u32, Stack>::read(&mut b)); cmp!(rep, case, ty, "read (stack)", (res, sl(b.buf()), b.pos()), rs); });
                    with_b!(b, { let res = rd(ReadWords::<u32, Queue>::read(&mut b)); cmp!(rep, case, ty, "read (queue)", (res, sl(b.buf()), b.pos()), rq.clone().unwrap()); });
                    for (p, e) in seeks.iter().enumerate() { with_b!(b, { let res = if b.seek(p).is_ok() { OK } else { REFUSED }; cmp!(rep, case, ty, format!("seek({})", p), (res, sl(b.buf()), b.pos()), *e); }); }
                    for far in FAR { with_b!(b, { let ok = b.seek(buf.len().wrapping_add(far)).is_ok(); cmpn!(rep, case, ty, format!("seek(len + {}) accepted", far), (ok, b.pos()), (false, pos)); }); }
                    with_b!(b, { cmpn!(rep, case, ty, "remaining() (stack)", BoundedReadWords::<u32, Stack>::remaining(&b), rem_s); cmpn!(rep, case, ty, "remaining() (queue)", BoundedReadWords::<u32, Queue>::remaining(&b), rem_q); cmpn!(rep, case, ty, "pos()", b.pos(), pos);
                        cmpn!(rep, case, ty, "is_exhausted() (stack)", BoundedReadWords::<u32, Stack>::is_exhausted(&b), rem_s == 0); cmpn!(rep, case, ty, "is_exhausted() (queue)", BoundedReadWords::<u32, Queue>::is_exhausted(&b), rem_q == 0);
                        cmpn!(rep, case, ty, "maybe_exhausted() (stack)", ReadWords::<u32, Stack>::maybe_exhausted(&b), rem_s == 0); cmpn!(rep, case, ty, "maybe_exhausted() (queue)", ReadWords::<u32, Queue>::maybe_exhausted(&b), rem_q == 0);
                        let v = b.as_view(); cmpn!(rep, case, ty, "as_view()", (v.buf().to_vec(), v.pos()), (buf.clone(), pos)); let cl = b.cloned(); cmpn!(rep, case, ty, "cloned()", (cl.buf().clone(), cl.pos()), (buf.clone(), pos)); });
                }
            }}; }
            macro_rules! cursor_suite_w { ($ty:expr, $mk:expr) => {{
                cursor_suite!($ty, $mk, true);
                let ty: String = if rev { format!("Reverse<{}>", $ty) } else { $ty.to_string() };
                macro_rules! with_b { ($b:ident, $body:expr) => {{ let mut store = buf.clone(); let _ = &mut store; #[allow(unused_mut)] let mut $b = $mk(&mut store); $body }} }
                if rev {
                    with_b!(c, { let mut b = Reverse(c); let res = match WriteWords::write(&mut b, 7u32) { Ok(()) => OK, Err(BoundedWriteError::OutOfSpace) => FULL }; cmp!(rep, case, ty, "write(7)", (res, sl(b.0.buf()), b.0.pos()), w); });
                    for (i, e) in exts.iter().enumerate() { with_b!(c, { let mut b = Reverse(c); let res = match WriteWords::extend_from_iter(&mut b, ext_words(i + 1).into_iter()) { Ok(()) => OK, Err(BoundedWriteError::OutOfSpace) => FULL }; cmp!(rep, case, ty, format!("extend_from_iter({} words)", i + 1), (res, sl(b.0.buf()), b.0.pos()), *e); }); }
                    with_b!(c, { let b = Reverse(c); cmpn!(rep, case, ty, "space_left()", BoundedWriteWords::<u32>::space_left(&b), space); cmpn!(rep, case, ty, "is_full()", BoundedWriteWords::<u32>::is_full(&b), space == 0);
                        let back = b.into_reversed(); cmpn!(rep, case, ty, "into_reversed()", (sl(back.buf()), back.pos()), rev_exp.clone()); });
                } else {
                    with_b!(b, { let res = match WriteWords::write(&mut b, 7u32) { Ok(()) => OK, Err(BoundedWriteError::OutOfSpace) => FULL }; cmp!(rep, case, ty, "write(7)", (res, sl(b.buf()), b.pos()), w); });
                    for (i, e) in exts.iter().enumerate() { with_b!(b, { let res = match WriteWords::extend_from_iter(&mut b, ext_words(i + 1).into_iter()) { Ok(()) => OK, Err(BoundedWriteError::OutOfSpace) => FULL }; cmp!(rep, case, ty, format!("extend_from_iter({} words)", i + 1), (res, sl(b.buf()), b.pos()), *e); }); }
                    with_b!(b, { cmpn!(rep, case, ty, "space_left()", BoundedWriteWords::<u32>::space_left(&b), space); cmpn!(rep, case, ty, "is_full()", BoundedWriteWords::<u32>::is_full(&b), space == 0);
                        let r = b.into_reversed(); cmpn!(rep, case, ty, "into_reversed()", (sl(r.0.buf()), r.0.pos()), rev_exp.clone()); });
                }
            }}; }
            cursor_suite_w!("Cursor<u32, Vec<u32>>", |s: &mut Vec<u32>| Cursor::<u32, Vec<u32>>::new_at_pos(s.clone(), pos).unwrap());
            cursor_suite_w!("Cursor<u32, Box<[u32]>>", |s: &mut Vec<u32>| Cursor::<u32, Box<[u32]>>::new_at_pos(s.clone().into_boxed_slice(), pos).unwrap());
            cursor_suite_w!("Cursor<u32, &mut [u32]>", |s: &mut Vec<u32>| Cursor::<u32, &mut [u32]>::new_at_pos_mut(unsafe { core::slice::from_raw_parts_mut(s.as_mut_ptr(), s.len()) }, pos).unwrap());
            cursor_suite!("Cursor<u32, &[u32]>", |s: &mut Vec<u32>| Cursor::<u32, &[u32]>::new_at_pos(unsafe { core::slice::from_raw_parts(s.as_ptr(), s.len()) }, pos).unwrap(), false);
        }
        k => panic!("unknown backend kind {}", k),
    });
    if let Err(m) = r { rep.mismatch(case, format!("panic: {}", m)); }
}
