//! Replay of TLC-emitted `ans_state` cases on the real AnsCoder. One JSON line = one reachable
//! coder state of the specification together with the expected outcome of every step from it.
use crate::ans::*;
use crate::common::*;
use serde_json::{json, Value};

fn slot_cdf(prec: usize, c: u64, p: u64) -> [u64; 4] { [0, c, c + p, 1u64 << prec] }

pub fn ans_state(case: &Value, mode: &str, rep: &mut Report) {
    let w = case["W"].as_u64().unwrap() as u32;
    let s = case["S"].as_u64().unwrap() as u32;
    let state = u128_of(&case["state"]);
    let bulk = vec_u128(&case["bulk"]);
    let export = vec_u128(&case["export"]);
    let enc_rows: Vec<Vec<u64>> = case["enc"].as_array().unwrap().iter().map(|r| r.as_array().unwrap().iter().map(|x| x.as_u64().unwrap()).collect()).collect();
    let dec_rows: Vec<Vec<u64>> = case["dec"].as_array().unwrap().iter().map(|r| r.as_array().unwrap().iter().map(|x| x.as_u64().unwrap()).collect()).collect();
    let binary: Option<Vec<u128>> = case["binary"].as_array().and_then(|a| a.get(0)).map(vec_u128);
    let mut bad = |rep: &mut Report, d: String| rep.mismatch(case, d);
    macro_rules! g { ($what:expr, $e:expr) => { match guarded(|| $e) { Ok(v) => v, Err(m) => { bad(rep, format!("panic in {}: {}", $what, m)); return; } } } }

    match mode {
        // ------------------------------------------------------------------ exact conformance
        "c06" => {
            let c0 = g!("from_raw_parts", ans_from_raw(w, s, &bulk, state));
            rep.checks += 1;
            let ex = g!("into_compressed", c0.clone_box().into_compressed());
            if ex != export { bad(rep, format!("into_compressed = {:?}, spec Export = {:?}", ex, export)); }
            if !export.is_empty() || state == 0 {
                match g!("from_compressed", ans_from_compressed(w, s, &export)) {
                    Ok(c) => { let r = c.raw(); if r != (bulk.clone(), state) { bad(rep, format!("from_compressed(Export) = {:?}, spec {:?}", r, (&bulk, state))); } }
                    Err(_) => bad(rep, "from_compressed(Export) rejected".into()),
                }
                rep.checks += 1;
            }
            if let Some(d) = &binary {
                let ib = g!("into_binary", c0.clone_box().into_binary());
                if ib.as_ref() != Ok(d) { bad(rep, format!("into_binary = {:?}, spec ExportBinary = {:?}", ib, d)); }
                rep.checks += 1; rep.class("binary_state");
            }
            for r in &enc_rows {
                let (prec, c, p, st2, pushed) = (r[0] as usize, r[1], r[2], r[3] as u128, r[4] as u128);
                let mut k = c0.clone_box();
                let res = g!("encode_symbol", k.enc(prec, &slot_cdf(prec, c, p), 1));
                rep.checks += 1;
                let mut eb = bulk.clone(); if pushed < (1u128 << w) { eb.push(pushed); rep.class("enc_flush"); } else { rep.class("enc_noflush"); }
                if res.is_err() || k.raw() != (eb.clone(), st2) { bad(rep, format!("encode P={} c={} p={}: impl {:?} {:?}, spec {:?}", prec, c, p, res, k.raw(), (eb, st2))); }
            }
            for r in &dec_rows {
                let (prec, c, p, st2, popped) = (r[0] as usize, r[1], r[2], r[3] as u128, r[4] as usize);
                let mut k = c0.clone_box();
                let sym = g!("decode_symbol", k.dec(prec, &slot_cdf(prec, c, p)));
                rep.checks += 1;
                let eb = bulk[..bulk.len() - popped].to_vec(); if popped > 0 { rep.class("dec_refill"); } else { rep.class("dec_norefill"); }
                if sym != 1 || k.raw() != (eb.clone(), st2) { bad(rep, format!("decode P={} c={} p={}: impl sym {} {:?}, spec sym 1 {:?}", prec, c, p, sym, k.raw(), (eb, st2))); }
            }
        }
        // ------------------------------------------------------------------ lossless stack (format agnostic)
        "c01" => {
            if export.is_empty() && state != 0 { return; }
            let c0 = match g!("from_compressed", ans_from_compressed(w, s, &export)) { Ok(c) => c, Err(_) => { bad(rep, format!("from_compressed refused words {:?} not ending in zero", export)); return; } };
            rep.checks += 1;
            let back = g!("into_compressed", c0.clone_box().into_compressed());
            if back != export { bad(rep, format!("import->export changed the words: {:?} -> {:?}", export, back)); return; }
            let n = enc_rows.len();
            for (i, r) in enc_rows.iter().enumerate() {
                let (prec, c, p) = (r[0] as usize, r[1], r[2]);
                let cdf = slot_cdf(prec, c, p);
                let mut k = c0.clone_box();
                if let Err(e) = g!("encode_symbol", k.enc(prec, &cdf, 1)) { bad(rep, format!("encode P={} c={} p={} failed: {}", prec, c, p, e)); continue; }
                rep.checks += 1;
                // re-import of the exported words gives an equal coder
                let mid = g!("into_compressed", k.clone_box().into_compressed());
                match g!("from_compressed", ans_from_compressed(w, s, &mid)) {
                    Ok(k2) => if k2.raw() != k.raw() { bad(rep, format!("after encode P={} c={} p={}: export->import gives {:?}, coder is {:?}", prec, c, p, k2.raw(), k.raw())); },
                    Err(_) => bad(rep, format!("after encode P={} c={} p={}: exported words {:?} refused by from_compressed", prec, c, p, mid)),
                }
                // second push (all pairs when few slots, a deterministic sample otherwise)
                let seconds: Vec<usize> = if n <= 12 { (0..n).collect() } else { vec![(7 * i + 3) % n, (13 * i + 5) % n] };
                for j in seconds {
                    let r2 = &enc_rows[j]; let (p2, c2, pp2) = (r2[0] as usize, r2[1], r2[2]);
                    let cdf2 = slot_cdf(p2, c2, pp2);
                    let mut k3 = k.clone_box();
                    if g!("encode_symbol", k3.enc(p2, &cdf2, 1)).is_err() { bad(rep, format!("second encode failed {:?}", r2)); continue; }
                    let s2 = g!("decode_symbol", k3.dec(p2, &cdf2));
                    let s1 = g!("decode_symbol", k3.dec(prec, &cdf));
                    rep.checks += 1;
                    let fin = g!("into_compressed", k3.into_compressed());
                    if s2 != 1 || s1 != 1 || fin != export { bad(rep, format!("push {:?}, push {:?}, pop, pop: symbols ({},{}) expected (1,1); words {:?} expected {:?}", &r[..3], &r2[..3], s2, s1, fin, export)); }
                }
                let sym = g!("decode_symbol", k.dec(prec, &cdf));
                let fin = g!("into_compressed", k.into_compressed());
                if sym != 1 || fin != export { bad(rep, format!("push P={} c={} p={} then pop: symbol {} (expected 1), words {:?} (expected {:?})", prec, c, p, sym, fin, export)); }
            }
        }
        _ => panic!("unknown mode {}", mode),
    }
    let _ = json!(null);
}

pub fn replay_file(path: &str, mode: &str) -> Report {
    use std::io::BufRead;
    let mut rep = Report::default();
    let f = std::io::BufReader::new(std::fs::File::open(path).expect("open input"));
    for line in f.lines() {
        let line = line.unwrap();
        if line.trim().is_empty() { continue; }
        beat(&line);
        let case: Value = serde_json::from_str(&line).expect("json");
        rep.cases += 1;
        if rep.samples.len() < 2 { rep.samples.push(case.clone()); }
        match case["k"].as_str().unwrap_or("") {
            "ans_state" => ans_state(&case, mode, &mut rep),
            k => { eprintln!("unknown case kind {}", k); std::process::exit(2); }
        }
    }
    rep
}
