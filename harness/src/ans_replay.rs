//! Replay of TLC-emitted `ans_state` cases on the real AnsCoder. One JSON line = one reachable
//! coder state of the specification together with the expected outcome of every step from it.
use crate::ans::*;
use crate::common::*;
use serde_json::{json, Value};

fn slot_cdf(prec: usize, c: u64, p: u64) -> [u64; 4] { [0, c, c + p, 1u64 << prec] }

pub fn ans_state(case: &Value, mode: &str, rep: &mut Report) {
    let w = case["W"].as_u64().unwrap() as u32;
    let s = case["S"].as_u64().unwrap() as u32;
    let state = u128_of(&case["state"]);
    let bulk = vec_u128(&case["bulk"]);
    let export = vec_u128(&case["export"]);
    let enc_rows: Vec<Vec<u64>> = case["enc"].as_array().unwrap().iter().map(|r| r.as_array().unwrap().iter().map(|x| x.as_u64().unwrap()).collect()).collect();
    let dec_rows: Vec<Vec<u64>> = case["dec"].as_array().unwrap().iter().map(|r| r.as_array().unwrap().iter().map(|x| x.as_u64().unwrap()).collect()).collect();
    let binary: Option<Vec<u128>> = case["binary"].as_array().and_then(|a| a.get(0)).map(vec_u128);
    let bad = |rep: &mut Report, d: String| rep.mismatch(case, d);
    macro_rules! g { ($what:expr, $e:expr) => { match guarded(|| $e) { Ok(v) => v, Err(m) => { bad(rep, format!("panic in {}: {}", $what, m)); return; } } } }

    match mode {
        // ------------------------------------------------------------------ exact conformance
        "c06" => {
            let c0 = g!("from_raw_parts", ans_from_raw(w, s, &bulk, state));
            rep.checks += 1;
            let ex = g!("into_compressed", c0.clone_box().into_compressed());
            if ex != export { bad(rep, format!("into_compressed = {:?}, spec Export = {:?}", ex, export)); }
            if !export.is_empty() || state == 0 {
                match g!("from_compressed", ans_from_compressed(w, s, &export)) {
                    Ok(c) => { let r = c.raw(); if r != (bulk.clone(), state) { bad(rep, format!("from_compressed(Export) = {:?}, spec {:?}", r, (&bulk, state))); } }
                    Err(_) => bad(rep, "from_compressed(Export) rejected".into()),
                }
                rep.checks += 1;
            }
            if binary.is_some() { rep.class("binary_state"); }
            for r in &enc_rows {
                let (prec, c, p, st2, pushed) = (r[0] as usize, r[1], r[2], r[3] as u128, r[4] as u128);
                let mut k = c0.clone_box();
                let res = g!("encode_symbol", k.enc(prec, &slot_cdf(prec, c, p), 1));
                rep.checks += 1;
                let mut eb = bulk.clone(); if pushed < (1u128 << w) { eb.push(pushed); rep.class("enc_flush"); } else { rep.class("enc_noflush"); }
                if res.is_err() || k.raw() != (eb.clone(), st2) { bad(rep, format!("encode P={} c={} p={}: impl {:?} {:?}, spec {:?}", prec, c, p, res, k.raw(), (eb, st2))); }
            }
            for r in &dec_rows {
                let (prec, c, p, st2, popped) = (r[0] as usize, r[1], r[2], r[3] as u128, r[4] as usize);
                let mut k = c0.clone_box();
                let sym = g!("decode_symbol", k.dec(prec, &slot_cdf(prec, c, p)));
                rep.checks += 1;
                let eb = bulk[..bulk.len() - popped].to_vec(); if popped > 0 { rep.class("dec_refill"); } else { rep.class("dec_norefill"); }
                if sym != 1 || k.raw() != (eb.clone(), st2) { bad(rep, format!("decode P={} c={} p={}: impl sym {} {:?}, spec sym 1 {:?}", prec, c, p, sym, k.raw(), (eb, st2))); }
            }
        }
        // ------------------------------------------------------------------ lossless stack (format agnostic)
        "c01" => {
            if export.is_empty() && state != 0 { return; }
            let c0 = match g!("from_compressed", ans_from_compressed(w, s, &export)) { Ok(c) => c, Err(_) => { bad(rep, format!("from_compressed refused words {:?} not ending in zero", export)); return; } };
            rep.checks += 1;
            let back = g!("into_compressed", c0.clone_box().into_compressed());
            if back != export { bad(rep, format!("import->export changed the words: {:?} -> {:?}", export, back)); return; }
            let n = enc_rows.len();
            for (i, r) in enc_rows.iter().enumerate() {
                let (prec, c, p) = (r[0] as usize, r[1], r[2]);
                let cdf = slot_cdf(prec, c, p);
                let mut k = c0.clone_box();
                if let Err(e) = g!("encode_symbol", k.enc(prec, &cdf, 1)) { bad(rep, format!("encode P={} c={} p={} failed: {}", prec, c, p, e)); continue; }
                rep.checks += 1;
                // re-import of the exported words gives an equal coder
                let mid = g!("into_compressed", k.clone_box().into_compressed());
                match g!("from_compressed", ans_from_compressed(w, s, &mid)) {
                    Ok(k2) => if k2.raw() != k.raw() { bad(rep, format!("after encode P={} c={} p={}: export->import gives {:?}, coder is {:?}", prec, c, p, k2.raw(), k.raw())); },
                    Err(_) => bad(rep, format!("after encode P={} c={} p={}: exported words {:?} refused by from_compressed", prec, c, p, mid)),
                }
                // second push (all pairs when few slots, a deterministic sample otherwise)
                let seconds: Vec<usize> = if n <= 12 { (0..n).collect() } else { vec![(7 * i + 3) % n, (13 * i + 5) % n] };
                for j in seconds {
                    let r2 = &enc_rows[j]; let (p2, c2, pp2) = (r2[0] as usize, r2[1], r2[2]);
                    let cdf2 = slot_cdf(p2, c2, pp2);
                    let mut k3 = k.clone_box();
                    if g!("encode_symbol", k3.enc(p2, &cdf2, 1)).is_err() { bad(rep, format!("second encode failed {:?}", r2)); continue; }
                    let s2 = g!("decode_symbol", k3.dec(p2, &cdf2));
                    let s1 = g!("decode_symbol", k3.dec(prec, &cdf));
                    rep.checks += 1;
                    let fin = g!("into_compressed", k3.into_compressed());
                    if s2 != 1 || s1 != 1 || fin != export { bad(rep, format!("push {:?}, push {:?}, pop, pop: symbols ({},{}) expected (1,1); words {:?} expected {:?}", &r[..3], &r2[..3], s2, s1, fin, export)); }
                }
                let sym = g!("decode_symbol", k.dec(prec, &cdf));
                let fin = g!("into_compressed", k.into_compressed());
                if sym != 1 || fin != export { bad(rep, format!("push P={} c={} p={} then pop: symbol {} (expected 1), words {:?} (expected {:?})", prec, c, p, sym, fin, export)); }
            }
            // batch, reverse and fallible-iterator forms must equal the per-symbol loop (same PRECISION per call)
            for prec in 1..=(w as usize) {
                let same: Vec<&Vec<u64>> = enc_rows.iter().filter(|r| r[0] as usize == prec).collect();
                if same.len() < 2 { continue; }
                let pick = |i: usize| same[(i * 5 + bulk.len() + state as usize) % same.len()];
                let items: Vec<(usize, Vec<u64>)> = (0..3).map(|i| { let r = pick(i); (1usize, slot_cdf(prec, r[1], r[2]).to_vec()) }).collect();
                let looped = |order: &[usize]| -> Result<Box<dyn AnsDyn>, String> { let mut k = c0.clone_box(); for &i in order { k.enc(prec, &items[i].1, items[i].0)?; } Ok(k) };
                let fwd = g!("encode loop", looped(&[0, 1, 2])).unwrap(); let rev = g!("encode loop", looped(&[2, 1, 0])).unwrap();
                macro_rules! form { ($name:expr, $call:expr, $expect:expr) => {{ let mut k = c0.clone_box(); let r = g!($name, { let k = &mut k; $call(k) }); rep.checks += 1;
                    if r.is_err() || k.raw() != $expect.raw() { bad(rep, format!("{} on {:?} gives {:?} {:?}, the per-symbol loop gives {:?}", $name, items, r, k.raw(), $expect.raw())); } }} }
                form!("encode_symbols", |k: &mut Box<dyn AnsDyn>| k.enc_symbols(prec, &items), fwd);
                form!("try_encode_symbols", |k: &mut Box<dyn AnsDyn>| k.try_enc_symbols(prec, &items, None), fwd);
                form!("encode_symbols_reverse", |k: &mut Box<dyn AnsDyn>| k.enc_symbols_reverse(prec, &items), rev);
                form!("try_encode_symbols_reverse", |k: &mut Box<dyn AnsDyn>| k.try_enc_symbols_reverse(prec, &items, None), rev);
                let iid_syms = [1usize, 1, 1];
                let iid_loop = { let mut k = c0.clone_box(); for _ in 0..3 { let _ = k.enc(prec, &items[0].1, 1); } k };
                form!("encode_iid_symbols", |k: &mut Box<dyn AnsDyn>| k.enc_iid(prec, &items[0].1, &iid_syms), iid_loop);
                form!("encode_iid_symbols_reverse", |k: &mut Box<dyn AnsDyn>| k.enc_iid_reverse(prec, &items[0].1, &iid_syms), iid_loop);
                // an error in the middle: exactly the items the loop had processed before it are encoded
                { let mut k = c0.clone_box(); let r = g!("try_encode_symbols", k.try_enc_symbols(prec, &items, Some(1))); let e = g!("loop", looped(&[0])).unwrap(); rep.checks += 1;
                  if r.is_ok() || k.raw() != e.raw() { bad(rep, format!("try_encode_symbols with an error at item 1: {:?} {:?}, loop until the error gives {:?}", r, k.raw(), e.raw())); } }
                { let mut k = c0.clone_box(); let r = g!("try_encode_symbols_reverse", k.try_enc_symbols_reverse(prec, &items, Some(1))); let e = g!("loop", looped(&[2])).unwrap(); rep.checks += 1;
                  if r.is_ok() || k.raw() != e.raw() { bad(rep, format!("try_encode_symbols_reverse with an error at item 1: {:?} {:?}, loop until the error gives {:?}", r, k.raw(), e.raw())); } }
                // decoding forms
                let tabs: Vec<Vec<u64>> = vec![items[2].1.clone(), items[1].1.clone(), items[0].1.clone()];
                let mut l = rev.clone_box(); let exp_syms: Vec<usize> = tabs.iter().map(|t| l.dec(prec, t)).collect();
                { let mut k = rev.clone_box(); let got = g!("decode_symbols", k.dec_symbols(prec, &tabs)); rep.checks += 1; if got != exp_syms || k.raw() != l.raw() { bad(rep, format!("decode_symbols gives {:?}, loop {:?}", got, exp_syms)); } }
                { let mut k = rev.clone_box(); let got = g!("try_decode_symbols", k.try_dec_symbols(prec, &tabs, None)); rep.checks += 1; if got.iter().map(|r| r.clone().ok()).collect::<Vec<_>>() != exp_syms.iter().map(|s| Some(*s)).collect::<Vec<_>>() || k.raw() != l.raw() { bad(rep, format!("try_decode_symbols gives {:?}, loop {:?}", got, exp_syms)); } }
                { let mut k = iid_loop.clone_box(); let mut l2 = iid_loop.clone_box(); let e: Vec<usize> = (0..3).map(|_| l2.dec(prec, &items[0].1)).collect(); let got = g!("decode_iid_symbols", k.dec_iid(prec, &items[0].1, 3)); rep.checks += 1; if got != e || k.raw() != l2.raw() { bad(rep, format!("decode_iid_symbols gives {:?}, loop {:?}", got, e)); } }
                rep.class("batch_forms");
            }
        }

        // ------------------------------------------------------------------ bits-back / surjectivity
        "c04" => {
            let n = enc_rows.len();
            // (a) raw binary import/export of this payload
            let start: Vec<(Box<dyn AnsDyn>, bool)> = {
                let mut v = Vec::new();
                if let Some(d) = &binary {
                    let c = g!("from_binary", ans_from_binary(w, s, d));
                    rep.checks += 1; rep.class("binary_state");
                    if d.last() == Some(&0) { rep.class("binary_trailing_zero"); }
                    let nvb = g!("num_valid_bits", c.num_valid_bits());
                    if nvb != (w as usize) * d.len() { bad(rep, format!("from_binary({:?}).num_valid_bits() = {}, expected {}", d, nvb, w as usize * d.len())); }
                    let mut k = c.clone_box();
                    let gb = g!("get_binary", k.get_binary());
                    if gb.as_ref() != Ok(d) { bad(rep, format!("from_binary({:?}).get_binary() = {:?}", d, gb)); }
                    if k.raw() != c.raw() { bad(rep, format!("get_binary changed the coder: {:?} -> {:?}", c.raw(), k.raw())); }
                    let ib = g!("into_binary", c.clone_box().into_binary());
                    if ib.as_ref() != Ok(d) { bad(rep, format!("from_binary({:?}).into_binary() = {:?}", d, ib)); }
                    v.push((c, true));
                }
                if !(export.is_empty() && state != 0) {
                    if let Ok(c) = g!("from_compressed", ans_from_compressed(w, s, &export)) { v.push((c, false)); }
                }
                v
            };
            // (b) decode with every model, encode back in reverse: the data is restored
            for (c0, is_bin) in &start {
                let is_bin = *is_bin;
                let fin0 = if is_bin { g!("into_binary", c0.clone_box().into_binary()).ok() } else { Some(g!("into_compressed", c0.clone_box().into_compressed())) };
                for (i, r) in enc_rows.iter().enumerate() {
                    let (prec, c, p) = (r[0] as usize, r[1], r[2]);
                    let cdf = slot_cdf(prec, c, p);
                    let mut k = c0.clone_box();
                    let sym = g!("decode_symbol", k.dec(prec, &cdf));
                    rep.checks += 1;
                    // second and third pops with (a sample of) other models
                    let seconds: Vec<usize> = if n <= 6 { (0..n).collect() } else { vec![(5 * i + 1) % n, (11 * i + 7) % n] };
                    for j in seconds {
                        // the model of row j need not contain the new quantile in its middle slot: any 3-slot table is a model
                        let r2 = &enc_rows[j]; let (p2, c2, pp2) = (r2[0] as usize, r2[1], r2[2]);
                        let cdf2 = slot_cdf(p2, c2, pp2);
                        let mut k2 = k.clone_box();
                        let s2 = g!("decode_symbol", k2.dec(p2, &cdf2));
                        let s3 = g!("decode_symbol", k2.dec(prec, &cdf));
                        let e3 = g!("encode_symbol", k2.enc(prec, &cdf, s3));
                        let e2 = g!("encode_symbol", k2.enc(p2, &cdf2, s2));
                        let e1 = g!("encode_symbol", k2.enc(prec, &cdf, sym));
                        rep.checks += 1;
                        let fin = if is_bin { g!("into_binary", k2.clone_box().into_binary()).ok() } else { Some(g!("into_compressed", k2.clone_box().into_compressed())) };
                        if e1.is_err() || e2.is_err() || e3.is_err() || fin != fin0 || k2.raw() != c0.raw() {
                            bad(rep, format!("pop {:?}, pop {:?}, pop {:?} -> symbols ({},{},{}); pushing them back gives {:?} / {:?}, original {:?} / {:?} (binary={})", &r[..3], &r2[..3], &r[..3], sym, s2, s3, k2.raw(), fin, c0.raw(), fin0, is_bin));
                        }
                    }
                    let e = g!("encode_symbol", k.enc(prec, &cdf, sym));
                    let fin = if is_bin { g!("into_binary", k.clone_box().into_binary()).ok() } else { Some(g!("into_compressed", k.clone_box().into_compressed())) };
                    if e.is_err() || fin != fin0 || k.raw() != c0.raw() {
                        bad(rep, format!("pop P={} c={} p={} -> symbol {}, push it back: {:?} / {:?}, original {:?} / {:?} (binary={})", prec, c, p, sym, k.raw(), fin, c0.raw(), fin0, is_bin));
                    }
                    if is_bin { let mut k = k; let gb = g!("get_binary", k.get_binary()); if gb.ok() != fin0 { bad(rep, format!("get_binary after pop/push of P={} c={} p={} differs from the original data", prec, c, p)); } }
                }
            }
        }
        // ------------------------------------------------------------------ inspections
        "c08" => {
            let mut starts: Vec<Box<dyn AnsDyn>> = Vec::new();
            if let Some(d) = &binary { starts.push(g!("from_binary", ans_from_binary(w, s, d))); }
            if !(export.is_empty() && state != 0) { if let Ok(c) = g!("from_compressed", ans_from_compressed(w, s, &export)) { starts.push(c); } }
            for c0 in &starts {
                let raw0 = c0.raw();
                let fin0 = g!("into_compressed", c0.clone_box().into_compressed());
                let bin0 = g!("into_binary", c0.clone_box().into_binary());
                let inspect = |k: &mut Box<dyn AnsDyn>, rep: &mut Report, ctx: &str| -> Result<(), String> {
                    let fin = k.clone_box().into_compressed();
                    let bin = k.clone_box().into_binary();
                    let raw = k.raw();
                    let v = k.get_compressed();
                    rep.checks += 1;
                    if v != fin { return Err(format!("{}: get_compressed shows {:?}, finishing returns {:?}", ctx, v, fin)); }
                    if k.raw() != raw { return Err(format!("{}: get_compressed changed the coder {:?} -> {:?}", ctx, raw, k.raw())); }
                    let b = k.get_binary();
                    if b != bin { return Err(format!("{}: get_binary shows {:?}, into_binary returns {:?}", ctx, b, bin)); }
                    if k.raw() != raw { return Err(format!("{}: get_binary changed the coder {:?} -> {:?}", ctx, raw, k.raw())); }
                    if b.is_ok() { rep.class("get_binary_ok"); } else { rep.class("get_binary_err"); }
                    let it = k.iter_compressed();
                    if it != fin { return Err(format!("{}: iter_compressed yields {:?}, finishing returns {:?}", ctx, it, fin)); }
                    let cl = k.clone_box();
                    if cl.raw() != raw || cl.into_compressed() != fin { return Err(format!("{}: clone differs", ctx)); }
                    let _ = (k.num_words(), k.num_bits(), k.num_valid_bits(), k.is_empty(), k.maybe_exhausted(), k.pos());
                    if k.raw() != raw { return Err(format!("{}: size queries changed the coder", ctx)); }
                    rep.checks += 4;
                    Ok(())
                };
                let mut k = c0.clone_box();
                match guarded(|| inspect(&mut k, rep, "initial")) { Ok(Ok(())) => {}, Ok(Err(e)) => bad(rep, e), Err(m) => bad(rep, format!("panic while inspecting: {}", m)) }
                match guarded(|| inspect(&mut k, rep, "second inspection")) { Ok(Ok(())) => {}, Ok(Err(e)) => bad(rep, e), Err(m) => bad(rep, format!("panic while inspecting: {}", m)) }
                if k.raw() != raw0 || k.clone_box().into_compressed() != fin0 || k.clone_box().into_binary() != bin0 { bad(rep, "coder differs after inspections".into()); }
                for r in &enc_rows {
                    let (prec, c, p) = (r[0] as usize, r[1], r[2]);
                    let cdf = slot_cdf(prec, c, p);
                    let mut a = c0.clone_box(); // inspected twin
                    let mut b = c0.clone_box(); // untouched twin
                    let _ = guarded(|| inspect(&mut a, rep, "before encode"));
                    let ra = g!("encode_symbol", a.enc(prec, &cdf, 1)); let rb = g!("encode_symbol", b.enc(prec, &cdf, 1));
                    match guarded(|| inspect(&mut a, rep, "after encode")) { Ok(Ok(())) => {}, Ok(Err(e)) => bad(rep, format!("after encode {:?}: {}", &r[..3], e)), Err(m) => bad(rep, format!("panic while inspecting: {}", m)) }
                    let ra2 = g!("encode_symbol", a.enc(prec, &cdf, 1)); let rb2 = g!("encode_symbol", b.enc(prec, &cdf, 1));
                    rep.checks += 1;
                    if ra != rb || ra2 != rb2 || a.raw() != b.raw() || g!("into_compressed", a.into_compressed()) != g!("into_compressed", b.into_compressed()) {
                        bad(rep, format!("inspected and uninspected twins differ after encoding {:?} twice", &r[..3]));
                    }
                }
            }
        }
        // ------------------------------------------------------------------ total decoding
        "c10" => {
            let mut starts: Vec<Box<dyn AnsDyn>> = Vec::new();
            if let Some(d) = &binary { starts.push(g!("from_binary", ans_from_binary(w, s, d))); }
            if !(export.is_empty() && state != 0) { if let Ok(c) = g!("from_compressed", ans_from_compressed(w, s, &export)) { starts.push(c); } }
            let n = enc_rows.len();
            for c0 in &starts {
                for (i, r) in enc_rows.iter().enumerate() {   // every slot table is a model; decode with all of them
                    let (prec, c, p) = (r[0] as usize, r[1], r[2]);
                    let cdf = slot_cdf(prec, c, p);
                    let mut k = c0.clone_box();
                    let mut syms = vec![];
                    for d in 0..4usize {
                        let r2 = &enc_rows[(i + d * (i + 1)) % n];
                        let cdf2 = slot_cdf(r2[0] as usize, r2[1], r2[2]);
                        let sym = g!("decode_symbol", k.dec(r2[0] as usize, &cdf2));
                        rep.checks += 1;
                        if sym > 2 || cdf2[sym + 1] == cdf2[sym] { bad(rep, format!("decode with table {:?} returned symbol {} outside the support (after {:?} from {:?})", cdf2, sym, syms, c0.raw())); }
                        syms.push(sym);
                    }
                    let _ = cdf;
                }
            }
        }
        // ------------------------------------------------------------------ impossible symbols, failing backend
        "c09" => {
            if !(export.is_empty() && state != 0) {
                if let Ok(c0) = g!("from_compressed", ans_from_compressed(w, s, &export)) {
                    let raw0 = c0.raw();
                    let mut k = c0.clone_box();
                    for prec in 1..=(w as usize) {
                        let t = 1u64 << prec;
                        for (cdf, sym) in [(vec![0u64, 0, t], 0usize), (vec![0, t, t], 1), (vec![0, 1, t], 2), (vec![0, 1, t], 9)] {
                            let r = g!("encode_symbol", k.enc(prec, &cdf, sym)); rep.checks += 1;
                            if r != Err("impossible".to_string()) { bad(rep, format!("encoding impossible symbol {} of table {:?} returned {:?}", sym, cdf, r)); return; }
                            if k.raw() != raw0 { bad(rep, format!("failed encode changed the coder {:?} -> {:?}", raw0, k.raw())); return; }
                        }
                    }
                    // encoding continues and everything still decodes
                    for r in enc_rows.iter().step_by(2) {
                        let cdf = slot_cdf(r[0] as usize, r[1], r[2]);
                        let mut k2 = k.clone_box();
                        let e = g!("encode_symbol", k2.enc(r[0] as usize, &cdf, 1));
                        let bad_sym = g!("encode_symbol", k2.enc(r[0] as usize, &cdf, 7));
                        let d = g!("decode_symbol", k2.dec(r[0] as usize, &cdf));
                        rep.checks += 1;
                        if e.is_err() || bad_sym != Err("impossible".to_string()) || d != 1 || k2.raw() != raw0 { bad(rep, format!("after rejected symbols: encode {:?} -> {:?}, decode -> {}, coder {:?} (expected {:?})", &r[..3], e, d, k2.raw(), raw0)); }
                    }
                }
            }
            if bulk.is_empty() || state >= (1u128 << (s - w)) { crate::ans_bounded::dispatch(case, w, s, &bulk, state, &enc_rows, rep); }
        }
        // ------------------------------------------------------------------ size bound, per step
        "c12" => {
            if export.is_empty() && state != 0 { return; }
            let c0 = match g!("from_compressed", ans_from_compressed(w, s, &export)) { Ok(c) => c, Err(_) => return };
            let nw0 = g!("num_words", c0.num_words());
            let (b0, s0) = c0.raw();
            for r in &enc_rows {
                let (prec, c, p) = (r[0] as usize, r[1], r[2]);
                let mut k = c0.clone_box();
                if g!("encode_symbol", k.enc(prec, &slot_cdf(prec, c, p), 1)).is_err() { continue; }
                rep.checks += 1;
                let nw1 = g!("num_words", k.num_words());
                let (b1, s1) = k.raw();
                if nw1 > nw0 + 1 || b1.len() > b0.len() + 1 { bad(rep, format!("encode {:?} wrote more than one word: {} -> {} words", &r[..3], nw0, nw1)); }
                // probing the coder between symbols (successful or failing views) must not make it grow
                { let mut k2 = c0.clone_box(); let _ = g!("get_binary", k2.get_binary()); let _ = g!("get_compressed", k2.get_compressed());
                  let _ = g!("encode_symbol", k2.enc(prec, &slot_cdf(prec, c, p), 1)); let _ = g!("get_binary", k2.get_binary()); let _ = g!("get_compressed", k2.get_compressed());
                  rep.checks += 1; let nw2 = g!("num_words", k2.num_words()); let fin = g!("into_compressed", k2.into_compressed());
                  if nw2 > nw0 + 1 || fin.len() > nw0 + 1 { bad(rep, format!("with inspections around encode {:?}: {} -> {} words (exported {})", &r[..3], nw0, nw2, fin.len())); } }
                // value V = state * 2^(W*len(bulk)); lemma: V' * p < (V + p * 2^(W*len(bulk'))) * 2^P
                let sh1 = (w as usize * b1.len()) as u32; let sh0 = (w as usize * b0.len()) as u32;
                if sh1 < 64 {
                    let v1 = s1 << sh1; let v0 = s0 << sh0;
                    if !(v1 * (p as u128) < (v0 + ((p as u128) << sh1)) << prec) { bad(rep, format!("encode {:?}: coder value grows by more than 2^P/p (1 + 2^-(S-W-P)): {:?} -> {:?}", &r[..3], (b0.clone(), s0), (b1.clone(), s1))); }
                }
                // rounding term (StepBound of Ans.tla): the state that is divided by p is at least p * 2^(S-W-P) whenever the
                // coder holds words afterwards, so that the relative rounding loss is at most 2^-(S-W-P) per symbol
                if !b1.is_empty() && (s as usize) >= (w as usize) + prec {
                    let divided = if b1.len() > b0.len() { s0 >> w } else { s0 };
                    rep.checks += 1;
                    if divided < (p as u128) << (s as usize - w as usize - prec) {
                        bad(rep, format!("encode {:?} on {:?}: the state that is divided by p is {} < p * 2^(S-W-P) = {}: the rounding loss per symbol exceeds log2(1 + 2^-(S-W-P))", &r[..3], (b0.clone(), s0), divided, (p as u128) << (s as usize - w as usize - prec)));
                    }
                }
            }
        }
        // ------------------------------------------------------------------ size / emptiness queries
        "c18" => {
            let mut starts: Vec<(Box<dyn AnsDyn>, bool)> = Vec::new();
            if let Some(d) = &binary { starts.push((g!("from_binary", ans_from_binary(w, s, d)), true)); }
            if !(export.is_empty() && state != 0) { if let Ok(c) = g!("from_compressed", ans_from_compressed(w, s, &export)) { starts.push((c, false)); } }
            for (c0, is_bin) in &starts {
                let check = |k: &Box<dyn AnsDyn>, rep: &mut Report, ctx: String| {
                    let fin = k.clone_box().into_compressed();
                    rep.checks += 3;
                    if k.num_words() != fin.len() { rep.mismatch(case, format!("{}: num_words() = {}, exported words {:?}", ctx, k.num_words(), fin)); }
                    if k.num_bits() != fin.len() * w as usize { rep.mismatch(case, format!("{}: num_bits() = {}, exported words {:?}", ctx, k.num_bits(), fin)); }
                    if k.is_empty() != fin.is_empty() { rep.mismatch(case, format!("{}: is_empty() = {}, exported words {:?}", ctx, k.is_empty(), fin)); }
                    if let Ok(b) = k.clone_box().into_binary() { rep.checks += 1; if k.num_valid_bits() != b.len() * w as usize { rep.mismatch(case, format!("{}: num_valid_bits() = {}, binary export {:?}", ctx, k.num_valid_bits(), b)); } }
                };
                if *is_bin { let d = binary.as_ref().unwrap(); let nvb = g!("num_valid_bits", c0.num_valid_bits()); rep.checks += 1; if nvb != d.len() * w as usize { bad(rep, format!("from_binary({:?}).num_valid_bits() = {}", d, nvb)); } }
                if let Err(m) = guarded(|| check(c0, rep, "initial".into())) { bad(rep, format!("panic in size query: {}", m)); }
                for r in enc_rows.iter() {
                    let mut k = c0.clone_box();
                    if g!("encode_symbol", k.enc(r[0] as usize, &slot_cdf(r[0] as usize, r[1], r[2]), 1)).is_err() { continue; }
                    if let Err(m) = guarded(|| check(&k, rep, format!("after encode {:?}", &r[..3]))) { bad(rep, format!("panic in size query: {}", m)); }
                }
                for r in enc_rows.iter().step_by(3) {
                    let mut k = c0.clone_box();
                    g!("decode_symbol", k.dec(r[0] as usize, &slot_cdf(r[0] as usize, r[1], r[2])));
                    if let Err(m) = guarded(|| check(&k, rep, format!("after decode with {:?}", &r[..3]))) { bad(rep, format!("panic in size query: {}", m)); }
                }
            }
        }
        _ => panic!("unknown mode {}", mode),
    }
    let _ = json!(null);
}

fn replay_lines(lines: &[(usize, String)], mode: &str, skip: &std::collections::HashSet<usize>) -> Report {
    let mut rep = Report::default();
    for (idx, line) in lines {
        if skip.contains(idx) { continue; }
        beat(line);
        set_thread_case(*idx, line);
        let case: Value = serde_json::from_str(line).expect("json");
        rep.cases += 1;
        if rep.samples.len() < 2 { rep.samples.push(case.clone()); }
        match case["k"].as_str().unwrap_or("") {
            "ans_state" => ans_state(&case, mode, &mut rep),
            "range_hist" => crate::range_replay::range_hist(&case, mode, &mut rep),
            "rdec" => crate::range_replay::rdec_case(&case, mode, &mut rep),
            "chain" => crate::chain_replay::chain_case(&case, mode, &mut rep),
            "huffman" => crate::symbol_replay::huffman_case(&case, mode, &mut rep),
            "huffman_f32" => crate::symbol_replay::huffman_f32_case(&case, mode, &mut rep),
            "expgolomb" | "expgolomb_max" => crate::symbol_replay::golomb_case(&case, mode, &mut rep),
            "bits" => crate::bits_replay::bits_case(&case, mode, &mut rep),
            "backend" | "adapters" => crate::backend_replay::backend_case(&case, mode, &mut rep),
            "fixed" | "uniform" | "fast" | "leaky" | "diag" | "floatclass" | "uniformbig" => crate::models::model_case(&case, mode, &mut rep),
            k => { eprintln!("unknown case kind {}", k); std::process::exit(2); }
        }
    }
    rep
}

pub fn replay_file(path: &str, mode: &str, skip: &std::collections::HashSet<usize>) -> Report {
    let text = std::fs::read_to_string(path).expect("open input");
    let lines: Vec<(usize, String)> = text.lines().filter(|l| !l.trim().is_empty()).map(|l| l.to_string()).enumerate().collect();
    let nthreads = std::env::var("VH_THREADS").ok().and_then(|s| s.parse().ok()).unwrap_or(12usize).max(1);
    if lines.len() < 64 || nthreads == 1 { return replay_lines(&lines, mode, skip); }
    let chunk = (lines.len() + nthreads - 1) / nthreads;
    let mut total = Report::default();
    std::thread::scope(|sc| {
        let hs: Vec<_> = lines.chunks(chunk).map(|ch| { let m = mode.to_string(); std::thread::Builder::new().stack_size(64 << 20).spawn_scoped(sc, move || replay_lines(ch, &m, skip)).unwrap() }).collect();
        for h in hs { let r = h.join().expect("replay thread"); total.merge(r); }
    });
    total
}
