//! Explicit table model: symbols are indices into `cdf`; zero-width segments are symbols
//! outside the support. `cdf[n] = 2^P` may equal `2^BITS` (represented by wrap-around).
use crate::tiny::VInt;
use constriction::stream::model::{DecoderModel, EncoderModel, EntropyModel};
use constriction::BitArray;
use core::borrow::Borrow;
use core::marker::PhantomData;

#[derive(Clone, Copy, Debug)]
pub struct Tab<Pr, const P: usize> { pub cdf: [u64; 10], pub n: usize, ph: PhantomData<Pr> }

impl<Pr: VInt, const P: usize> Tab<Pr, P> {
    pub fn new(cdf: &[u64]) -> Self {
        assert!(cdf.len() >= 2 && cdf.len() <= 10 && cdf[0] == 0 && *cdf.last().unwrap() == 1u64 << P, "bad table {:?} P={}", cdf, P);
        assert!(cdf.windows(2).all(|w| w[0] <= w[1]));
        let mut a = [0u64; 10]; a[..cdf.len()].copy_from_slice(cdf);
        Tab { cdf: a, n: cdf.len() - 1, ph: PhantomData }
    }
    /// three segments: 0 = [0,c), 1 = [c,c+p), 2 = [c+p, 2^P)
    pub fn slot(c: u64, p: u64) -> Self { Self::new(&[0, c, c + p, 1u64 << P]) }
}
impl<Pr: VInt, const P: usize> EntropyModel<P> for Tab<Pr, P> { type Symbol = usize; type Probability = Pr; }
impl<Pr: VInt, const P: usize> EncoderModel<P> for Tab<Pr, P> {
    fn left_cumulative_and_probability(&self, s: impl Borrow<usize>) -> Option<(Pr, Pr::NonZero)> {
        let s = *s.borrow();
        if s >= self.n || self.cdf[s + 1] == self.cdf[s] { return None; }
        Some((Pr::from_u128_trunc(self.cdf[s] as u128), Pr::from_u128_trunc((self.cdf[s + 1] - self.cdf[s]) as u128).into_nonzero().unwrap()))
    }
}
impl<Pr: VInt, const P: usize> DecoderModel<P> for Tab<Pr, P> {
    fn quantile_function(&self, q: Pr) -> (usize, Pr, Pr::NonZero) {
        let q = q.to_u128() as u64;
        assert!(q < 1u64 << P, "quantile {} out of range for P={}", q, P);
        let s = (0..self.n).find(|&s| self.cdf[s] <= q && q < self.cdf[s + 1]).unwrap();
        (s, Pr::from_u128_trunc(self.cdf[s] as u128), Pr::from_u128_trunc((self.cdf[s + 1] - self.cdf[s]) as u128).into_nonzero().unwrap())
    }
}

/// A probability type narrower than the word type (`M::Probability: Into<Word>`): the coders must behave identically when the
/// model's probabilities live in a narrower integer type than the coder's words.  Switched on by `--narrow`; used whenever
/// the precision fits into the narrow type.
pub static NARROW: core::sync::atomic::AtomicBool = core::sync::atomic::AtomicBool::new(false);
pub fn narrow<N: VInt, const P: usize>() -> bool { NARROW.load(core::sync::atomic::Ordering::Relaxed) && P <= N::BITS }
pub trait NarrowOf { type N: VInt; }
macro_rules! narrow_of { ($($w:ty => $n:ty),*) => { $(impl NarrowOf for $w { type N = $n; })* } }
use crate::tiny::*;
narrow_of!(U2 => U1, U3 => U2, U4 => U3, u8 => U4, u16 => u8, u32 => u16, u64 => u32);
