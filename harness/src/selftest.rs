//! Self-test of the verification-only integer types: `U8t` must agree with `u8` and `U16t` with `u16` on every operator
//! (result or panic) for all (pairs of) values / a dense sample.
use crate::common::*;
use crate::tiny::*;
use num_traits::{PrimInt, WrappingAdd, WrappingMul, WrappingSub};

fn same<T: PartialEq + core::fmt::Debug>(what: &str, a: Result<T, String>, b: Result<T, String>, rep: &mut Report) {
    rep.checks += 1;
    let ok = match (&a, &b) { (Ok(x), Ok(y)) => x == y, (Err(_), Err(_)) => true, _ => false };
    if !ok { rep.mismatch(&serde_json::json!({"k": "selftest_tiny"}), format!("{}: tiny {:?} vs primitive {:?}", what, a, b)); }
}

pub fn selftest_tiny() -> Report {
    let mut rep = Report::default();
    for a in 0u64..256 { for b in 0u64..256 {
        let (x, y) = (U8t(a), U8t(b)); let (p, q) = (a as u8, b as u8);
        same(&format!("{} + {}", a, b), guarded(|| (x + y).0), guarded(|| (p + q) as u64), &mut rep);
        same(&format!("{} - {}", a, b), guarded(|| (x - y).0), guarded(|| (p - q) as u64), &mut rep);
        same(&format!("{} * {}", a, b), guarded(|| (x * y).0), guarded(|| (p * q) as u64), &mut rep);
        if b != 0 { same(&format!("{} / {}", a, b), guarded(|| (x / y).0), guarded(|| (p / q) as u64), &mut rep); same(&format!("{} % {}", a, b), guarded(|| (x % y).0), guarded(|| (p % q) as u64), &mut rep); }
        same("wrapping_add", guarded(|| x.wrapping_add(&y).0), guarded(|| p.wrapping_add(q) as u64), &mut rep);
        same("wrapping_sub", guarded(|| x.wrapping_sub(&y).0), guarded(|| p.wrapping_sub(q) as u64), &mut rep);
        same("wrapping_mul", guarded(|| x.wrapping_mul(&y).0), guarded(|| p.wrapping_mul(q) as u64), &mut rep);
        same("&", guarded(|| (x & y).0), guarded(|| (p & q) as u64), &mut rep); same("|", guarded(|| (x | y).0), guarded(|| (p | q) as u64), &mut rep); same("^", guarded(|| (x ^ y).0), guarded(|| (p ^ q) as u64), &mut rep);
        same("cmp", guarded(|| x.cmp(&y)), guarded(|| p.cmp(&q)), &mut rep);
    }
        let (x, p) = (U8t(a), a as u8);
        for n in 0..10usize { same(&format!("{} << {}", a, n), guarded(|| (x << n).0), guarded(|| (p << n) as u64), &mut rep); same(&format!("{} >> {}", a, n), guarded(|| (x >> n).0), guarded(|| (p >> n) as u64), &mut rep); }
        same("!", guarded(|| (!x).0), guarded(|| (!p) as u64), &mut rep);
        same("leading_zeros", guarded(|| x.leading_zeros()), guarded(|| p.leading_zeros()), &mut rep);
        same("trailing_zeros", guarded(|| x.trailing_zeros()), guarded(|| p.trailing_zeros()), &mut rep);
        same("count_ones", guarded(|| x.count_ones()), guarded(|| p.count_ones()), &mut rep);
        same("count_zeros", guarded(|| x.count_zeros()), guarded(|| p.count_zeros()), &mut rep);
        same("into_nonzero", guarded(|| constriction::BitArray::into_nonzero(x).is_some()), guarded(|| constriction::BitArray::into_nonzero(p).is_some()), &mut rep);
        same("as f64", guarded(|| { let f: f64 = x.into(); f }), guarded(|| p as f64), &mut rep);
    }
    // U16t against u16 on a dense sample of pairs
    let vals: Vec<u64> = (0..=65535u64).filter(|v| *v < 300 || *v > 65535 - 300 || v % 251 == 0 || v.count_ones() <= 2).collect();
    for &a in &vals { for &b in &vals {
        let (x, y) = (U16t(a), U16t(b)); let (p, q) = (a as u16, b as u16);
        same("u16 +", guarded(|| (x + y).0), guarded(|| (p + q) as u64), &mut rep);
        same("u16 -", guarded(|| (x - y).0), guarded(|| (p - q) as u64), &mut rep);
        same("u16 *", guarded(|| (x * y).0), guarded(|| (p * q) as u64), &mut rep);
        same("u16 wrapping_mul", guarded(|| x.wrapping_mul(&y).0), guarded(|| p.wrapping_mul(q) as u64), &mut rep);
        same("u16 wrapping_sub", guarded(|| x.wrapping_sub(&y).0), guarded(|| p.wrapping_sub(q) as u64), &mut rep);
    } }
    for a in 0..=65535u64 { let (x, p) = (U16t(a), a as u16);
        same("u16 leading_zeros", guarded(|| x.leading_zeros()), guarded(|| p.leading_zeros()), &mut rep);
        for n in [0usize, 1, 7, 15, 16] { same("u16 <<", guarded(|| (x << n).0), guarded(|| (p << n) as u64), &mut rep); same("u16 >>", guarded(|| (x >> n).0), guarded(|| (p >> n) as u64), &mut rep); } }
    rep.cases = rep.checks;
    rep
}
