//! impl -> spec driver for entropy models built from arbitrary floats: records the views of every model for TraceModels.tla.
use crate::common::*;
use crate::models::nz;
use crate::tiny::VInt;
use constriction::stream::model::*;
use num_traits::AsPrimitive;
use probability::distribution::{Binomial, Cauchy, Exponential, Gaussian, Laplace};
use rand::{Rng, SeedableRng};
use rand_xoshiro::Xoshiro256StarStar;
use serde_json::{json, Value};
use std::io::Write;

/// numbers are recorded as [hi, lo] in base 2^16 (PRECISION 32 does not fit TLC's integers otherwise)
fn pr(v: u64) -> Value { json!([v >> 16, v & 0xffff]) }
pub trait SymI64: Copy { fn to_i64(self) -> i64; }
macro_rules! symi64 { ($($t:ty),*) => { $(impl SymI64 for $t { fn to_i64(self) -> i64 { self as i64 } })* } }
symi64!(usize, i8, u8, i16, u16, i32, u32);

fn record_enc<M, const P: usize>(m: &M, syms: &[M::Symbol]) -> Result<Vec<Value>, String>
where M: EncoderModel<P>, M::Probability: VInt, M::Symbol: SymI64 {
    guarded(|| syms.iter().map(|s| match m.left_cumulative_and_probability(*s) { Some((c, p)) => json!([s.to_i64(), pr(c.to_u128() as u64), pr(nz::<M::Probability>(p))]), None => json!([s.to_i64()]) }).collect())
}
fn record_dec<M, const P: usize>(m: &M, qs: &[u64]) -> Result<Vec<Value>, String>
where M: DecoderModel<P>, M::Probability: VInt, M::Symbol: SymI64 {
    guarded(|| qs.iter().map(|q| { let (s, c, p) = m.quantile_function(M::Probability::from_u128_trunc(*q as u128)); json!([pr(*q), s.to_i64(), pr(c.to_u128() as u64), pr(nz::<M::Probability>(p))]) }).collect())
}
fn record_iter<'m, M, const P: usize>(m: &'m M) -> Result<Vec<Value>, String>
where M: IterableEntropyModel<'m, P>, M::Probability: VInt, M::Symbol: SymI64 {
    guarded(|| m.symbol_table().map(|(s, c, p)| json!([s.to_i64(), pr(c.to_u128() as u64), pr(nz::<M::Probability>(p))])).collect())
}
/// table reconstructed from the encoder views (for models without `symbol_table`)
fn rows_from_enc(enc: &Result<Vec<Value>, String>) -> Result<Vec<Value>, String> {
    enc.clone().map(|v| v.into_iter().filter(|x| x.as_array().unwrap().len() == 3).collect())
}
fn quantiles_for(rows: &[Value], prec: usize, rng: &mut Xoshiro256StarStar) -> Vec<u64> {
    let t = 1u64 << prec; let mut qs = vec![0, t - 1, t / 2, t - 2, 1];
    let un = |v: &Value| (v[0].as_u64().unwrap_or(0) << 16) | v[1].as_u64().unwrap_or(0);
    for r in rows { let c = un(&r[1]); let p = un(&r[2]).max(1); qs.push(c.min(t - 1)); qs.push((c + p).saturating_sub(1).min(t - 1)); }
    for _ in 0..8 { qs.push(rng.gen_range(0..t)); }
    if prec <= 10 { qs = (0..t).collect(); }
    qs.sort(); qs.dedup(); qs
}

/// a random float table: zeros, denormals, tiny tails, huge dynamic range
fn float_table(rng: &mut Xoshiro256StarStar, max_n: usize) -> (Vec<f64>, &'static str) {
    let n = rng.gen_range(2..=max_n);
    match rng.gen_range(0..7) {
        0 => ((0..n).map(|_| rng.gen::<f64>()).collect(), "uniform"),
        1 => ((0..n).map(|_| if rng.gen_bool(0.4) { 0.0 } else { rng.gen::<f64>() }).chain([0.5]).collect(), "zeros"),
        2 => { let mut v: Vec<f64> = vec![1.0]; v.extend((1..n).map(|_| 1e-30 * rng.gen::<f64>())); (v, "tiny_tail") }
        3 => { let mut v: Vec<f64> = (0..n - 1).map(|_| 1e-38 * rng.gen::<f64>()).collect(); v.push(1.0); (v, "tiny_head") }
        4 => ((0..n).map(|_| 10f64.powf(rng.gen_range(-30.0..30.0))).collect(), "dynamic_range"),
        5 => ((0..n).map(|_| 1e-42 * (rng.gen_range(0..100) as f64)).chain([1e-40]).collect(), "denormals"),
        _ => { let k = rng.gen_range(1..n); let mut v = vec![1.0f64; k]; v.extend((k..n).map(|_| 1e-9 * rng.gen::<f64>())); (v, "plateau_and_tail") }
    }
}

fn emit(f: &mut impl Write, rep: &mut Report, name: String, prec: usize, rows: Result<Vec<Value>, String>, enc: Result<Vec<Value>, String>, dec: Result<Vec<Value>, String>, alt: Vec<Value>) {
    let mut panic = String::new();
    let rows = match rows { Ok(r) => r, Err(e) => { panic = format!("symbol table: {}", e); vec![] } };
    let enc = match enc { Ok(r) => r, Err(e) => { panic = format!("encoder view: {}", e); vec![] } };
    let dec = match dec { Ok(r) => r, Err(e) => { panic = format!("decoder view: {}", e); vec![] } };
    writeln!(f, "{}", json!({"name": name, "P": prec, "rows": rows, "enc": enc, "dec": dec, "alt": alt, "panic": panic})).unwrap();
    f.flush().unwrap();
    rep.cases += 1;
}

pub fn float_tables<Pr, F, const P: usize>(f: &mut impl Write, rep: &mut Report, rng: &mut Xoshiro256StarStar, n_models: usize, fname: &str)
where Pr: VInt + AsPrimitive<usize> + Into<f64> + AsPrimitive<F>, usize: AsPrimitive<Pr> + AsPrimitive<F>, f64: AsPrimitive<Pr> + AsPrimitive<F>,
      F: num_traits::float::FloatCore + core::iter::Sum<F> + AsPrimitive<Pr> + Into<f64> + core::fmt::Debug + 'static {
    for _ in 0..n_models {
        beat("float table");
        let (t64, kind) = float_table(rng, 24);
        let w: Vec<F> = t64.iter().map(|x| AsPrimitive::<F>::as_(*x)).collect();
        let n = w.len();
        if n + 1 >= (1usize << P.min(30)) { continue; }
        // larger tables at high precision: that is where float rounding of cumulative * scale matters
        let (w, n) = if P >= 24 && rng.gen_bool(0.5) { let big: Vec<F> = (0..rng.gen_range(40..320usize)).map(|_| AsPrimitive::<F>::as_(rng.gen::<f64>() * if rng.gen_bool(0.1) { 1e-6 } else { 1.0 })).collect(); let l = big.len(); (big, l) } else { (w, n) };
        let syms: Vec<usize> = (0..n + 2).collect();
        rep.class(kind);
        let tag = format!("{} {} P={} n={} {:?}", fname, kind, P, n, &w[..n.min(5)]);
        set_thread_case(rep.cases as usize, &json!({"k": "drive_models", "float_table": format!("{:?}", w), "float": fname, "P": P, "B": Pr::nbits()}).to_string());
        let total: F = w.iter().copied().sum();
        for norm in [None, Some(total)] {
            if let Ok(Ok(m)) = guarded(|| ContiguousCategoricalEntropyModel::<Pr, Vec<Pr>, P>::from_floating_point_probabilities_fast(&w, norm)) {
                let rows = record_iter::<_, P>(&m); let qs = quantiles_for(rows.as_ref().map(|r| &r[..]).unwrap_or(&[]), P, rng);
                let mut alt = vec![];
                if let Ok(Ok(nd)) = guarded(|| NonContiguousCategoricalDecoderModel::<usize, Pr, Vec<(Pr, usize)>, P>::from_symbols_and_floating_point_probabilities_fast(0..n, &w, norm)) { if let Ok(r) = record_iter::<_, P>(&nd) { alt.push(json!({"name": "non-contiguous decoder fast", "rows": r})); } }
                if let Ok(Ok(lz)) = guarded(|| LazyContiguousCategoricalEntropyModel::<Pr, F, Vec<F>, P>::from_floating_point_probabilities_fast(w.clone(), norm)) { if let Ok(r) = rows_from_enc(&record_enc::<_, P>(&lz, &syms)) { alt.push(json!({"name": "lazy fast (same-named constructor)", "rows": r})); } }
                emit(f, rep, format!("ContiguousCategoricalEntropyModel fast norm={:?} {}", norm.is_some(), tag), P, rows, record_enc::<_, P>(&m, &syms), record_dec::<_, P>(&m, &qs), alt);
            }
            if let Ok(Ok(lz)) = guarded(|| LazyContiguousCategoricalEntropyModel::<Pr, F, Vec<F>, P>::from_floating_point_probabilities_fast(w.clone(), norm)) {
                let enc = record_enc::<_, P>(&lz, &syms); let rows = rows_from_enc(&enc); let qs = quantiles_for(rows.as_ref().map(|r| &r[..]).unwrap_or(&[]), P, rng);
                emit(f, rep, format!("LazyContiguousCategoricalEntropyModel fast norm={:?} {}", norm.is_some(), tag), P, rows, enc, record_dec::<_, P>(&lz, &qs), vec![]);
            }
        }
        if let Ok(Ok(m)) = guarded(|| ContiguousCategoricalEntropyModel::<Pr, Vec<Pr>, P>::from_floating_point_probabilities_perfect(&w)) {
            let rows = record_iter::<_, P>(&m); let qs = quantiles_for(rows.as_ref().map(|r| &r[..]).unwrap_or(&[]), P, rng);
            emit(f, rep, format!("ContiguousCategoricalEntropyModel perfect {}", tag), P, rows, record_enc::<_, P>(&m, &syms), record_dec::<_, P>(&m, &qs), vec![]);
        }
    }
}

/// quantised continuous / discrete distributions with parameters over hundreds of orders of magnitude
pub fn leaky_real<Pr, const P: usize>(f: &mut impl Write, rep: &mut Report, rng: &mut Xoshiro256StarStar, n_models: usize)
where Pr: VInt + Into<f64>, f64: AsPrimitive<Pr>, i32: AsPrimitive<Pr>, i8: AsPrimitive<Pr> {
    for i in 0..n_models {
        beat("leaky real distribution");
        let lo = rng.gen_range(-40i32..0); let hi = lo + rng.gen_range(1..60i32.min((1i32 << P.min(8)) - 1).max(2));
        let mean = match rng.gen_range(0..4) { 0 => rng.gen_range(lo as f64..hi as f64), 1 => 10f64.powf(rng.gen_range(-300.0..300.0)), 2 => -10f64.powf(rng.gen_range(-300.0..300.0)), _ => (lo + hi) as f64 / 2.0 + 0.5 };
        let scale = 10f64.powf(rng.gen_range(-300.0..300.0f64).max(-300.0)).max(1e-300);
        set_thread_case(rep.cases as usize, &json!({"k": "drive_models", "leaky": format!("support {}..={} mean {:e} scale {:e} kind {}", lo, hi, mean, scale, i % 5), "P": P, "B": Pr::nbits()}).to_string());
        let q = match guarded(|| LeakyQuantizer::<f64, i32, Pr, P>::new(lo..=hi)) { Ok(q) => q, Err(_) => { rep.class("support_refused"); continue; } };
        let syms: Vec<i32> = ((lo - 2)..=(hi + 2)).collect();
        macro_rules! one { ($name:expr, $d:expr) => {{
            let m = q.quantize($d);
            let rows = record_iter::<_, P>(&m); let qs = quantiles_for(rows.as_ref().map(|r| &r[..]).unwrap_or(&[]), P, rng);
            emit(f, rep, format!("LeakyQuantizer<f64,i32,_,{}>({}..={}) {} mean={:e} scale={:e}", P, lo, hi, $name, mean, scale), P, rows, record_enc::<_, P>(&m, &syms), record_dec::<_, P>(&m, &qs), vec![]);
            rep.class($name);
        }} }
        match i % 5 {
            0 => one!("Gaussian", Gaussian::new(mean, scale)),
            1 => one!("Cauchy", Cauchy::new(mean, scale)),
            2 => one!("Laplace", Laplace::new(mean, scale)),
            3 => one!("Exponential", Exponential::new(scale.min(1e300))),
            _ => one!("Binomial", Binomial::new((hi - lo).max(1) as usize, rng.gen_range(0.0..1.0))),
        }
        // narrow signed symbols with the support touching the type's bounds
        if P >= 8 { let q8 = match guarded(|| LeakyQuantizer::<f64, i8, Pr, P>::new(-128..=127)) { Ok(q) => q, Err(_) => { rep.class("support_refused"); continue; } }; let m = q8.quantize(Gaussian::new(mean.clamp(-200.0, 200.0), scale.clamp(1e-6, 1e3)));
            let rows = record_iter::<_, P>(&m); let qs = quantiles_for(rows.as_ref().map(|r| &r[..]).unwrap_or(&[]), P, rng); let s8: Vec<i8> = (-128i16..=127).map(|x| x as i8).collect();
            emit(f, rep, format!("LeakyQuantizer<f64,i8,_,{}>(-128..=127) Gaussian mean={:e} scale={:e}", P, mean, scale), P, rows, record_enc::<_, P>(&m, &s8), record_dec::<_, P>(&m, &qs), vec![]); rep.class("Gaussian_i8_full_range"); }
    }
}

pub fn drive_models(seed: u64, n: usize, out: &str) -> Report {
    let mut rep = Report::default();
    let mut rng = Xoshiro256StarStar::seed_from_u64(seed ^ 0x30de15);
    let mut f = std::io::BufWriter::new(std::fs::File::create(out).unwrap());
    float_tables::<u32, f32, 24>(&mut f, &mut rep, &mut rng, n, "f32");
    float_tables::<u32, f32, 32>(&mut f, &mut rep, &mut rng, n, "f32");
    float_tables::<u32, f64, 32>(&mut f, &mut rep, &mut rng, n / 2, "f64");
    rep.class("precision_32");
    float_tables::<u32, f64, 24>(&mut f, &mut rep, &mut rng, n / 2, "f64");
    float_tables::<u16, f32, 12>(&mut f, &mut rep, &mut rng, n / 2, "f32");
    float_tables::<u16, f64, 16>(&mut f, &mut rep, &mut rng, n / 2, "f64");
    float_tables::<u8, f32, 8>(&mut f, &mut rep, &mut rng, n / 2, "f32");
    float_tables::<u8, f64, 5>(&mut f, &mut rep, &mut rng, n / 2, "f64");
    leaky_real::<u32, 24>(&mut f, &mut rep, &mut rng, n);
    leaky_real::<u16, 12>(&mut f, &mut rep, &mut rng, n / 2);
    leaky_real::<u8, 8>(&mut f, &mut rep, &mut rng, n / 2);
    leaky_real::<u16, 16>(&mut f, &mut rep, &mut rng, n / 2);
    rep.checks = rep.cases;
    rep
}
