//! Differential binding of the Python front end for the model classes whose tables the specification does not predict
//! (float arithmetic): the Python driver records messages (model class, parameters, symbols) together with the words the
//! Python API produced; here the same messages are encoded through the Rust API with the constructions the bindings
//! document (DefaultLeakyQuantizer over Gaussian / Laplace / Cauchy / Binomial of the `probability` crate, categorical
//! fast / perfect / lazy models on f64 and f32 tables) and the words must be identical, and must decode back.
use crate::common::*;
use constriction::stream::model::{DefaultContiguousCategoricalEntropyModel, DefaultLazyContiguousCategoricalEntropyModel, DefaultLeakyQuantizer, EncoderModel, DecoderModel};
use constriction::stream::queue::{DefaultRangeDecoder, DefaultRangeEncoder};
use constriction::stream::stack::DefaultAnsCoder;
use constriction::stream::{Decode, Encode};
use probability::distribution::{Binomial, Cauchy, Gaussian, Laplace};
use serde_json::Value;

enum Co { A(DefaultAnsCoder), R(DefaultRangeEncoder) }
enum De { A(DefaultAnsCoder), R(DefaultRangeDecoder) }
impl Co {
    fn enc_i<M: EncoderModel<24, Symbol = i32, Probability = u32>>(&mut self, s: i32, m: M) { match self { Co::A(c) => c.encode_symbol(s, m).unwrap(), Co::R(c) => c.encode_symbol(s, m).unwrap() } }
    fn enc_u<M: EncoderModel<24, Symbol = usize, Probability = u32>>(&mut self, s: usize, m: M) { match self { Co::A(c) => c.encode_symbol(s, m).unwrap(), Co::R(c) => c.encode_symbol(s, m).unwrap() } }
}
impl De {
    fn dec_i<M: DecoderModel<24, Symbol = i32, Probability = u32>>(&mut self, m: M) -> i64 { match self { De::A(c) => c.decode_symbol(m).unwrap() as i64, De::R(c) => c.decode_symbol(m).unwrap() as i64 } }
    fn dec_u<M: DecoderModel<24, Symbol = usize, Probability = u32>>(&mut self, m: M) -> i64 { match self { De::A(c) => c.decode_symbol(m).unwrap() as i64, De::R(c) => c.decode_symbol(m).unwrap() as i64 } }
}
fn f(v: &Value) -> f64 { v.as_f64().unwrap() }
fn par(seg: &Value, key: &str, i: usize) -> f64 { let a = seg[key].as_array().unwrap(); f(&a[if a.len() == 1 { 0 } else { i }]) }

/// encode (`co`) or decode (`de`) symbol number `i` of segment `seg`; returns the decoded symbol
fn step(seg: &Value, i: usize, co: Option<&mut Co>, de: Option<&mut De>) -> i64 {
    let sym = seg["syms"][i].as_i64().unwrap();
    macro_rules! go_i { ($m:expr) => {{ let m = $m; if let Some(c) = co { c.enc_i(sym as i32, &m); sym } else { de.unwrap().dec_i(&m) } }} }
    macro_rules! go_u { ($m:expr) => {{ let m = $m; if let Some(c) = co { c.enc_u(sym as usize, &m); sym } else { de.unwrap().dec_u(&m) } }} }
    match seg["kind"].as_str().unwrap() {
        "gaussian" => go_i!(DefaultLeakyQuantizer::<f64, i32>::new(seg["min"].as_i64().unwrap() as i32..=seg["max"].as_i64().unwrap() as i32).quantize(Gaussian::new(par(seg, "a", i), par(seg, "b", i)))),
        "laplace" => go_i!(DefaultLeakyQuantizer::<f64, i32>::new(seg["min"].as_i64().unwrap() as i32..=seg["max"].as_i64().unwrap() as i32).quantize(Laplace::new(par(seg, "a", i), par(seg, "b", i)))),
        "cauchy" => go_i!(DefaultLeakyQuantizer::<f64, i32>::new(seg["min"].as_i64().unwrap() as i32..=seg["max"].as_i64().unwrap() as i32).quantize(Cauchy::new(par(seg, "a", i), par(seg, "b", i)))),
        "binomial" => { let n = par(seg, "a", i) as i32; go_i!(DefaultLeakyQuantizer::<f64, i32>::new(0..=n).quantize(Binomial::new(n as usize, par(seg, "b", i)))) }
        "bernoulli" => { let p = par(seg, "a", i);
            if seg["perfect"].as_bool().unwrap() { go_u!(DefaultContiguousCategoricalEntropyModel::from_floating_point_probabilities_perfect(&[1.0 - p, p]).unwrap()) }
            else { go_u!(DefaultContiguousCategoricalEntropyModel::from_floating_point_probabilities_fast(&[1.0 - p, p], None).unwrap()) } }
        "categorical" => {
            let rows = seg["probs"].as_array().unwrap(); let row = rows[if rows.len() == 1 { 0 } else { i }].as_array().unwrap();
            let perfect = seg["perfect"].as_bool().unwrap(); let lazy = seg["lazy"].as_bool().unwrap();
            if seg["f32"].as_bool().unwrap() {
                let p: Vec<f32> = row.iter().map(|x| f(x) as f32).collect();
                if perfect { go_u!(DefaultContiguousCategoricalEntropyModel::from_floating_point_probabilities_perfect(&p).unwrap()) }
                else if lazy { go_u!(DefaultLazyContiguousCategoricalEntropyModel::<f32, _>::from_floating_point_probabilities_fast(p.clone(), None).unwrap()) }
                else { go_u!(DefaultContiguousCategoricalEntropyModel::from_floating_point_probabilities_fast(&p, None).unwrap()) }
            } else {
                let p: Vec<f64> = row.iter().map(f).collect();
                if perfect { go_u!(DefaultContiguousCategoricalEntropyModel::from_floating_point_probabilities_perfect(&p).unwrap()) }
                else if lazy { go_u!(DefaultLazyContiguousCategoricalEntropyModel::<f64, _>::from_floating_point_probabilities_fast(p.clone(), None).unwrap()) }
                else { go_u!(DefaultContiguousCategoricalEntropyModel::from_floating_point_probabilities_fast(&p, None).unwrap()) }
            }
        }
        k => panic!("unknown model kind {}", k),
    }
}

pub fn pydiff(input: &str) -> Report {
    let mut rep = Report::default();
    for line in std::fs::read_to_string(input).unwrap().lines() {
        let msg: Value = serde_json::from_str(line).unwrap();
        set_thread_case(rep.cases as usize, line);
        rep.cases += 1; tick();
        let ans = msg["coder"] == "ans";
        let segs = msg["segs"].as_array().unwrap();
        let py_words: Vec<u32> = msg["words"].as_array().unwrap().iter().map(|x| x.as_u64().unwrap() as u32).collect();
        let r = guarded(|| {
            let mut co = if ans { Co::A(DefaultAnsCoder::new()) } else { Co::R(DefaultRangeEncoder::new()) };
            // Python: each call pushes its symbols so that they pop in array order (stack: last symbol first); queue: in order
            for seg in segs { let n = seg["syms"].as_array().unwrap().len();
                if ans { for i in (0..n).rev() { step(seg, i, Some(&mut co), None); } } else { for i in 0..n { step(seg, i, Some(&mut co), None); } } }
            let words: Vec<u32> = match co { Co::A(c) => c.into_compressed().unwrap(), Co::R(c) => c.into_compressed().unwrap() };
            let mut de = if ans { De::A(DefaultAnsCoder::from_compressed(words.clone()).unwrap_or_else(|_| DefaultAnsCoder::new())) } else { De::R(DefaultRangeDecoder::from_compressed(words.clone()).unwrap()) };
            let mut back = vec![]; let mut want = vec![];
            let order: Vec<&Value> = if ans { segs.iter().rev().collect() } else { segs.iter().collect() };
            for seg in order { let n = seg["syms"].as_array().unwrap().len(); for i in 0..n { back.push(step(seg, i, None, Some(&mut de))); want.push(seg["syms"][i].as_i64().unwrap()); } }
            (words, back, want)
        });
        rep.checks += 2;
        match r {
            Ok((words, back, want)) => {
                if words != py_words { rep.mismatch(&msg, format!("the Python front end produced {:?}, the Rust front end {:?} for the same {} message", py_words, words, if ans { "stack" } else { "queue" })); }
                if back != want { rep.mismatch(&msg, format!("Rust round trip of a message recorded from Python returned {:?}, expected {:?}", back, want)); }
                for seg in segs { rep.class(&format!("pydiff_{}", seg["kind"].as_str().unwrap())); }
            }
            Err(m) => rep.mismatch(&msg, format!("panic while re-encoding a Python message through the Rust API: {}", m)),
        }
    }
    rep
}
