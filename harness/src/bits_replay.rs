//! Replay of TLC-emitted `bits` cases (BitCoder.tla) on the real bit-level stack / queue coders.
use crate::common::*;
use crate::tiny::*;
use constriction::symbol::{QueueDecoder, QueueEncoder, ReadBitStream, StackCoder, WriteBitStream};
use constriction::{backends::Cursor, Queue, Stack};
use serde_json::Value;

/// non-destructive: the bits the coder would yield, through `iter()` (a temporary decoder over the same data)
fn drain_stack<W: VInt>(c: &StackCoder<W, Vec<W>>) -> Vec<u8> {
    c.iter().map(|b| b.unwrap() as u8).take(10_000).collect()
}
/// destructive: pop every bit
fn pop_all<W: VInt>(mut k: StackCoder<W, Vec<W>>) -> Vec<u8> {
    let mut out = vec![];
    while let Some(b) = ReadBitStream::<Stack>::read_bit(&mut k).unwrap() { out.push(b as u8); if out.len() > 10_000 { break; } }
    out
}
fn build<W: VInt>(hist: &[&str]) -> StackCoder<W, Vec<W>> {
    let mut c = StackCoder::<W, Vec<W>>::new();
    for op in hist {
        match *op {
            "w0" => c.write_bit(false).unwrap(),
            "w1" => c.write_bit(true).unwrap(),
            "r" => { ReadBitStream::<Stack>::read_bit(&mut c).unwrap(); }
            "g" => { let v = c.get_compressed(); let _ = v.len(); }
            "x" => { c = match StackCoder::<W, Vec<W>>::from_compressed(c.into_compressed().unwrap()) { Ok(k) => k, Err(_) => panic!("from_compressed refused the words into_compressed returned") }; }
            _ => panic!("unknown op"),
        }
    }
    c
}

pub fn bits_w<W: VInt>(case: &Value, mode: &str, rep: &mut Report) {
    let hist: Vec<&str> = case["hist"].as_array().unwrap().iter().map(|x| x.as_str().unwrap()).collect();
    let content: Vec<u8> = case["content"].as_array().unwrap().iter().map(|x| x.as_u64().unwrap() as u8).collect();
    let mut rev = content.clone(); rev.reverse();
    let bad = |rep: &mut Report, d: String| rep.mismatch(case, d);
    macro_rules! g { ($what:expr, $e:expr) => { match guarded(|| $e) { Ok(v) => v, Err(m) => { bad(rep, format!("panic in {}: {}", $what, m)); return; } } } }
    // drive the real stack coder through the history (no Clone: rebuild whenever a copy is needed)
    let mk = || build::<W>(&hist);
    let mut c = g!("history", mk());
    if hist.contains(&"g") { rep.class("guard_in_history"); }
    if hist.contains(&"x") { rep.class("reimport_in_history"); }
    if content.len() % W::nbits() as usize == 0 && !content.is_empty() { rep.class("word_exactly_full"); }
    match mode {
        "c16" => {
            rep.checks += 3;
            let got = g!("iteration", drain_stack(&c));
            let popped = g!("read_bit", pop_all(mk()));
            if popped != rev { bad(rep, format!("stack coder after {:?} pops bits {:?}, spec content reversed {:?}", hist, popped, rev)); return; }
            if got != rev { bad(rep, format!("stack coder after {:?} yields bits {:?}, spec content reversed {:?}", hist, got, rev)); return; }
            // push then pop
            for b in [false, true] { let mut k = mk(); g!("write_bit", k.write_bit(b).unwrap()); let r = g!("read_bit", ReadBitStream::<Stack>::read_bit(&mut k).unwrap()); if r != Some(b) || drain_stack(&k) != rev { bad(rep, format!("write_bit({}) then read_bit gives {:?} / remaining bits differ", b, r)); } }
            // every continuation of up to 4 writes/reads from this state behaves like the abstract stack the specification
            // maps the state to (a state reached by popping across a word boundary must not remember anything)
            {
                let mut seqs: Vec<Vec<u8>> = vec![vec![]];
                for _ in 0..4 { let mut next = vec![]; for q in &seqs { if q.len() + 1 <= 4 { for op in 0..3u8 { let mut t = q.clone(); t.push(op); next.push(t); } } } seqs.extend(next.into_iter().filter(|t| true && !t.is_empty())); seqs.sort(); seqs.dedup(); }
                for q in seqs.iter().filter(|q| !q.is_empty()) {
                    let mut k = mk(); let mut model = content.clone(); let mut ok = true;
                    for op in q { match op { 0 | 1 => { k.write_bit(*op == 1).unwrap(); model.push(*op); }
                        _ => { let r = ReadBitStream::<Stack>::read_bit(&mut k).unwrap(); let e = model.pop(); if r.map(|b| b as u8) != e { bad(rep, format!("after {:?} then ops {:?} (0/1 = write, 2 = read): read_bit gives {:?}, abstract stack gives {:?}", hist, q, r, e)); ok = false; break; } } } }
                    if !ok { return; }
                    rep.checks += 1;
                    let l = k.len(); let fin = k.into_compressed().unwrap();
                    let back = match StackCoder::<W, Vec<W>>::from_compressed(fin.clone()) { Ok(b) => pop_all(b), Err(_) => { bad(rep, format!("after {:?} then ops {:?}: exported words {:?} refused on re-import", hist, q, fin)); return; } };
                    let mut want = model.clone(); want.reverse();
                    if back != want || l != model.len() { bad(rep, format!("after {:?} then ops {:?}: len {} / exported and re-imported content {:?}, abstract stack {:?}", hist, q, l, back, want)); return; }
                }
            }
            // export / re-import at this fill level
            let words = g!("into_compressed", mk().into_compressed().unwrap());
            match g!("from_compressed", StackCoder::<W, Vec<W>>::from_compressed(words.clone())) {
                Ok(k2) => { let got2 = drain_stack(&k2); if got2 != rev { bad(rep, format!("into_compressed -> {:?} -> from_compressed yields bits {:?}, expected {:?}", words, got2, rev)); }
                    if g!("len", k2.len()) != content.len() { bad(rep, format!("re-imported coder reports len {} for {} bits", k2.len(), content.len())); } }
                Err(_) => bad(rep, format!("from_compressed refused {:?} produced by into_compressed", words)),
            }
            // words WITHOUT the terminating 1 bit (a zero last word) are not importable (BitCoder.tla: CanImport): documented Err
            for mut wz in [words.clone(), { let mut v = words.clone(); v.push(W::zero()); v }] {
                if let Some(l) = wz.last_mut() { *l = W::zero(); }
                if wz.is_empty() { continue; }
                rep.checks += 1;
                if g!("from_compressed", StackCoder::<W, Vec<W>>::from_compressed(wz.clone())).is_ok() { bad(rep, format!("from_compressed accepted {:?}, whose last word is zero (no terminating 1 bit)", wz)); }
                rep.class("stack_import_without_terminator");
            }
            // queue: same bits in FIFO order
            let mut q = QueueEncoder::<W, Vec<W>>::new();
            for b in &content { g!("queue write_bit", q.write_bit(*b != 0).unwrap()); }
            rep.checks += 2;
            if g!("len", q.len()) != content.len() || g!("is_empty", q.is_empty()) != content.is_empty() { bad(rep, format!("queue encoder len()/is_empty() = {}/{} for {} bits", q.len(), q.is_empty(), content.len())); }
            let mkq = || { let mut q = QueueEncoder::<W, Vec<W>>::new(); for b in &content { q.write_bit(*b != 0).unwrap(); } q };
            let qwords = g!("queue into_compressed", mkq().into_compressed().unwrap());
            let mut d = QueueDecoder::<W, Cursor<W, Vec<W>>>::from_compressed(Cursor::new_at_write_beginning(qwords.clone()));
            let mut got = vec![];
            while let Some(b) = g!("queue read_bit", ReadBitStream::<Queue>::read_bit(&mut d).unwrap()) { got.push(b as u8); if got.len() == content.len() { rep.checks += 1; if !g!("maybe_exhausted", d.maybe_exhausted()) { bad(rep, format!("queue decoder not maybe_exhausted after exactly the {} written bits", content.len())); } } if got.len() > 10_000 { break; } }
            if got.len() < content.len() || got[..content.len()] != content[..] || got[content.len()..].iter().any(|b| *b != 0) || got.len() >= content.len() + W::nbits() as usize {
                bad(rep, format!("queue: wrote {:?}, words {:?}, read back {:?}", content, qwords, got)); }
            let mut d2 = g!("into_decoder", mkq().into_decoder().unwrap());
            for (i, b) in content.iter().enumerate() { let r = g!("read_bit", ReadBitStream::<Queue>::read_bit(&mut d2).unwrap()); if r != Some(*b != 0) { bad(rep, format!("queue into_decoder: bit {} read as {:?}", i, r)); break; } }
        }
        "c18" => {
            rep.checks += 2;
            let (l, e) = (g!("len", c.len()), g!("is_empty", c.is_empty()));
            let actual = g!("iteration", drain_stack(&c)).len();
            if l != actual || e != (actual == 0) { bad(rep, format!("stack coder len()/is_empty() = {}/{} but it yields {} bits", l, e, actual)); }
            if l != content.len() { bad(rep, format!("stack coder len() = {}, spec {}", l, content.len())); }
        }
        "c08" => {
            // the view equals what finishing returns, any number of times, and the coder is observably untouched
            let fin = g!("into_compressed", mk().into_compressed().unwrap());
            let mut a = mk();
            for round in 0..2 { let v: Vec<W> = g!("get_compressed", a.get_compressed().to_vec()); rep.checks += 1;
                if v != fin { bad(rep, format!("round {}: get_compressed shows {:?}, finishing returns {:?}", round, v, fin)); return; }
                if drain_stack(&a) != rev || a.len() != content.len() { bad(rep, format!("round {}: get_compressed changed the content", round)); return; } }
            let _ = (a.len(), a.is_empty());
            for bits in [[false, true, true], [true, false, false]] {
                let (mut x, mut y) = (mk(), mk());
                let _ = x.get_compressed().len();
                for b in bits { x.write_bit(b).unwrap(); y.write_bit(b).unwrap(); let _ = x.get_compressed().len(); }
                rep.checks += 1;
                if g!("into_compressed", x.into_compressed().unwrap()) != g!("into_compressed", y.into_compressed().unwrap()) { bad(rep, "inspected and untouched stack coders differ in their final output".into()); }
            }
            let mut q = QueueEncoder::<W, Vec<W>>::new(); let mut q2 = QueueEncoder::<W, Vec<W>>::new();
            for b in &content { q.write_bit(*b != 0).unwrap(); q2.write_bit(*b != 0).unwrap();
                let fin = { let mut t = QueueEncoder::<W, Vec<W>>::new(); for b2 in &content[..(q.len())] { t.write_bit(*b2 != 0).unwrap(); } t.into_compressed().unwrap() };
                let v: Vec<W> = g!("queue get_compressed", q.get_compressed().to_vec()); rep.checks += 1;
                if v != fin { bad(rep, format!("queue get_compressed shows {:?}, finishing returns {:?}", v, fin)); return; } let _ = (q.len(), q.is_empty()); }
            if q.into_compressed().unwrap() != q2.into_compressed().unwrap() { bad(rep, "inspected and untouched queue encoders differ".into()); }
        }
        _ => panic!("unknown mode {}", mode),
    }
}

pub fn bits_case(case: &Value, mode: &str, rep: &mut Report) {
    match case["W"].as_u64().unwrap() { 2 => bits_w::<U2>(case, mode, rep), 3 => bits_w::<U3>(case, mode, rep), 4 => bits_w::<U4>(case, mode, rep), 8 => bits_w::<u8>(case, mode, rep), w => panic!("unsupported W {}", w) }
}

/// impl -> spec driver: long random histories on the real StackCoder / QueueEncoder at real word sizes, with symbol codes
/// (Exp-Golomb, Huffman) interleaved; the bit-level events are validated by AbsBits.tla, symbol round trips here.
pub fn drive_bits_w<W: VInt>(f: &mut impl std::io::Write, rep: &mut Report, rng: &mut rand_xoshiro::Xoshiro256StarStar, n_events: usize) {
    use constriction::symbol::exp_golomb::ExpGolomb;
    use constriction::symbol::huffman::{DecoderHuffmanTree, EncoderHuffmanTree};
    use rand::Rng;
    use serde_json::json;
    let wb = W::nbits() as usize;
    let mut c = StackCoder::<W, Vec<W>>::new();
    writeln!(f, "{}", json!({"ev": "new"})).unwrap();
    let weights = [5u32, 1, 0, 2, 2, 9, 1];
    let (he, hd) = (EncoderHuffmanTree::from_probabilities::<u32, _>(&weights), DecoderHuffmanTree::from_probabilities::<u32, _>(&weights));
    let eg = ExpGolomb::<u32>::new();
    let ctxv = json!({"k": "drive_bits", "W": wb});
    let mut depth = 0usize;
    for _ in 0..n_events {
        rep.cases += 1;
        match rng.gen_range(0..100) {
            0..=39 => { let b = rng.gen_bool(0.5); c.write_bit(b).unwrap(); depth += 1; writeln!(f, "{}", json!({"ev": "w", "b": b as u8})).unwrap(); }
            40..=64 => { let r = ReadBitStream::<Stack>::read_bit(&mut c).unwrap(); if r.is_some() { depth -= 1; } writeln!(f, "{}", json!({"ev": "r", "b": r.map(|b| b as u8).unwrap_or(2)})).unwrap(); }
            65..=72 => { writeln!(f, "{}", json!({"ev": "len", "n": c.len(), "empty": c.is_empty()})).unwrap(); if depth % wb == 0 && depth > 0 { rep.class("len_at_word_boundary"); } }
            73..=80 => { // guard twice + iter
                let v1: Vec<W> = c.get_compressed().to_vec(); let v2: Vec<W> = c.get_compressed().to_vec(); let it = c.iter().count();
                writeln!(f, "{}", json!({"ev": "inspect", "same": v1 == v2 && it == depth, "n": c.len()})).unwrap(); rep.class("guard"); }
            81..=86 => { // export and re-import
                let words = c.into_compressed().unwrap();
                match StackCoder::<W, Vec<W>>::from_compressed(words.clone()) { Ok(k) => { c = k; writeln!(f, "{}", json!({"ev": "inspect", "same": true, "n": c.len()})).unwrap(); rep.class("reimport"); }
                    Err(_) => { rep.mismatch(&ctxv, format!("from_compressed refused {:?} words returned by into_compressed", words.len())); return; } } }
            87..=93 => { // a few symbols with Exp-Golomb (stack: encode, then decode in reverse)
                let syms: Vec<u32> = (0..rng.gen_range(1..5)).map(|_| match rng.gen_range(0..4) { 0 => 0, 1 => u32::MAX, 2 => rng.gen::<u32>(), _ => rng.gen_range(0..100) }).collect();
                let l0 = c.len();
                for s in &syms { WriteBitStream::<Stack>::encode_symbol(&mut c, *s, &eg).unwrap(); }
                for s in syms.iter().rev() { let d = ReadBitStream::<Stack>::decode_symbol(&mut c, &eg); if !matches!(d, Ok(x) if x == *s) { rep.mismatch(&ctxv, format!("Exp-Golomb symbol {} came back as {:?} (depth {})", s, d.ok(), depth)); return; } }
                if c.len() != l0 { rep.mismatch(&ctxv, "length changed by encode/decode of Exp-Golomb symbols".into()); return; } rep.class("exp_golomb"); }
            _ => { let syms: Vec<usize> = (0..rng.gen_range(1..9)).map(|_| rng.gen_range(0..weights.len())).collect();
                let l0 = c.len();
                c.encode_symbols_reverse(syms.iter().map(|s| (*s, &he))).unwrap();
                for s in &syms { let d = ReadBitStream::<Stack>::decode_symbol(&mut c, &hd); if !matches!(d, Ok(x) if x == *s) { rep.mismatch(&ctxv, format!("Huffman symbol {} came back as {:?}", s, d.ok())); return; } }
                if c.len() != l0 { rep.mismatch(&ctxv, "length changed by encode/decode of Huffman symbols".into()); return; } rep.class("huffman"); }
        }
    }
    // queue: a long stream of symbols in FIFO order
    let mut q = QueueEncoder::<W, Vec<W>>::new(); let mut expect = vec![];
    for _ in 0..200 { let s = match rng.gen_range(0..4) { 0 => u32::MAX, 1 => 0, _ => rng.gen::<u32>() >> rng.gen_range(0..32) }; WriteBitStream::<Queue>::encode_symbol(&mut q, s, &eg).unwrap(); expect.push(s); let _ = q.get_compressed().len(); }
    let total = q.len();
    let mut d = q.into_decoder().unwrap();
    for s in &expect { let r = ReadBitStream::<Queue>::decode_symbol(&mut d, &eg); if !matches!(r, Ok(x) if x == *s) { rep.mismatch(&ctxv, format!("queue: Exp-Golomb symbol {} came back as {:?} ({} bits in total)", s, r.ok(), total)); return; } }
    if !d.maybe_exhausted() { rep.mismatch(&ctxv, "queue decoder not maybe_exhausted after the last symbol".into()); }
    rep.checks += n_events as u64;
}
pub fn drive_bits(seed: u64, n_events: usize, out: &str) -> Report {
    use rand::SeedableRng;
    let mut rep = Report::default();
    for (name, wb) in [("u8", 8), ("u16", 16), ("u32", 32), ("u64", 64), ("U3", 3)] {
        let mut rng = rand_xoshiro::Xoshiro256StarStar::seed_from_u64(seed ^ 0xb175 ^ wb);
        let mut f = std::io::BufWriter::new(std::fs::File::create(format!("{}.{}.ndjson", out, name)).unwrap());
        match wb { 8 => drive_bits_w::<u8>(&mut f, &mut rep, &mut rng, n_events), 16 => drive_bits_w::<u16>(&mut f, &mut rep, &mut rng, n_events), 32 => drive_bits_w::<u32>(&mut f, &mut rep, &mut rng, n_events), 64 => drive_bits_w::<u64>(&mut f, &mut rep, &mut rng, n_events), _ => drive_bits_w::<U3>(&mut f, &mut rep, &mut rng, n_events) }
    }
    rep
}
