//! Verification-only fixed-width unsigned integers with an arbitrary number of bits (< 64),
//! mirroring the semantics of Rust's primitive unsigned integers in a debug build
//! (overflowing `+ - *` and over-long shifts panic; `wrapping_*` wrap).
use core::fmt;
use core::ops::*;
use num_traits::*;

macro_rules! tiny {
    ($name:ident, $nz:ident, $bits:expr) => {
        #[derive(Clone, Copy, PartialEq, Eq, PartialOrd, Ord, Hash, Default)]
        pub struct $name(pub u64);
        #[derive(Clone, Copy, PartialEq, Eq, Hash)]
        pub struct $nz($name);

        impl $name {
            pub const NBITS: u32 = $bits;
            pub const MASK: u64 = (1u64 << $bits) - 1;
            #[inline] pub fn new(v: u64) -> Self { assert!(v <= Self::MASK, "value out of range"); $name(v) }
            #[inline] pub fn trunc(v: u64) -> Self { $name(v & Self::MASK) }
        }
        impl fmt::Debug for $name { fn fmt(&self, f: &mut fmt::Formatter<'_>) -> fmt::Result { fmt::Debug::fmt(&self.0, f) } }
        impl fmt::Display for $name { fn fmt(&self, f: &mut fmt::Formatter<'_>) -> fmt::Result { fmt::Display::fmt(&self.0, f) } }
        impl fmt::LowerHex for $name { fn fmt(&self, f: &mut fmt::Formatter<'_>) -> fmt::Result { fmt::LowerHex::fmt(&self.0, f) } }
        impl fmt::UpperHex for $name { fn fmt(&self, f: &mut fmt::Formatter<'_>) -> fmt::Result { fmt::UpperHex::fmt(&self.0, f) } }
        impl fmt::Binary for $name { fn fmt(&self, f: &mut fmt::Formatter<'_>) -> fmt::Result { fmt::Binary::fmt(&self.0, f) } }
        impl fmt::Debug for $nz { fn fmt(&self, f: &mut fmt::Formatter<'_>) -> fmt::Result { fmt::Debug::fmt(&self.0, f) } }
        impl fmt::Display for $nz { fn fmt(&self, f: &mut fmt::Formatter<'_>) -> fmt::Result { fmt::Display::fmt(&self.0, f) } }

        impl Add for $name { type Output = Self; #[inline] fn add(self, o: Self) -> Self { let r = self.0 + o.0; assert!(r <= Self::MASK, "attempt to add with overflow"); $name(r) } }
        impl Sub for $name { type Output = Self; #[inline] fn sub(self, o: Self) -> Self { assert!(self.0 >= o.0, "attempt to subtract with overflow"); $name(self.0 - o.0) } }
        impl Mul for $name { type Output = Self; #[inline] fn mul(self, o: Self) -> Self { let r = (self.0 as u128) * (o.0 as u128); assert!(r <= Self::MASK as u128, "attempt to multiply with overflow"); $name(r as u64) } }
        impl Div for $name { type Output = Self; #[inline] fn div(self, o: Self) -> Self { $name(self.0 / o.0) } }
        impl Rem for $name { type Output = Self; #[inline] fn rem(self, o: Self) -> Self { $name(self.0 % o.0) } }
        impl Not for $name { type Output = Self; #[inline] fn not(self) -> Self { $name(!self.0 & Self::MASK) } }
        impl BitAnd for $name { type Output = Self; #[inline] fn bitand(self, o: Self) -> Self { $name(self.0 & o.0) } }
        impl BitOr for $name { type Output = Self; #[inline] fn bitor(self, o: Self) -> Self { $name(self.0 | o.0) } }
        impl BitXor for $name { type Output = Self; #[inline] fn bitxor(self, o: Self) -> Self { $name(self.0 ^ o.0) } }
        impl Shl<usize> for $name { type Output = Self; #[inline] fn shl(self, n: usize) -> Self { assert!((n as u32) < Self::NBITS, "attempt to shift left with overflow"); $name((self.0 << n) & Self::MASK) } }
        impl Shr<usize> for $name { type Output = Self; #[inline] fn shr(self, n: usize) -> Self { assert!((n as u32) < Self::NBITS, "attempt to shift right with overflow"); $name(self.0 >> n) } }

        impl Zero for $name { fn zero() -> Self { $name(0) } fn is_zero(&self) -> bool { self.0 == 0 } }
        impl One for $name { fn one() -> Self { $name(1) } }
        impl Num for $name { type FromStrRadixErr = core::num::ParseIntError; fn from_str_radix(s: &str, r: u32) -> Result<Self, Self::FromStrRadixErr> { u64::from_str_radix(s, r).map(Self::trunc) } }
        impl Unsigned for $name {}
        impl Bounded for $name { fn min_value() -> Self { $name(0) } fn max_value() -> Self { $name(Self::MASK) } }
        impl ToPrimitive for $name { fn to_i64(&self) -> Option<i64> { Some(self.0 as i64) } fn to_u64(&self) -> Option<u64> { Some(self.0) } }
        impl NumCast for $name { fn from<T: ToPrimitive>(n: T) -> Option<Self> { n.to_u64().and_then(|v| if v <= Self::MASK { Some($name(v)) } else { None }) } }
        impl Saturating for $name { fn saturating_add(self, o: Self) -> Self { $name(core::cmp::min(self.0 + o.0, Self::MASK)) } fn saturating_sub(self, o: Self) -> Self { $name(self.0.saturating_sub(o.0)) } }
        impl CheckedAdd for $name { fn checked_add(&self, o: &Self) -> Option<Self> { let r = self.0 + o.0; if r <= Self::MASK { Some($name(r)) } else { None } } }
        impl CheckedSub for $name { fn checked_sub(&self, o: &Self) -> Option<Self> { self.0.checked_sub(o.0).map($name) } }
        impl CheckedMul for $name { fn checked_mul(&self, o: &Self) -> Option<Self> { let r = (self.0 as u128) * (o.0 as u128); if r <= Self::MASK as u128 { Some($name(r as u64)) } else { None } } }
        impl CheckedDiv for $name { fn checked_div(&self, o: &Self) -> Option<Self> { if o.0 == 0 { None } else { Some($name(self.0 / o.0)) } } }
        impl WrappingAdd for $name { fn wrapping_add(&self, o: &Self) -> Self { Self::trunc(self.0.wrapping_add(o.0)) } }
        impl WrappingSub for $name { fn wrapping_sub(&self, o: &Self) -> Self { Self::trunc(self.0.wrapping_sub(o.0)) } }
        impl WrappingMul for $name { fn wrapping_mul(&self, o: &Self) -> Self { Self::trunc(self.0.wrapping_mul(o.0)) } }
        impl PrimInt for $name {
            fn count_ones(self) -> u32 { self.0.count_ones() }
            fn count_zeros(self) -> u32 { Self::NBITS - self.0.count_ones() }
            fn leading_zeros(self) -> u32 { self.0.leading_zeros() - (64 - Self::NBITS) }
            fn trailing_zeros(self) -> u32 { if self.0 == 0 { Self::NBITS } else { self.0.trailing_zeros() } }
            fn rotate_left(self, n: u32) -> Self { let n = n % Self::NBITS; Self::trunc((self.0 << n) | (self.0 >> ((Self::NBITS - n) % Self::NBITS))) }
            fn rotate_right(self, n: u32) -> Self { let n = n % Self::NBITS; self.rotate_left((Self::NBITS - n) % Self::NBITS) }
            fn signed_shl(self, n: u32) -> Self { self << n as usize }
            fn signed_shr(self, n: u32) -> Self { unimplemented!("signed_shr {}", n) }
            fn unsigned_shl(self, n: u32) -> Self { self << n as usize }
            fn unsigned_shr(self, n: u32) -> Self { self >> n as usize }
            fn swap_bytes(self) -> Self { unimplemented!() }
            fn from_be(x: Self) -> Self { x } fn from_le(x: Self) -> Self { x }
            fn to_be(self) -> Self { self } fn to_le(self) -> Self { self }
            fn pow(self, e: u32) -> Self { let mut r = Self::one(); for _ in 0..e { r = r * self; } r }
        }
        unsafe impl constriction::BitArray for $name { const BITS: usize = $bits; type NonZero = $nz; }
        unsafe impl constriction::NonZeroBitArray for $nz {
            type Base = $name;
            fn new(n: $name) -> Option<Self> { if n.0 == 0 { None } else { Some($nz(n)) } }
            unsafe fn new_unchecked(n: $name) -> Self { assert!(n.0 != 0, "unsafe precondition violated: NonZero::new_unchecked(0)"); $nz(n) }
            fn get(self) -> $name { self.0 }
        }
        impl AsPrimitive<$name> for $name { fn as_(self) -> $name { self } }
        impl AsPrimitive<usize> for $name { fn as_(self) -> usize { self.0 as usize } }
        impl AsPrimitive<$name> for usize { fn as_(self) -> $name { $name::trunc(self as u64) } }
        impl AsPrimitive<u64> for $name { fn as_(self) -> u64 { self.0 } }
        impl AsPrimitive<$name> for u64 { fn as_(self) -> $name { $name::trunc(self) } }
        impl AsPrimitive<$name> for i8 { fn as_(self) -> $name { $name::trunc(self as u64) } }
        impl AsPrimitive<$name> for u8 { fn as_(self) -> $name { $name::trunc(self as u64) } }
        impl AsPrimitive<$name> for i16 { fn as_(self) -> $name { $name::trunc(self as u64) } }
        impl AsPrimitive<$name> for u16 { fn as_(self) -> $name { $name::trunc(self as u64) } }
        impl AsPrimitive<$name> for i32 { fn as_(self) -> $name { $name::trunc(self as u64) } }
        impl AsPrimitive<$name> for u32 { fn as_(self) -> $name { $name::trunc(self as u64) } }
        impl AsPrimitive<$name> for i64 { fn as_(self) -> $name { $name::trunc(self as u64) } }
        impl From<$name> for u64 { fn from(x: $name) -> u64 { x.0 } }
        impl From<$name> for usize { fn from(x: $name) -> usize { x.0 as usize } }
        impl From<$name> for f64 { fn from(x: $name) -> f64 { x.0 as f64 } }
        impl From<$name> for f32 { fn from(x: $name) -> f32 { x.0 as f32 } }
        impl AsPrimitive<f64> for $name { fn as_(self) -> f64 { self.0 as f64 } }
        impl AsPrimitive<f32> for $name { fn as_(self) -> f32 { self.0 as f32 } }
        impl AsPrimitive<$name> for f32 { fn as_(self) -> $name { (self as f64).as_() } }
        impl AsPrimitive<$name> for f64 { fn as_(self) -> $name { let v = if self.is_nan() || self < 0.0 { 0 } else if self >= (($name::MASK as f64) + 1.0) { $name::MASK } else { self as u64 }; $name(v) } }
    };
}
macro_rules! widen { ($small:ident, $big:ident) => {
    impl From<$small> for $big { fn from(x: $small) -> $big { $big(x.0) } }
    impl AsPrimitive<$small> for $big { fn as_(self) -> $small { $small::trunc(self.0) } }
    impl AsPrimitive<$big> for $small { fn as_(self) -> $big { $big(self.0) } }
}; }
tiny!(U1, NzU1, 1); tiny!(U2, NzU2, 2); tiny!(U3, NzU3, 3); tiny!(U4, NzU4, 4); tiny!(U5, NzU5, 5); tiny!(U6, NzU6, 6); tiny!(U8t, NzU8t, 8); tiny!(U9, NzU9, 9); tiny!(U12, NzU12, 12); tiny!(U16t, NzU16t, 16);
widen!(U1, U2); widen!(U1, U3); widen!(U1, U4); widen!(U2, U3); widen!(U2, U4); widen!(U2, U5); widen!(U2, U6); widen!(U2, U8t); widen!(U3, U4); widen!(U3, U6); widen!(U3, U9); widen!(U4, U8t); widen!(U4, U12); widen!(U3, U8t); widen!(U8t, U16t); widen!(U4, U16t); widen!(U6, U12);

impl From<U4> for u8 { fn from(x: U4) -> u8 { x.0 as u8 } }

/// Uniform access to the numeric value of every integer type used by the harness.
pub trait VInt: constriction::BitArray {
    fn from_u128_trunc(v: u128) -> Self;
    fn to_u128(self) -> u128;
    fn nbits() -> u32 { <Self as constriction::BitArray>::BITS as u32 }
}
macro_rules! vint_tiny { ($($t:ident),*) => { $(impl VInt for $t {
    fn from_u128_trunc(v: u128) -> Self { $t::trunc(v as u64) }
    fn to_u128(self) -> u128 { self.0 as u128 }
})* } }
vint_tiny!(U1, U2, U3, U4, U5, U6, U8t, U9, U12, U16t);
macro_rules! vint_prim { ($($t:ty),*) => { $(impl VInt for $t {
    fn from_u128_trunc(v: u128) -> Self { v as $t }
    fn to_u128(self) -> u128 { self as u128 }
})* } }
vint_prim!(u8, u16, u32, u64, u128, usize);

